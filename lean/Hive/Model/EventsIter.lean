import Hive.Base.Proto
import Hive.Conc.Sys
/-!
# Weak iteration over the hook registry (`orderedmap.ForEach` as used by `Trigger`) for C15

The registry is a doubly linked list in insertion order plus a dictionary; hook ids come from an
atomic counter, so the list is sorted by id.  `ForEach` reads `head` under the read lock, calls the
consumer **outside** the lock, then reads `current.next` under the read lock, and so on.  `Delete`
unlinks an element but leaves the removed element's own `next` pointer as it was — an iterator that
stands on a removed element continues from that frozen pointer.

Model: `live` = ids in the list (ascending); the successor of a live id is the first live id
greater than it; `frozen` remembers, for every removed id, the successor it had when it was removed.
`Sys`: any number of iterators (three steps per element: arrive, consumer call, read next), of
`Hook` callers (attach a fresh id at the tail) and of `Unhook` callers.

The executable line machine of the harness's `it` section lives in `EventsRelink.lean` (same
registry with one more ghost component; `proj_attach`, `proj_delete`, `proj_next` in
`Proofs/EventsRelink.lean` show that forgetting the ghost gives exactly this registry).
-/
namespace Hive.EventsIter
open Hive.Conc

structure Reg where
  live : List Nat
  frozen : List (Nat × Option Nat)
  counter : Nat
deriving Repr, DecidableEq

def Reg.empty : Reg := { live := [], frozen := [], counter := 0 }

/-- The first live id greater than `x`. -/
def liveNext (r : Reg) (x : Nat) : Option Nat := r.live.find? (fun y => decide (x < y))

/-- `element.next` as an iterator standing on `x` reads it. -/
def next (r : Reg) (x : Nat) : Option Nat :=
  if r.live.contains x then liveNext r x
  else match r.frozen.find? (fun p => p.1 == x) with
    | some p => p.2
    | none => none

/-- `Hook`: `hooksCounter.Add(1)`, then `Set(id, hook)` appends at the tail. -/
def attach (r : Reg) : Reg := { r with live := r.live ++ [r.counter + 1], counter := r.counter + 1 }

/-- `Unhook`: `Delete(id)`. -/
def delete (r : Reg) (x : Nat) : Reg :=
  if r.live.contains x then
    { r with live := r.live.filter (fun y => y != x), frozen := (x, liveNext r x) :: r.frozen }
  else r

inductive ItPc
  | start            -- before reading `head`
  | at (x : Nat)     -- standing on x, consumer not yet called
  | after (x : Nat)  -- consumer(x) returned, about to read x.next
  | fin
deriving Repr, DecidableEq

inductive Th
  | it (pc : ItPc) (visited : List Nat)
  | att (done : Bool)
  | del (x : Nat) (done : Bool)
deriving Repr, DecidableEq

def pcOf : Option Nat → ItPc
  | some x => .at x
  | none => .fin

def step (r : Reg) : Th → List (Reg × Th)
  | .it .start vs => [(r, .it (pcOf r.live.head?) vs)]
  | .it (.at x) vs => [(r, .it (.after x) (vs ++ [x]))]
  | .it (.after x) vs => [(r, .it (pcOf (next r x)) vs)]
  | .it .fin _ => []
  | .att false => [(attach r, .att true)]
  | .att true => []
  | .del x false => [(delete r x, .del x true)]
  | .del _ true => []

def sys : Sys Reg Th := { step := step }

def Th.initial : Th → Bool
  | .it .start [] => true
  | .att false => true
  | .del _ false => true
  | _ => false

end Hive.EventsIter
