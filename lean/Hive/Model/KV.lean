import Hive.Model.KVBase
/-!
# Model of `kvstore/mapdb` with its views, batches and the `flushkv` / `debug` wrappers (C04)

Mirrors the code as it is:

* `mapdb.syncedKVMap` is one *unordered* association list `realm‖key ↦ value` shared by all views
  (`aget/aset/adel/adelPfx` = the Go map primitives; values have value semantics = `ConcatBytes`
  copies on set and get);
* a `mapDB` view is its realm (`WithRealm` replaces, `WithExtendedRealm` appends to `Realm()`), all
  views share one atomic `closed` flag which every method except `Realm`, `Close` and the batch's
  `Set`/`Delete`/`Cancel` loads first;
* `iterate` copies the entries whose key has prefix `realm‖prefix`, sorts the *keys* in the requested
  direction, strips `len(realm)` bytes and calls the consumer until it returns false;
* `batchedMutations` keeps `setOperations` / `deleteOperations` (a `Set` removes the key from the
  delete map and vice versa), `Commit` checks the flag, applies all sets, then all deletes, and keeps
  the maps; `Cancel` empties them.  `log` is a ghost field: the calls since creation / last Cancel;
* `flushkv` forwards reads, follows every successful mutation (and batch Commit) by `Flush()` of
  the wrapped store and returns the first error, except that a Flush refused with ErrStoreClosed after
  a mutation that took effect is not reported (fix b5d5462); `debug` calls its callback and forwards.
  `WithRealm` / `Batched` of a wrapper wrap the result of the wrapped store the same way.

Core Lean only.
-/
namespace Hive.KV

structure Store where
  m : AList
  closed : Bool
deriving Repr, DecidableEq

structure View where
  realm : Bytes
  wraps : List Wrap      -- outermost first; `[]` = a bare `*mapDB`
deriving Repr, DecidableEq

structure Batch where
  realm : Bytes          -- realm of the `*mapDB` the batch belongs to
  wraps : List Wrap
  sets : AList           -- setOperations
  dels : List Bytes      -- deleteOperations
  log : List Write       -- ghost
deriving Repr, DecidableEq

structure St where
  db : Store
  views : List (Nat × View)
  batches : List (Nat × Batch)
deriving Repr, DecidableEq

/-- `mapdb.NewMapDB()`: handle 0 is the root view. -/
def init : St := { db := { m := [], closed := false }, views := [(0, { realm := [], wraps := [] })], batches := [] }

/-! ## `*mapDB` methods -/

def dbCheck (s : Store) : Out := if s.closed then .closed else .ok

def dbGet (realm k : Bytes) (s : Store) : Out :=
  if s.closed then .closed
  else match aget (realm ++ k) s.m with
    | none => .notfound
    | some v => .val v

def dbHas (realm k : Bytes) (s : Store) : Out :=
  if s.closed then .closed else .bool (aget (realm ++ k) s.m).isSome

def dbSet (realm k v : Bytes) (s : Store) : Store × Out :=
  if s.closed then (s, .closed) else ({ s with m := aset (realm ++ k) v s.m }, .ok)

def dbDelete (realm k : Bytes) (s : Store) : Store × Out :=
  if s.closed then (s, .closed) else ({ s with m := adel (realm ++ k) s.m }, .ok)

def dbDeletePrefix (realm p : Bytes) (s : Store) : Store × Out :=
  if s.closed then (s, .closed) else ({ s with m := adelPfx (realm ++ p) s.m }, .ok)

/-- `Clear` = `deletePrefix(realm)`. -/
def dbClear (realm : Bytes) (s : Store) : Store × Out :=
  if s.closed then (s, .closed) else ({ s with m := adelPfx realm s.m }, .ok)

/-- The snapshot `iterate` takes under the map's read lock. -/
def snapshot (realm p : Bytes) (m : AList) : AList := m.filter (fun e => hasPfx (realm ++ p) e.1)

/-- All consumer calls of an iteration that is never stopped. -/
def iterAll (realm p : Bytes) (d : Dir) (m : AList) : List Entry :=
  let snap := snapshot realm p m
  (sortBy (dirLt d) (snap.map (·.1))).map (fun k => (k.drop realm.length, (aget k snap).getD []))

def iterKeysAll (realm p : Bytes) (d : Dir) (m : AList) : List Bytes :=
  (sortBy (dirLt d) ((snapshot realm p m).map (·.1))).map (fun k => k.drop realm.length)

def dbIterate (realm p : Bytes) (d : Dir) (stop : Nat) (s : Store) : Out :=
  if s.closed then .closed else .kvs (stopAfter stop (iterAll realm p d s.m))

def dbIterateKeys (realm p : Bytes) (d : Dir) (stop : Nat) (s : Store) : Out :=
  if s.closed then .closed else .keys (stopAfter stop (iterKeysAll realm p d s.m))

/-- `batchedMutations.Commit`: flag check, every set, then every delete (Go's map order is
arbitrary; the keys of each map are distinct, the list order used here is one of them). -/
def dbCommit (realm : Bytes) (sets : AList) (dels : List Bytes) (s : Store) : Store × Out :=
  if s.closed then (s, .closed)
  else
    let m1 := sets.foldr (fun e m => aset (realm ++ e.1) e.2 m) s.m
    let m2 := dels.foldr (fun k m => adel (realm ++ k) m) m1
    ({ s with m := m2 }, .ok)

/-! ## wrappers -/

/-- `Flush()` through a wrapper stack: every wrapper forwards it. -/
def vFlush : List Wrap → Store → Out
  | [], s => dbCheck s
  | _ :: ws, s => vFlush ws s

/-- A read-only method (Get, Has, Iterate, IterateKeys, and the flag check of WithRealm / Batched)
through a wrapper stack: every wrapper forwards it. -/
def vRead (f : Store → Out) : List Wrap → Store → Out
  | [], s => f s
  | _ :: ws, s => vRead f ws s

/-- A mutating method through a wrapper stack: `debug` forwards, `flushkv` returns the error of the
wrapped call or else the result of `Flush()` — except ErrStoreClosed from that Flush (repaired code). -/
def vMut (f : Store → Store × Out) : List Wrap → Store → Store × Out
  | [], s => f s
  | .debug :: ws, s => vMut f ws s
  | .flush :: ws, s =>
    match vMut f ws s with
    | (s', .ok) =>
      -- `flushAfterMutation`: a Flush refused because the store was closed meanwhile is not an error of the
      -- mutation, which has taken effect; every other answer of Flush is returned
      (s', match vFlush ws s' with | .closed => .ok | o => o)
    | r => r

/-! ## one request -/

def onView (s : St) (v : Nat) (f : View → St × Out) : St × Out :=
  match s.views.lookup v with
  | none => (s, .badHandle)
  | some vw => f vw

def onBatch (s : St) (b : Nat) (f : Batch → St × Out) : St × Out :=
  match s.batches.lookup b with
  | none => (s, .badHandle)
  | some x => f x

def mutate (s : St) (vw : View) (f : Store → Store × Out) : St × Out :=
  let r := vMut f vw.wraps s.db
  ({ s with db := r.1 }, r.2)

def step (s : St) : Op → St × Out
  | .view v p realm mode =>
    onView s p fun pv =>
      -- wrappers compute `ConcatBytes(s.Realm(), realm)` themselves and call their own WithRealm
      let r := match mode with | .abs => realm | .ext => pv.realm ++ realm
      match vRead dbCheck pv.wraps s.db with
      | .ok => ({ s with views := (v, { realm := r, wraps := pv.wraps }) :: s.views }, .ok)
      | e => (s, e)
  | .wrap v p w =>
    onView s p fun pv => ({ s with views := (v, { pv with wraps := w :: pv.wraps }) :: s.views }, .ok)
  | .realm v => onView s v fun vw => (s, .bytes vw.realm)
  | .get v k => onView s v fun vw => (s, vRead (dbGet vw.realm k) vw.wraps s.db)
  | .has v k => onView s v fun vw => (s, vRead (dbHas vw.realm k) vw.wraps s.db)
  | .set v k x => onView s v fun vw => mutate s vw (dbSet vw.realm k x)
  | .del v k => onView s v fun vw => mutate s vw (dbDelete vw.realm k)
  | .delp v p => onView s v fun vw => mutate s vw (dbDeletePrefix vw.realm p)
  | .clear v => onView s v fun vw => mutate s vw (dbClear vw.realm)
  | .flush v => onView s v fun vw => (s, vFlush vw.wraps s.db)
  | .close v => onView s v fun _ => ({ s with db := { s.db with closed := true } }, .ok)
  | .iter v p d stop => onView s v fun vw => (s, vRead (dbIterate vw.realm p d stop) vw.wraps s.db)
  | .iterk v p d stop => onView s v fun vw => (s, vRead (dbIterateKeys vw.realm p d stop) vw.wraps s.db)
  | .batch b v =>
    onView s v fun vw =>
      match vRead dbCheck vw.wraps s.db with
      | .ok => ({ s with batches := (b, { realm := vw.realm, wraps := vw.wraps, sets := [], dels := [], log := [] })
                            :: s.batches }, .ok)
      | e => (s, e)
  | .bset b k x =>
    onBatch s b fun bt =>
      ({ s with batches := (b, { bt with sets := aset k x bt.sets, dels := bt.dels.filter (· != k),
                                         log := bt.log ++ [(k, some x)] }) :: s.batches }, .ok)
  | .bdel b k =>
    onBatch s b fun bt =>
      ({ s with batches := (b, { bt with sets := adel k bt.sets, dels := k :: bt.dels.filter (· != k),
                                         log := bt.log ++ [(k, none)] }) :: s.batches }, .ok)
  | .commit b final =>
    onBatch s b fun bt =>
      let r := vMut (dbCommit bt.realm bt.sets bt.dels) bt.wraps s.db
      ({ s with db := r.1, batches := if final then s.batches.filter (fun e => e.1 != b) else s.batches }, r.2)
  | .cancel b =>
    onBatch s b fun bt =>
      ({ s with batches := (b, { bt with sets := [], dels := [], log := [] }) :: s.batches }, .ok)

def run (s : St) : List Op → St × List Out
  | [] => (s, [])
  | op :: ops =>
    let r := step s op
    let rs := run r.1 ops
    (rs.1, r.2 :: rs.2)

/-- Line-protocol step of `drv_c04`. -/
def stepLine (s : St) (toks : List String) : St × String :=
  match toks with
  | "iterc" :: rest =>
    -- an `iter` whose consumer calls `Clear()` on the same view during its first call: the
    -- iteration runs on its snapshot, so this is the `iter` request followed by a `clear` request
    match parseOp ("iter" :: rest) with
    | some (.iter v p d n) =>
      let r1 := step s (.iter v p d n)
      match r1.2 with
      | .kvs (_ :: _) => let r2 := step r1.1 (.clear v); (r2.1, showOut r1.2 ++ " | " ++ showOut r2.2)
      | .badHandle => (r1.1, showOut r1.2)
      | _ => (r1.1, showOut r1.2 ++ " | none")
    | _ => (s, "bad-op")
  | _ =>
    match parseOp toks with
    | some op => let r := step s op; (r.1, showOut r.2)
    | none => (s, "bad-op")

end Hive.KV
