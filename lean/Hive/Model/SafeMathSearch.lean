import Hive.Gen.C19_SafeMath
import Hive.Model.SafeMathSpec
/-!
# Counterexample search in the regenerated model (C19)

`search fn T` evaluates the definition generated from safe_math.go against the specification
(`Hive/Model/SafeMathSpec.lean`) on a boundary enumeration of the type: `B(T)` = min, max, 0 and `±2^j + d`
(`j ≤ bits`, `d ∈ {-1,0,1}`), for every `x ∈ B(T)` all `y ∈ B(T)` plus the neighbours of `max/x` and `min/x`; all
shift counts 0..255; for `Safe64MulDiv` divisors around the high word of the product.  The harness runs the *same*
enumeration, in the same order, over the real functions against math/big, so that the first counterexample found in
the model and the first one found in the implementation are printed side by side (equal when the model is faithful
to the changed code).  A search is a test, not a theorem: the theorems of Hive/Props/C19.lean are the claim; the
search tells *where* the regenerated model violates them when a proof no longer closes.  Core Lean only.
-/
namespace Hive.SafeMathSearch
open Hive.GoInt Hive.Gen.SafeMath

/-- boundary values of the type, in a fixed order (first occurrences) -/
def boundary (T : IntTy) : List Int :=
  let cand : List Int := Id.run do
    let mut acc : Array Int := #[T.minVal, T.maxVal, 0]
    for j in [0:T.bits + 1] do
      for d in [(-1 : Int), 0, 1] do
        acc := acc.push (2 ^ j + d)
        acc := acc.push (-(2 ^ j) + d)
    return acc.toList
  (cand.filter (fun z => decide (T.InRange z))).eraseDups

/-- the neighbours of `max/x` and `min/x` -/
def extra (T : IntTy) (x : Int) : List Int :=
  if x = 0 then [] else
    ([-1, 0, 1].flatMap (fun d => [Int.tdiv T.maxVal x + d, Int.tdiv T.minVal x + d])).filter (fun z => decide (T.InRange z))

structure Acc where
  evals : Nat := 0
  count : Nat := 0
  first : Option String := none

def Acc.note (a : Acc) (got want : Res Int) (args : Unit → String) : Acc :=
  if got = want then { a with evals := a.evals + 1 }
  else { evals := a.evals + 1, count := a.count + 1,
         first := match a.first with
           | some s => some s
           | none => some s!"{args ()} got {showRes got} want {showRes want}" }

def Acc.render (a : Acc) : String :=
  match a.first with
  | none => s!"none {a.evals}"
  | some s => s!"cex {a.count} {s}"

def pairs (T : IntTy) (f spec : Int → Int → Res Int) : Acc := Id.run do
  let b := boundary T
  let mut a : Acc := {}
  for x in b do
    for y in b ++ extra T x do
      a := a.note (f x y) (spec x y) (fun _ => s!"{x} {y}")
  return a

def shifts (named : Bool) (T : IntTy) : Acc := Id.run do
  let mut a : Acc := {}
  for v in boundary T do
    for n in [0:256] do
      a := a.note (Entry2.run SafeLeftShift named T v n) (exact T (v * 2 ^ n)) (fun _ => s!"{v} {n}")
  return a

def mulDiv : Acc := Id.run do
  let T := IntTy.u64
  let b := boundary T
  let mut a : Acc := {}
  for x in b do
    for y in b do
      let hi := x * y / 2 ^ 64
      for d in ([0, 1, 2, hi - 1, hi, hi + 1, T.maxVal].filter (fun z => decide (T.InRange z))) do
        a := a.note (Safe64MulDiv x y d) (exactMulDiv x y d) (fun _ => s!"{x} {y} {d}")
  return a

/-- `search FN KIND`: the answer line of the driver (`named`: KIND is one of the defined types of the harness) -/
def search (fn : String) (named : Bool) (T : IntTy) : String :=
  match fn with
  | "add" => (pairs T (Entry2.run SafeAdd named T) (fun x y => exact T (x + y))).render
  | "sub" => (pairs T (Entry2.run SafeSub named T) (fun x y => exact T (x - y))).render
  | "mul" => (pairs T (Entry2.run SafeMul named T) (fun x y => exact T (x * y))).render
  | "div" => (pairs T (Entry2.run SafeDiv named T) (exactDiv T)).render
  | "shl" => (shifts named T).render
  | "mulu64" => (pairs IntTy.u64 SafeMulUint64 (fun x y => exact IntTy.u64 (x * y))).render
  | "muli64" => (pairs IntTy.i64 SafeMulInt64 (fun x y => exact IntTy.i64 (x * y))).render
  | "muldiv" => mulDiv.render
  | _ => "bad-op"

end Hive.SafeMathSearch
