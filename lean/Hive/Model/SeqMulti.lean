import Hive.Model.SeqConc
/-!
# Several `kvstore.Sequence` objects with different keys over ONE store (C07)

`NewSequence`: "Multiple sequences can be created by providing different keys."  The store is a map from keys to
stored marks; every key has (at most) one live `Sequence` object with its own interval, its own mutex and its own
history of restarts / crashes.  A request names the key it works on.  What the code of kvstore/sequence.go touches in a
call on key `k` is: the store entry of `k` (`seq.store.Get(seq.key)` / `seq.store.Set(seq.key, …)`), the fields of the
object of `k`, and a local 8-byte buffer — nothing that belongs to another key.  `mstep` says exactly that: the step of
the sequential machine (`Hive.Seq.step`) on the component of `k`, every other component untouched.

`Hive/Props/C07f.lean` proves that such a system is the *product* of independent sequential machines: requests on
different keys commute, the projection of any interleaved history to one key is the history of that key alone, and so
every C07 theorem holds per key.  The harness ties this to the code by running requests of other keys *inside* a store
call of a request (`nest`, `nestg`) and concurrently (`parm`) and comparing with the answers of the requests made one
after the other — which is what the driver below computes.
-/
namespace Hive.Seq.Multi
open Hive.Seq Hive.Seq.Conc

/-- One store, any number of sequence keys (keys are numbered). -/
structure MSt where
  store : Nat → Option Nat       -- key ↦ value stored under it
  obj : Nat → Option Obj         -- key ↦ the live Sequence object of that key
  returned : Nat → List Nat      -- ghost, per key
  budget : Nat → Nat             -- ghost, per key

def minit : MSt := { store := fun _ => none, obj := fun _ => none, returned := fun _ => [], budget := fun _ => 0 }

/-- Function update. -/
def upd {α : Type} (f : Nat → α) (k : Nat) (v : α) : Nat → α := fun x => if x = k then v else f x

/-- The sequential state of key `k`. -/
def proj (s : MSt) (k : Nat) : St :=
  { store := s.store k, obj := s.obj k, returned := s.returned k, budget := s.budget k }

/-- Write the sequential state of key `k` back; every other key untouched. -/
def put (s : MSt) (k : Nat) (t : St) : MSt :=
  { store := upd s.store k t.store, obj := upd s.obj k t.obj,
    returned := upd s.returned k t.returned, budget := upd s.budget k t.budget }

/-- Any request handler of the sequential machine, applied to the component of key `k`. -/
def lift {β : Type} (f : St → St × β) (s : MSt) (k : Nat) : MSt × β :=
  let (t, a) := f (proj s k)
  (put s k t, a)

/-- A request on key `k`. -/
def mstep (s : MSt) (r : Nat × Op) : MSt × Out := lift (fun t => step t r.2) s r.1

def mrun (s : MSt) : List (Nat × Op) → MSt × List (Nat × Out)
  | [] => (s, [])
  | r :: rs =>
    let (s', o) := mstep s r
    let (s'', os) := mrun s' rs
    (s'', (r.1, o) :: os)

/-- The requests of a history that work on key `k`. -/
def opsOf (k : Nat) : List (Nat × Op) → List Op
  | [] => []
  | r :: rs => if r.1 = k then r.2 :: opsOf k rs else opsOf k rs

/-- The answers of a history that belong to key `k`. -/
def outsOf (k : Nat) : List (Nat × Out) → List Out
  | [] => []
  | r :: rs => if r.1 = k then r.2 :: outsOf k rs else outsOf k rs

/-! ## line protocol of the C07 driver

`k2 <request>`, `k3 <request>`, `k4 <request>` address keys 1, 2, 3; no prefix: key 0.
`nest <pt> <request A> / <request B> / …` and `nestg …` (requests B of other keys made while request A is inside a store
call): the answers of A, B, … made one after the other, joined by ` // `.
`parm G K`: `par G K` on every key with a live object (keys 0..3), joined by ` ; `. -/

def laneOf : String → Option Nat
  | "k2" => some 1
  | "k3" => some 2
  | "k4" => some 3
  | _ => none

def stepLineK (s : MSt) (toks : List String) : MSt × String :=
  match toks with
  | [] => (s, "bad-op")
  | t :: rest =>
    match laneOf t, rest with
    | some k, _ :: _ => lift (fun st => stepLineC st rest) s k
    | _, _ => lift (fun st => stepLineC st toks) s 0

/-- Split a token list at the `/` tokens. -/
def segments : List String → List (List String)
  | [] => [[]]
  | t :: ts =>
    match segments ts with
    | [] => [[t]]
    | seg :: segs => if t == "/" then [] :: seg :: segs else (t :: seg) :: segs

def runSegs (s : MSt) : List (List String) → MSt × List String
  | [] => (s, [])
  | seg :: segs =>
    let (s', a) := stepLineK s seg
    let (s'', as) := runSegs s' segs
    (s'', a :: as)

def parmLanes (g k : String) (s : MSt) : List Nat → MSt × List String
  | [] => (s, [])
  | l :: ls =>
    match (proj s l).obj with
    | none => parmLanes g k s ls
    | some _ =>
      let (s', a) := lift (fun st => stepLine st ["par", g, k]) s l
      let (s'', as) := parmLanes g k s' ls
      (s'', a :: as)

def stepLineM (s : MSt) (toks : List String) : MSt × String :=
  match toks with
  | "nest" :: _ :: rest | "nestg" :: _ :: rest =>
    let (s', as) := runSegs s (segments rest)
    (s', " // ".intercalate as)
  | ["parm", g, k] =>
    match g.toNat?, k.toNat? with
    | some _, some _ =>
      let (s', as) := parmLanes g k s [0, 1, 2, 3]
      if as.isEmpty then (s, "noobj") else (s', " ; ".intercalate as)
    | _, _ => (s, "bad-op")
  | _ => stepLineK s toks

end Hive.Seq.Multi
