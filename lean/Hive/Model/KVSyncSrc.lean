import Hive.Model.KV
/-!
# The methods of `synced_map.go` as translated source, and what a translated body does (C04)

`harness/c04/sgen` (go/ast) translates the body of every method of `kvstore/mapdb/synced_map.go` — the Go map under its own
lock — into a `List SStmt` (`Hive/Gen/C04_Sync.lean`, regenerated from the working tree on every run of the check).  `sexec`
interprets a body sequentially; what is primitive here is the Go map (an association list without order: index with comma-ok,
index assignment, `delete`, `range`), `strings.HasPrefix` (`hasPfx`), `byteutils.ConcatBytes` / `ConcatBytesToString` (copies
= values), `utils.SortSlice` (`sortBy (dirLt d)`: the direction is what `GetIterDirection` makes of the caller's arguments) and
the consumer (returns false on its `stop`-th call).  `Hive/Props/C04.lean` proves that the interpreted *generated* bodies are the
map primitives of the model: `aget`, `aset`, `adel`, `adelPfx`, `iterAll`, `iterKeysAll` (with `stopAfter`).  Core Lean only.
-/
namespace Hive.KV.SyncSrc

inductive SStmt
  | lock (what : String)
  | deferUnlock (what : String)
  | lookup (vars m key : String)                          -- a, b := M[K]
  | ifRet (cond : String) (rets : List String)            -- if C { return r… }
  | ret (rets : List String)
  | assignIdx (m key val : String)                        -- M[K] = V
  | deleteKey (m key : String)                            -- delete(M, K)
  | define (x e : String)                                 -- x := e
  | rangeIfPrefixDelete (vars m k pfx m2 k2 : String)     -- for vars := range M { if strings.HasPrefix(k, P) { delete(M2, K2) } }
  | rangeIfPrefixAssign (vars m k pfx m2 k2 v2 : String)  -- for vars := range M { if strings.HasPrefix(k, P) { M2[K2] = V2 } }
  | rangeAppend (k m slice : String)                      -- for k := range M { S = append(S, k) }
  | rangeSortedConsume (key slice dirs consume : String) (args : List String)
      -- for _, key := range utils.SortSlice(S, D...) { if !consume(args) { break } }
  | other (src : String)
deriving DecidableEq, Repr

structure Env where
  a0 : Bytes          -- `$0`: key / keyPrefix / realm
  a1 : Bytes          -- `$1`: value / keyPrefix
  d : Dir             -- what `utils.SortSlice(…, iterDirection...)` sorts by
  stop : Nat          -- the consumer returns false on its `stop`-th call (0: never)

structure SS where
  m : AList           -- s.m
  copied : AList      -- copiedElements
  pfx : Bytes         -- prefix
  keys : List Bytes   -- keysSlice
  value : Option Bytes
  ok : Bool
deriving DecidableEq, Repr

def SS.init (m : AList) : SS := { m := m, copied := [], pfx := [], keys := [], value := none, ok := false }

inductive SRes
  | done (m : AList)                -- a method without result: the map afterwards
  | bool (b : Bool)
  | got (v : Option Bytes)          -- (value, true) / (nil, false)
  | calls (l : List Entry)          -- consumer calls of iterate
  | keyCalls (l : List Bytes)       -- consumer calls of iterateKeys
deriving DecidableEq, Repr

def sexec (e : Env) : List SStmt → SS → Option SRes
  | [], st => some (.done st.m)
  | .lock _ :: rest, st => sexec e rest st
  | .deferUnlock _ :: rest, st => sexec e rest st
  | .lookup vars m key :: rest, st =>
    if m == "s.m" && key == "string($0)" && (vars == "_,ok" || vars == "value,ok") then
      sexec e rest { st with value := aget e.a0 st.m, ok := (aget e.a0 st.m).isSome }
    else none
  | .ifRet cond rets :: rest, st =>
    if cond == "!ok" && rets == ["nil", "false"] then (if !st.ok then some (.got none) else sexec e rest st) else none
  | .ret rets :: _, st =>
    if rets == ["ok"] then some (.bool st.ok)
    else if rets == ["byteutils.ConcatBytes(value)", "true"] then some (.got st.value)
    else none
  | .assignIdx m key val :: rest, st =>
    if m == "s.m" && key == "string($0)" && val == "byteutils.ConcatBytes($1)" then sexec e rest { st with m := aset e.a0 e.a1 st.m }
    else none
  | .deleteKey m key :: rest, st =>
    if m == "s.m" && key == "string($0)" then sexec e rest { st with m := adel e.a0 st.m } else none
  | .define x ex :: rest, st =>
    if x == "prefix" && ex == "string($0)" then sexec e rest { st with pfx := e.a0 }
    else if x == "prefix" && ex == "byteutils.ConcatBytesToString($0,$1)" then sexec e rest { st with pfx := e.a0 ++ e.a1 }
    else if x == "copiedElements" && (ex == "make(map[string][]byte)" || ex == "make(map[string]struct{})") then
      sexec e rest { st with copied := [] }
    else if x == "keysSlice" && ex == "make([]string,0,len(copiedElements))" then sexec e rest { st with keys := [] }
    else none
  | .rangeIfPrefixDelete vars m k pfx m2 k2 :: rest, st =>
    -- deleting the entry at hand during a range over a Go map: every entry is visited once, the others stay
    if vars == "key" && m == "s.m" && k == "key" && pfx == "prefix" && m2 == "s.m" && k2 == "key" then
      sexec e rest { st with m := st.m.filter (fun x => !hasPfx st.pfx x.1) }
    else none
  | .rangeIfPrefixAssign vars m k pfx m2 k2 v2 :: rest, st =>
    if m == "s.m" && k == "key" && pfx == "prefix" && m2 == "copiedElements" && k2 == "key" then
      if vars == "key,value" && v2 == "byteutils.ConcatBytes(value)" then
        sexec e rest { st with copied := st.m.filter (fun x => hasPfx st.pfx x.1) }
      else if vars == "key" && v2 == "struct{}{}" then
        sexec e rest { st with copied := (st.m.filter (fun x => hasPfx st.pfx x.1)).map (fun x => (x.1, [])) }
      else none
    else none
  | .rangeAppend k m slice :: rest, st =>
    if k == "k" && m == "copiedElements" && slice == "keysSlice" then sexec e rest { st with keys := st.keys ++ st.copied.map (·.1) }
    else none
  | .rangeSortedConsume key slice dirs consume args :: _, st =>
    if key == "key" && slice == "keysSlice" && dirs == "$3" && consume == "$2" then
      let sorted := sortBy (dirLt e.d) st.keys
      if args == ["[]byte(key)[len($0):]", "copiedElements[key]"] then
        some (.calls (stopAfter e.stop (sorted.map (fun k => (k.drop e.a0.length, (aget k st.copied).getD [])))))
      else if args == ["[]byte(key)[len($0):]"] then
        some (.keyCalls (stopAfter e.stop (sorted.map (fun k => k.drop e.a0.length))))
      else none
    else none
  | .other _ :: _, _ => none

end Hive.KV.SyncSrc
