import Hive.Model.DerivedBase
/-!
# Compositions: acyclic (or any) graphs of DerivedSets and SubtractReactive results

One element `x` of the universe (sets are pointwise, see `DerivedBase`): a node's value is the bit "`x` is in the
set".  Nodes are *base* sets (written from outside) or *derived* ones; a derived node owns signed in-edges:

* a `DerivedSet` has one `plus` edge per `InheritFrom` source, *mirrored*: the callback first applies the report to
  its private `sourceElements` and feeds what that really changed into the occurrence count;
* a `SubtractReactive` result has one `plus` edge (the source) and one `minus` edge per subtracted set, not
  mirrored: the callback feeds the report itself into `SetArithmetic.Add` / `Subtract`.

Every edge carries the FIFO queue of reports (`true` = `x` added, `false` = `x` deleted) that its source has published
and its destination has not handled yet, and `view`, the source's bit as far as delivered (for a mirrored edge: the
real `sourceElements`).  Steps:

* `write j b`: a base set's bit changes; the report is queued on every connected edge out of `j` — atomically (the
  write paths of the reactive set notify inside their write mutex: `C14_skeleton_set_Apply/_Replace/_Compute`);
* `connect i`: `OnUpdate` of edge `i`: registration + snapshot of the source are atomic, the initial report is queued;
* `deliver i`: the destination handles the oldest report of edge `i`: (mirror,) occurrence count, value.  If the
  value changed, the report of the *derived* node is queued on its out-edges — **in the same step iff `atomic`**:
  that is "the derived set notifies its subscribers inside its write mutex" (`derivedSet.inheritMutations`,
  `set.Compute`).  With `atomic = false` the report goes to a bag of pending notifications instead and
* `publish n` queues pending notification `n` at any later moment (so two of them may overtake each other).
-/
namespace Hive.Derived

structure GEdge where
  src : Nat
  dst : Nat
  plus : Bool
  mirrored : Bool
  on : Bool
  removing : Bool      -- `unsubscribeFromSource()` has returned, `removeSourceElements()` not yet run
  view : Bool
  queue : List Bool
deriving Repr, DecidableEq

structure GS where
  v : Nat → Bool
  c : Nat → Int
  edges : List GEdge
  pending : List (Nat × Bool)

inductive GOp
  | write (j : Nat) (b : Bool)
  | connect (i : Nat)
  | deliver (i : Nat)
  | publish (n : Nat)
  | unsubMark (i : Nat)
  | unsubRemove (i : Nat)
deriving Repr, DecidableEq

def genq (j : Nat) (b : Bool) (e : GEdge) : GEdge :=
  if e.on && e.src == j then { e with queue := e.queue ++ [b] } else e

/-- What the destination's arithmetic is fed for report `r` on edge `e`: (added, deleted). -/
def GEdge.fed (e : GEdge) (r : Bool) : Bool × Bool :=
  if e.mirrored then ((applyBit e.view r (!r)).2.1, (applyBit e.view r (!r)).2.2) else (r, !r)

def GEdge.viewAfter (e : GEdge) (r : Bool) : Bool :=
  if e.mirrored then (applyBit e.view r (!r)).1 else r

def gStep (atomic : Bool) (base : Nat → Bool) (s : GS) : GOp → GS
  | .write j b =>
    if base j && (s.v j != b) then { s with v := setAt s.v j b, edges := s.edges.map (genq j b) } else s
  | .connect i =>
    match s.edges[i]? with
    | some e =>
      if e.on || e.removing then s
      else { s with edges := s.edges.set i { e with on := true, view := false, queue := if s.v e.src then [true] else [] } }
    | none => s
  | .deliver i =>
    match s.edges[i]? with
    | some e =>
      match e.queue with
      | r :: rest =>
        if !e.on || base e.dst then s
        else
          let cv := if e.plus then inheritBit (s.c e.dst) (s.v e.dst) (e.fed r).1 (e.fed r).2
                    else subtractBit (s.c e.dst) (s.v e.dst) (e.fed r).1 (e.fed r).2
          let edges1 := s.edges.set i { e with view := e.viewAfter r, queue := rest }
          { v := setAt s.v e.dst cv.2, c := setAt s.c e.dst cv.1,
            edges := if (cv.2 != s.v e.dst) && atomic then edges1.map (genq e.dst cv.2) else edges1,
            pending := if (cv.2 != s.v e.dst) && !atomic then s.pending ++ [(e.dst, cv.2)] else s.pending }
      | [] => s
    | none => s
  | .publish n =>
    match s.pending[n]? with
    | some p => { s with edges := s.edges.map (genq p.1 p.2), pending := s.pending.eraseIdx n }
    | none => s
  -- the unsubscribe function of `DerivedSet.InheritFrom`, first half: the callback is cancelled (no further report is
  -- queued or handled; what was not handled is dropped)
  | .unsubMark i =>
    match s.edges[i]? with
    | some e =>
      if e.on && e.mirrored && e.plus then { s with edges := s.edges.set i { e with on := false, removing := true, queue := [] } }
      else s
    | none => s
  -- second half: `inheritMutations(deleted = sourceElements)` withdraws what the mirror holds
  | .unsubRemove i =>
    match s.edges[i]? with
    | some e =>
      if !e.removing || e.on || !e.plus || base e.dst then s
      else
        let cv := inheritBit (s.c e.dst) (s.v e.dst) false e.view
        let edges1 := s.edges.set i { e with removing := false, view := false }
        { v := setAt s.v e.dst cv.2, c := setAt s.c e.dst cv.1,
          edges := if (cv.2 != s.v e.dst) && atomic then edges1.map (genq e.dst cv.2) else edges1,
          pending := if (cv.2 != s.v e.dst) && !atomic then s.pending ++ [(e.dst, cv.2)] else s.pending }
    | none => s

def gRun (atomic : Bool) (base : Nat → Bool) (s : GS) (ops : List GOp) : GS := ops.foldl (gStep atomic base) s

/-- A wiring: (source, destination, plus, mirrored) per edge; nothing connected yet, `x` in no set. -/
def GS.init (wiring : List (Nat × Nat × Bool × Bool)) : GS :=
  { v := fun _ => false, c := fun _ => 0, pending := [],
    edges := wiring.map (fun w => { src := w.1, dst := w.2.1, plus := w.2.2.1, mirrored := w.2.2.2, on := false,
                                    removing := false, view := false, queue := [] }) }

/-- All subscriptions made, every report handled, nothing waiting to be published. -/
def GS.quiescent (s : GS) : Bool :=
  s.edges.all (fun e => (e.on && e.queue.isEmpty) || (!e.on && !e.removing)) && s.pending.isEmpty

/-- the subscriptions that exist -/
def GS.live (s : GS) : List GEdge := s.edges.filter (·.on)

def gsign (e : GEdge) : Int := if e.plus then 1 else -1

/-- Signed number of in-edges of `k` whose source holds `x` according to `val`. -/
def wsumV (val : Nat → Bool) (k : Nat) : List GEdge → Int
  | [] => 0
  | e :: es => (if e.dst == k && val e.src then gsign e else 0) + wsumV val k es

/-- The defining equation of a derived node over the values of its direct inputs: `x` is in a DerivedSet iff some
source holds it; in a SubtractReactive result iff the source holds it and no subtracted set does (for the wirings
`allPlus` / `onePlus` below, `wsumV_allPlus` / `wsumV_onePlus`). -/
def GS.localEq (base : Nat → Bool) (edges : List GEdge) (val : Nat → Bool) : Prop :=
  ∀ k, base k = false → val k = decide (1 ≤ wsumV val k edges)

/-- `S = A \ B`, `T = DerivedSet(S)`: nodes 0 = A, 1 = B (base), 2 = S, 3 = T. -/
def gDemoWiring : List (Nat × Nat × Bool × Bool) := [(0, 2, true, false), (1, 2, false, false), (2, 3, true, true)]

/-- `A.Add(x)` and `B.Add(x)`: both reports of `S` are pending, the later one (`-x`) is published first. -/
def gDemoOps : List GOp :=
  [.connect 0, .connect 1, .connect 2, .write 0 true, .deliver 0, .write 1 true, .deliver 1,
   .publish 1, .publish 0, .deliver 2, .deliver 2, .publish 0]

/-! ## Line protocol: the stacked shapes of the harness, all elements of the printed universe

`gs new <shape> <A> <B> <C>` builds the graph over three base sets with the given contents (subscriptions in the
order of the code: per derived node its sources in argument order; `SubtractReactive`: the source, then the subtracted
sets), `gs add|del|replace|apply …` writes a base set; after every request all reports are delivered (the code delivers
synchronously; by `C14_compose_unique` the order does not matter) and the contents of the derived nodes are printed. -/

/-- (kind is DerivedSet, inputs) per derived node 3, 4, … — the same table as `stackShapes` in harness/c14/stack.go. -/
def gShape : String → Option (List (Bool × List Nat))
  | "ds-sub" => some [(false, [0, 1]), (true, [3])]
  | "ds-ds" => some [(true, [0, 1]), (true, [3, 2])]
  | "ds-ds-sub" => some [(false, [0, 1]), (true, [3, 2]), (true, [4])]
  | "sub-sub" => some [(false, [0, 1]), (false, [3, 2])]
  | "sub-ds" => some [(true, [0, 1]), (false, [3, 2])]
  | "ds-sub-ds" => some [(true, [0, 1]), (false, [3, 2]), (true, [4, 0])]
  | "sub-subs" => some [(false, [0, 1]), (false, [2, 1]), (false, [3, 4])]
  | "ds-sub-sub" => some [(false, [0, 1]), (false, [3, 2]), (true, [4, 3])]
  | _ => none

def gWiringOf (nodes : List (Bool × List Nat)) : List (Nat × Nat × Bool × Bool) :=
  (nodes.zipIdx.map (fun p =>
    let k := p.2 + 3
    if p.1.1 then p.1.2.map (fun j => (j, k, true, true))
    else match p.1.2 with
      | [] => []
      | src :: others => (src, k, true, false) :: others.map (fun o => (o, k, false, false)))).flatten

/-- deliver the first undelivered report until nothing is queued -/
def gSettle (base : Nat → Bool) : Nat → GS → GS
  | 0, s => s
  | fuel + 1, s =>
    match s.edges.findIdx? (fun e => e.on && !e.queue.isEmpty) with
    | some i => gSettle base fuel (gStep true base s (.deliver i))
    | none => s

structure GW where
  nodes : Nat                -- number of derived nodes
  spare : Nat                -- index of the first spare edge (`j → top`, one per lower node `j`), 0 if the top is no DerivedSet
  per : List GS              -- one state per element of the printed universe

def gBase (j : Nat) : Bool := decide (j < 3)

/-- The top node is a DerivedSet: it may inherit from one more node (`gs inherit j`) and unsubscribe from it again
(`gs unsub j`); one spare edge `j → top` per lower node, not connected at first. -/
def gSpares (nodes : List (Bool × List Nat)) : List (Nat × Nat × Bool × Bool) :=
  match nodes.getLast? with
  | some (true, _) => (List.range (nodes.length + 2)).map (fun j => (j, nodes.length + 2, true, true))
  | _ => []

def GW.create (nodes : List (Bool × List Nat)) (init : List (List Nat)) : GW :=
  let wiring := gWiringOf nodes
  { nodes := nodes.length,
    spare := if (gSpares nodes).isEmpty then 0 else wiring.length,
    per := (List.range U).map (fun x =>
      let s0 := (List.range 3).foldl (fun s j => gStep true gBase s (.write j ((init.getD j []).contains x)))
        (GS.init (wiring ++ gSpares nodes))
      (List.range wiring.length).foldl (fun s i => gSettle gBase 64 (gStep true gBase s (.connect i))) s0) }

/-- the same structural op on every element's state, then everything delivered -/
def GW.apply (w : GW) (ops : List GOp) : GW :=
  { w with per := w.per.map (fun s => gSettle gBase 64 (ops.foldl (gStep true gBase) s)) }

def GW.write (w : GW) (j : Nat) (newMem : Nat → Bool → Bool) : GW :=
  { w with per := w.per.zipIdx.map (fun p => gSettle gBase 64 (gStep true gBase p.1 (.write j (newMem p.2 (p.1.v j))))) }

def GW.show (w : GW) : String :=
  " ".intercalate ((List.range w.nodes).map (fun k =>
    s!"{k + 3}={showSet (fun x => match w.per[x]? with | some s => s.v (k + 3) | none => false)}"))

def GW.stepLine (st : Option GW) (toks : List String) : Option GW × String :=
  match st, toks with
  | none, ["new", shape, a, b, c] =>
    match gShape shape, parseNats a, parseNats b, parseNats c with
    | some nodes, some a, some b, some c => let w := GW.create nodes [a, b, c]; (some w, w.show)
    | _, _, _, _ => (st, "bad-op")
  | some w, ["inherit", j] =>
    match j.toNat? with
    | some j =>
      if w.spare == 0 || j ≥ w.nodes + 2 then (st, "bad-op")
      else let w' := w.apply [.connect (w.spare + j)]; (some w', w'.show)
    | none => (st, "bad-op")
  | some w, ["unsub", j] =>
    match j.toNat? with
    | some j =>
      if w.spare == 0 || j ≥ w.nodes + 2 then (st, "bad-op")
      else let w' := w.apply [.unsubMark (w.spare + j), .unsubRemove (w.spare + j)]; (some w', w'.show)
    | none => (st, "bad-op")
  | some w, op =>
    match parseSrcOp op with
    | some (j, sop) =>
      if j < 3 then
        let w' := w.write j (fun x cur => sop.newMem (fun y => if y == x then cur else false) x)
        (some w', w'.show)
      else (st, "bad-op")
    | none => (st, "bad-op")
  | _, _ => (st, "bad-op")

end Hive.Derived
