import Hive.Model.Daemon
/-!
# Extension layer of the daemon model (C20): the stopped context and handlers that call back into the daemon

`Hive/Model/Daemon.lean` models the daemon without `stoppedCtx` and with handlers that only run, observe their
cancellation and return.  This layer adds, *on top of the same step function* (`step true true`):

* `ctxDone` — `stoppedCtx` has been cancelled.  `shutdown()` runs `d.stoppedCtxCancel()` after it stored the stopped
  flag under the lock (and released the lock) and before it reads `IsRunning()`: the `stopOnce` body gets one more
  step at program point `stoppedSet` (first the cancellation, then the `IsRunning` read).  Nothing else writes the
  context; `ContextStopped()` returns it (`C20_skeleton_ContextStopped`, `C20_skeleton_shutdown`).
* `ThX.ctxw` — somebody who polls `ContextStopped().Done()` / `.Err()`; a cancelled context is evidence of a begun
  shutdown in the same way as `IsStopped() == true` (event `stopseen`).
* `ThX.handler i done todo` — the goroutine of worker object `i` whose *handler calls back into the daemon*: while
  the handler runs (`pc = run`) it executes the daemon calls `todo` one after the other (`BackgroundWorker`, `Start`,
  `IsStopped` polling, `Shutdown`/`ShutdownAndWait`, `Run` — any `Th`), in between it may observe its cancellation or
  return (dropping the calls it has not made), and after the return the goroutine does `wg.Done`, the clean-up and
  clears its flag as every worker goroutine does.  A nested call is executed by the very same step function as a call
  from any other goroutine; the handler is sequential: its own steps are possible only between two nested calls.

`proj` maps a thread of this layer to the threads of the base model it consists of; `Hive/Proofs/DaemonX.lean` shows
that every run of this layer projects to a run of the base model (`reachX_base`), so every safety theorem of C20
holds for daemons whose handlers call back into the daemon.
-/
namespace Hive.Daemon

structure StX where
  base : St
  ctxDone : Bool

def initX : StX := ⟨init, false⟩

inductive ThX
  | plain (t : Th)
  | ctxw
  | handler (i : Nat) (done todo : List Th)
  deriving DecidableEq, Repr

/-- A call that has returned (a poller may stop polling at any time). -/
def Th.isFin : Th → Bool
  | .bw _ _ _ .fin => true
  | .starter .fin => true
  | .sd _ .fin => true
  | .runner _ .fin => true
  | .watcher => true
  | _ => false

/-- A step of a base-model thread in the extended state.  The thread that runs the `stopOnce` body cancels the
stopped context at `stoppedSet` before it goes on (`d.stoppedCtxCancel()` between the unlock and `IsRunning()`). -/
def liftStep (x : StX) (t : Th) : List (StX × Th) :=
  match t, x.base.sd, x.ctxDone with
  | .sd _ .body, .stoppedSet, false => [(⟨x.base, true⟩, t)]
  | _, _, _ => (step true true x.base t).map fun p => (⟨p.1, x.ctxDone⟩, p.2)

def stepX (x : StX) : ThX → List (StX × ThX)
  | .plain t => (liftStep x t).map fun p => (p.1, .plain p.2)
  | .ctxw => if x.ctxDone then [(⟨emit .stopseen x.base, x.ctxDone⟩, .ctxw)] else []
  | .handler i done [] => (liftStep x (.wk i)).map fun p => (p.1, .handler i done [])
  | .handler i done (c :: rest) =>
    -- the handler's own code between two calls: observe the cancellation, return
    (if c.isInit then (liftStep x (.wk i)).map fun p => (p.1, .handler i done (c :: rest)) else []) ++
    -- the nested call, while the handler runs
    (if (x.base.objs i).pc == .run then
      (liftStep x c).map (fun p => (p.1, .handler i done (p.2 :: rest))) ++
        (if c.isFin then [(x, .handler i (c :: done) rest)] else [])
    else [])

def sysX : Hive.Conc.Sys StX ThX := ⟨stepX⟩

/-- The base-model threads a thread of this layer consists of. -/
def proj : ThX → List Th
  | .plain t => [t]
  | .ctxw => [.watcher]
  | .handler i done todo => .wk i :: (done.reverse ++ todo)

def projAll (ts : List ThX) : List Th := ts.flatMap proj

/-- What an observer outside the daemon can read at one instant. -/
structure Flags where
  ctx : Bool        -- `ContextStopped().Err() != nil`
  flag : Bool       -- `IsStopped()`
  deriving DecidableEq, Repr

/-- The moment of an observation of the stopped context and the stopped flag (`ctx` is read first, then `flag`):
`seen` — by a handler after it observed the cancellation of its own context; `sdret` — after a `ShutdownAndWait`
returned; `refused` — after a `BackgroundWorker` returned `ErrDaemonAlreadyStopped`; `any` — at any time. -/
inductive ObsKind
  | seen | sdret | refused | any
  deriving DecidableEq, Repr

/-- **The relation between the stopped context, the stopped flag and the shutdown** as a decidable predicate on one
observation: a cancelled context implies the flag; once any worker context is cancelled, and once `ShutdownAndWait`
returned, both are set; after a refusal with `ErrDaemonAlreadyStopped` the flag is set. -/
def obsOk : ObsKind → Flags → Bool
  | .seen, f => f.ctx && f.flag
  | .sdret, f => f.ctx && f.flag
  | .refused, f => f.flag
  | .any, f => !f.ctx || f.flag

/-- An observation with the logical times of its begin and end. -/
structure XObs where
  kind : ObsKind
  f : Flags
  tb : Nat
  te : Nat
  deriving Repr

/-- Both are monotone: an observation that began after another one ended cannot see less. -/
def monoOk (a b : XObs) : Bool :=
  !(decide (a.te < b.tb)) || ((!a.f.ctx || b.f.ctx) && (!a.f.flag || b.f.flag))

def xobsOk (l : List XObs) : Bool :=
  l.all (fun a => obsOk a.kind a.f) && l.all (fun a => l.all (fun b => monoOk a b))

end Hive.Daemon
