import Hive.Model.DList
import Hive.Conc.Sys
/-!
# Concurrent side of C10: the thread-safe flavour of `ds.List`

`threadSafeList` (ds/list_impl.go) wraps every method of the inner list in its one `sync.RWMutex`:
`Lock(); defer Unlock(); return t.list.M(args)` for everything that mutates, `RLock(); defer RUnlock();
return t.list.M(args)` for the observers (regenerated skeleton obligations `C10_skeleton_*`).

* `linSearch` / `linearizable`: Wing–Gong search deciding whether a recorded history of completed calls (invocation
  and response stamps, operation, result) is linearizable w.r.t. the abstract specification `sstep` of
  Hive/Spec/DList.lean — the driver answers the `lin` request lines of the harness with it.  Handles created during
  the concurrent phase carry harness-chosen *names* (≥ `concBase`); the search binds a name to the specification's
  handle when it places the creating call.
* `tsSys`: the protocol model — any number of goroutines, each running any sequence of calls of a sequential
  object through the wrapper (`Lock`/`RLock`, the inner call split into a first read and the commit / second read so
  that the argument really uses the mutual exclusion, `Unlock`/`RUnlock`), with a linearization log.

Core Lean only (linked into `drv_c10`).
-/
namespace Hive.DList

/-! ## recorded histories and the linearizability checker -/

/-- a call: a mutating operation (handle arguments are *names*) or one of the observers -/
inductive COp
  | mut (op : Op)
  | len (l : Bool)
  | vals (l : Bool)     -- Values / Range / ForEach
  | rvals (l : Bool)    -- RangeReverse / ForEachReverse
  | fv (l : Bool)       -- Front().Value()
  | bv (l : Bool)       -- Back().Value()
deriving Repr, DecidableEq

inductive CRes
  | h (name : Nat)      -- a new element, named by the harness
  | nil
  | v (n : Nat)
  | ok
  | n (k : Nat)
  | l (vs : List Nat)
deriving Repr, DecidableEq

structure CCall where
  inv : Nat
  ret : Nat
  op : COp
  res : CRes
deriving Repr, DecidableEq

/-- names of handles created during the concurrent phase start here; smaller names are the setup's handles, which
are their own specification handles -/
def concBase : Nat := 100000

abbrev Binding := List (Nat × Nat)

def resolve (b : Binding) (n : Nat) : Option Nat :=
  match b.lookup n with
  | some k => some k
  | none => if n < concBase then some n else none

def resolveOp (b : Binding) : Op → Option Op
  | .remove l e => do some (.remove l (← resolve b e))
  | .insertBefore l v m => do some (.insertBefore l v (← resolve b m))
  | .insertAfter l v m => do some (.insertAfter l v (← resolve b m))
  | .moveToFront l e => do some (.moveToFront l (← resolve b e))
  | .moveToBack l e => do some (.moveToBack l (← resolve b e))
  | .moveBefore l e m => do some (.moveBefore l (← resolve b e) (← resolve b m))
  | .moveAfter l e m => do some (.moveAfter l (← resolve b e) (← resolve b m))
  | op => some op

/-- the values of list `l`, front to back -/
def svals (s : SSt) (l : Bool) : List Nat := (s.lst l).map s.val

/-- One call placed next in the sequential order: the specification must return the recorded result. -/
def cstep (b : Binding) (s : SSt) (c : CCall) : Option (Binding × SSt) :=
  match c.op with
  | .mut op =>
    match resolveOp b op with
    | none => none
    | some op' =>
      let r := sstep s op'
      match r.2, c.res with
      | .handle k, .h name => if (b.lookup name).isNone && decide (concBase ≤ name) then some ((name, k) :: b, r.1) else none
      | .nil, .nil => some (b, r.1)
      | .value x, .v y => if x = y then some (b, r.1) else none
      | .ok, .ok => some (b, r.1)
      | _, _ => none
  | .len l => if c.res = .n (s.lst l).length then some (b, s) else none
  | .vals l => if c.res = .l (svals s l) then some (b, s) else none
  | .rvals l => if c.res = .l (svals s l).reverse then some (b, s) else none
  | .fv l =>
    match (s.lst l).head? with
    | none => if c.res = .nil then some (b, s) else none
    | some e => if c.res = .v (s.val e) then some (b, s) else none
  | .bv l =>
    match (s.lst l).getLast? with
    | none => if c.res = .nil then some (b, s) else none
    | some e => if c.res = .v (s.val e) then some (b, s) else none

/-- the calls executed in the given order, each returning its recorded result -/
def creplay (b : Binding) (s : SSt) : List CCall → Option (Binding × SSt)
  | [] => some (b, s)
  | c :: rest =>
    match cstep b s c with
    | none => none
    | some (b', s') => creplay b' s' rest

/-- `c` may be placed first among `cs`: no other remaining call returned before `c` was invoked -/
def minimalIn (c : CCall) (cs : List CCall) : Bool := cs.all (fun c' => !(c'.ret < c.inv))

/-- Wing–Gong search; `fuel` ≥ number of calls. -/
def linSearch : Nat → Binding → SSt → List CCall → Bool
  | _, _, _, [] => true
  | 0, _, _, _ :: _ => false
  | f + 1, b, s, cs =>
    (List.range cs.length).any (fun i =>
      match cs[i]? with
      | none => false
      | some c =>
        minimalIn c cs &&
          (match cstep b s c with
           | none => false
           | some (b', s') => linSearch f b' s' (cs.eraseIdx i)))

def linearizable (s : SSt) (cs : List CCall) : Bool := linSearch cs.length [] s cs

/-! ## protocol model of the wrapper

One `sync.RWMutex` in front of a sequential object.  A goroutine runs any sequence of calls; a call is

* writer (`Lock(); defer Unlock(); inner call`): `Lock()` announced (`pending`), acquired when no reader and no
  writer is inside, the inner call = a first read of the object (snapshot) followed by the commit computed **from the
  snapshot** (a lost update unless the section is exclusive), `Unlock()`;
* reader (`RLock(); defer RUnlock(); inner call`): admitted while no writer is inside (permissive w.r.t. pending
  writers: a superset of Go's behaviours), the inner call = a first read (the linearization point: the result the
  object gives *now* is logged) and a second read from which the returned result is computed (a traversal reads the
  object many times: equal only if no writer commits in between), `RUnlock()`.

A global `clock` stamps invocations, linearization points and responses. -/
namespace TS
open Hive.Conc

structure RW where
  readers : Nat
  writer : Bool
  pending : Nat
deriving Repr, DecidableEq

inductive LockKind
  | w | r
deriving Repr, DecidableEq

/-- the sequential object behind the wrapper and which lock each of its methods is called under -/
structure Obj (σ O R : Type) where
  run : σ → O → σ × R
  kind : O → LockKind

/-- the sequential meaning of a call through the wrapper: observers leave the object alone -/
def Obj.seq {σ O R : Type} (B : Obj σ O R) (x : σ) (op : O) : σ × R :=
  match B.kind op with
  | .w => B.run x op
  | .r => (x, (B.run x op).2)

inductive Pc (σ O R : Type)
  | idle
  | wWait (op : O) (inv : Nat)
  | wIn (op : O) (inv : Nat)
  | wBody (op : O) (inv : Nat) (x : σ)
  | wOut (op : O) (inv : Nat) (res : R) (lin : Nat)
  | rIn (op : O) (inv : Nat)
  | rBody (op : O) (inv : Nat) (x : σ) (lin : Nat)
  | rOut (op : O) (inv : Nat) (res : R) (lin : Nat)

/-- a completed call as the caller saw it, with the stamp of its linearization point -/
structure Ret (O R : Type) where
  op : O
  res : R
  inv : Nat
  lin : Nat
  ret : Nat

structure Th (σ O R : Type) where
  pc : Pc σ O R
  todo : List O
  rets : List (Ret O R)

/-- an entry of the linearization log -/
structure LE (O R : Type) where
  op : O
  res : R
  stamp : Nat

structure Sh (σ O R : Type) where
  rw : RW
  obj : σ
  log : List (LE O R)
  clock : Nat

variable {σ O R : Type}

def Th.start (ops : List O) : Th σ O R := { pc := .idle, todo := ops, rets := [] }

def Sh.start (x : σ) : Sh σ O R := { rw := { readers := 0, writer := false, pending := 0 }, obj := x, log := [], clock := 0 }

def tick (s : Sh σ O R) : Sh σ O R := { s with clock := s.clock + 1 }

def tsStep (B : Obj σ O R) (s : Sh σ O R) (t : Th σ O R) : List (Sh σ O R × Th σ O R) :=
  match t.pc with
  | .idle =>
    match t.todo with
    | [] => []
    | op :: rest =>
      match B.kind op with
      | .w => [(tick { s with rw := { s.rw with pending := s.rw.pending + 1 } }, { t with pc := .wWait op s.clock, todo := rest })]
      | .r =>
        if s.rw.writer then []
        else [(tick { s with rw := { s.rw with readers := s.rw.readers + 1 } }, { t with pc := .rIn op s.clock, todo := rest })]
  | .wWait op inv =>
    if s.rw.readers == 0 && !s.rw.writer then
      [({ s with rw := { s.rw with writer := true, pending := s.rw.pending - 1 } }, { t with pc := .wIn op inv })]
    else []
  | .wIn op inv => [(s, { t with pc := .wBody op inv s.obj })]
  | .wBody op inv x =>
    let r := B.run x op
    [(tick { s with obj := r.1, log := s.log ++ [{ op := op, res := r.2, stamp := s.clock }] }, { t with pc := .wOut op inv r.2 s.clock })]
  | .wOut op inv res lin =>
    [(tick { s with rw := { s.rw with writer := false } },
      { t with pc := .idle, rets := { op := op, res := res, inv := inv, lin := lin, ret := s.clock } :: t.rets })]
  | .rIn op inv =>
    [(tick { s with log := s.log ++ [{ op := op, res := (B.run s.obj op).2, stamp := s.clock }] },
      { t with pc := .rBody op inv s.obj s.clock })]
  | .rBody op inv _ lin => [(s, { t with pc := .rOut op inv (B.run s.obj op).2 lin })]
  | .rOut op inv res lin =>
    [(tick { s with rw := { s.rw with readers := s.rw.readers - 1 } },
      { t with pc := .idle, rets := { op := op, res := res, inv := inv, lin := lin, ret := s.clock } :: t.rets })]

def tsSys (B : Obj σ O R) : Sys (Sh σ O R) (Th σ O R) := { step := tsStep B }

/-- the log, read as a sequential run of the object from `x`, ends in `y` and returns the logged results -/
def Replays (B : Obj σ O R) : σ → List (LE O R) → σ → Prop
  | x, [], y => x = y
  | x, e :: rest, y => (B.seq x e.op).2 = e.res ∧ Replays B (B.seq x e.op).1 rest y

end TS

/-- the thread-safe list as such an object: the twelve mutating methods under the write lock, the observers
(`Len`, `Values`/`Range`/`ForEach`, the reverse traversals, `Front`, `Back`) under the read lock; the inner calls are
the pointer-level model's (`step`, the walks) -/
inductive LOut
  | out (o : Out)
  | n (k : Int)
  | l (vs : List Nat)
  | e (id : Nat)
deriving Repr, DecidableEq

inductive LOp
  | wr (op : Op)
  | len (l : Bool)
  | vals (l : Bool)
  | rvals (l : Bool)
  | front (l : Bool)
  | back (l : Bool)
deriving Repr, DecidableEq

def listObj : TS.Obj St LOp LOut where
  run s
    | .wr op => let r := step s op; (r.1, .out r.2)
    | .len l => (s, .n (s.len l))
    | .vals l => (s, .l (values s l))
    | .rvals l => (s, .l (valuesRev s l))
    | .front l => (s, .e (front s l))
    | .back l => (s, .e (back s l))
  kind
    | .wr _ => .w
    | _ => .r

/-- which `sync.RWMutex` call the wrapper method of a call starts with (compared with the regenerated skeletons) -/
def lockWord : TS.LockKind → String
  | .w => "lock t.mutex"
  | .r => "rlock t.mutex"

/-! ## traversals whose callback modifies the list (lock-free flavour)

`for e := l.Front(); e != nil; e = e.Next() { callback(e.Value()) }` — the advance is evaluated **after** the callback,
in the list as the callback left it.  `walkMut` is that loop with a callback that applies `act` to the current element
at its `k`-th call (once). -/

inductive ReAct
  | rmCur | rmNext | rmPrev | mbCur | mfCur | iaCur | ibCur | pb | pf | mbFirst | mfLast | init
deriving Repr, DecidableEq

def parseReAct : String → Option ReAct
  | "rm-cur" => some .rmCur
  | "rm-next" => some .rmNext
  | "rm-prev" => some .rmPrev
  | "mb-cur" => some .mbCur
  | "mf-cur" => some .mfCur
  | "ia-cur" => some .iaCur
  | "ib-cur" => some .ibCur
  | "pb" => some .pb
  | "pf" => some .pf
  | "mb-first" => some .mbFirst
  | "mf-last" => some .mfLast
  | "init" => some .init
  | _ => none

/-- what the callback does, `e` = the element whose value it was handed -/
def reAct (l : Bool) (first last : Nat) (a : ReAct) (s : St) (e : Nat) : St :=
  match a with
  | .rmCur => (step s (.remove l e)).1
  | .rmNext => if nextOf s e = 0 then s else (step s (.remove l (nextOf s e))).1
  | .rmPrev => if prevOf s e = 0 then s else (step s (.remove l (prevOf s e))).1
  | .mbCur => (step s (.moveToBack l e)).1
  | .mfCur => (step s (.moveToFront l e)).1
  | .iaCur => (step s (.insertAfter l (100 + valueOf s e) e)).1
  | .ibCur => (step s (.insertBefore l (100 + valueOf s e) e)).1
  | .pb => (step s (.pushBack l 200)).1
  | .pf => (step s (.pushFront l 300)).1
  | .mbFirst => (step s (.moveToBack l first)).1
  | .mfLast => (step s (.moveToFront l last)).1
  | .init => (step s (.init l)).1

/-- the loop: deliver the value, let the callback act (at its `k`-th call), THEN advance in the new state -/
def walkMut (fwd : Bool) (act : St → Nat → St) : Nat → Nat → St → Nat → St × List Nat
  | 0, _, s, _ => (s, [])
  | f + 1, k, s, e =>
    if e = 0 then (s, [])
    else
      let v := valueOf s e
      let s' := if k = 1 then act s e else s
      let r := walkMut fwd act f (k - 1) s' (if fwd then nextOf s' e else prevOf s' e)
      (r.1, v :: r.2)

/-! ### request line `lin CALL*`, `CALL = INV;RET;op;args…;result…` -/
open Hive.Proto

private def pvs (s : String) : Option (List Nat) :=
  if s == "-" then some [] else (s.splitOn ",").mapM (·.toNat?)

def parseRes : List String → Option CRes
  | ["h", n] => do some (.h (← n.toNat?))
  | ["nil"] => some .nil
  | ["v", n] => do some (.v (← n.toNat?))
  | ["ok"] => some .ok
  | ["n", k] => do some (.n (← k.toNat?))
  | ["l", vs] => do some (.l (← pvs vs))
  | _ => none

def parseCOp : List String → Option (COp × List String)
  | "len" :: l :: r => do some (.len (← parseL l), r)
  | "vals" :: l :: r => do some (.vals (← parseL l), r)
  | "rvals" :: l :: r => do some (.rvals (← parseL l), r)
  | "fv" :: l :: r => do some (.fv (← parseL l), r)
  | "bv" :: l :: r => do some (.bv (← parseL l), r)
  | "init" :: l :: r => do some (.mut (.init (← parseL l)), r)
  | k :: a :: b :: c :: r =>
    if k == "ib" || k == "ia" || k == "mvb" || k == "mva" then do some (.mut (← parseOp [k, a, b, c]), r)
    else do some (.mut (← parseOp [k, a, b]), c :: r)
  | [k, a, b] => do some (.mut (← parseOp [k, a, b]), [])
  | _ => none

def parseCCall (tok : String) : Option CCall :=
  match tok.splitOn ";" with
  | i :: r :: rest => do
    let (op, resToks) ← parseCOp rest
    some { inv := ← i.toNat?, ret := ← r.toNat?, op := op, res := ← parseRes resToks }
  | _ => none

/-- the abstract state the recorded concurrent phase starts from (`abs` of Hive/Proofs/DListRefine.lean) -/
def absC (s : St) : SSt :=
  { lst := s.seq, val := fun j => (s.heap j).val, fresh := s.fresh, stale := s.stale }

def linLine (s : St) (toks : List String) : String :=
  match toks.mapM parseCCall with
  | none => "bad-op"
  | some cs =>
    if cs.length > 40 then "reject too-long"
    else if linearizable (absC s) cs then "accept" else "reject not-linearizable"

/-- the line protocol of `drv_c10`: the sequential lines of `stepLine` plus `lin` -/
def stepLineC (s : St) (toks : List String) : St × String :=
  match toks with
  | "lin" :: calls => (s, linLine s calls)
  | ["reent", l, kind, k, a, first, last] =>
    match parseL l, k.toNat?, parseReAct a, first.toNat?, last.toNat? with
    | some l, some k, some a, some first, some last =>
      let fwd := kind == "Range" || kind == "ForEach"
      let r := walkMut fwd (reAct l first last a) (bound s + 64) k s (if fwd then front s l else back s l)
      (compact r.1, showNatList r.2)
    | _, _, _, _, _ => (s, "bad-op")
  | "sched" :: _ => (s, "ok")   -- names the schedule of a concurrent case (what `--replay` re-runs); no effect
  | _ => stepLine s toks

end Hive.DList
