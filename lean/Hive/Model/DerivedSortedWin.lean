import Hive.Conc.Sys
/-!
# Micro-step model of a weight update racing the `Add` of its own element (sorted_set_impl.go)

One element `e` is being added (`addSorted`), goroutines update `e`'s weight, other goroutines make
properly locked weight updates of other elements.  The weight callback of `e` is modelled swap by
swap, with the *decision* of `swap` (where the element type's `Less` may run) separate from the
exchange, and with the exchange done through the `index` fields exactly as the code does
(`s.sortedElements[left.index], s.sortedElements[right.index] = …; left.index, right.index = …`).

`fixed = false`: the callback takes the "initial update" branch (no `s.mutex`) as long as the
element's `unsubscribeFromWeightUpdates` has not been assigned — which `addSorted` does only after
`OnUpdate` has released the callback's execution lock.  `fixed = true`: the callback uses its own
flag, cleared by the initial invocation (under the execution lock).
-/
namespace Hive.Derived.Win
open Hive.Conc

def lookup {α : Type} (l : List (Nat × α)) (k : Nat) (d : α) : α :=
  match l.find? (fun p => p.1 == k) with
  | some p => p.2
  | none => d

def upd {α : Type} (l : List (Nat × α)) (k : Nat) (v : α) : List (Nat × α) :=
  (k, v) :: l.filter (fun p => p.1 != k)

/-- The slice and the per-entry fields. -/
structure SD where
  slice : List Nat
  wt : List (Nat × Int)
  ix : List (Nat × Nat)
deriving Repr, DecidableEq

def SD.w (d : SD) (el : Nat) : Int := lookup d.wt el 0
def SD.i (d : SD) (el : Nat) : Nat := lookup d.ix el 0

/-- `swap`'s decision for `(left, right)`; `Less` is `<` on the ids. -/
def SD.swapc (d : SD) (l r : Nat) : Bool := decide (d.w l < d.w r) || (d.w l == d.w r && decide (l < r))

/-- The exchange of `swap`, through the index fields. -/
def SD.exchange (d : SD) (l r : Nat) : SD :=
  let il := d.i l
  let ir := d.i r
  let vl := d.slice.getD il 0
  let vr := d.slice.getD ir 0
  { d with slice := (d.slice.set il vr).set ir vl, ix := upd (upd d.ix l ir) r il }

/-- Sequential `updatePosition` (both loops), used for the steps that run entirely under the mutex. -/
def SD.left (d : SD) (e : Nat) : Nat → SD × Bool
  | 0 => (d, false)
  | fuel + 1 =>
    if d.i e = 0 then (d, false)
    else
      let l := d.slice.getD (d.i e - 1) 0
      if d.swapc l e then ((SD.left (d.exchange l e) e fuel).1, true) else (d, false)

def SD.right (d : SD) (e : Nat) : Nat → SD
  | 0 => d
  | fuel + 1 =>
    if d.i e + 1 ≥ d.slice.length then d
    else
      let r := d.slice.getD (d.i e + 1) 0
      if d.swapc e r then SD.right (d.exchange e r) e fuel else d

def SD.reposition (d : SD) (e : Nat) : SD :=
  let r := d.left e d.slice.length
  if r.2 then r.1 else r.1.right e d.slice.length

def SD.setWeight (d : SD) (e : Nat) (w : Int) : SD := { d with wt := upd d.wt e w }

/-- heaviest first w.r.t. the weight fields (ties by id) -/
def SD.sorted (d : SD) : Bool :=
  match d.slice with
  | [] => true
  | x :: rest => (rest.foldl (fun (acc : Bool × Nat) y => (acc.1 && !d.swapc acc.2 y, y)) (true, x)).1

structure SW where
  d : SD
  cur : Int               -- value of e's weight variable
  mutex : Bool            -- sortedSet.mutex
  exec : Bool             -- execution lock of e's weight callback
  registered : Bool       -- the callback is registered on e's weight variable
  assigned : Bool         -- `listElement.unsubscribeFromWeightUpdates` has been assigned
  initialDone : Bool      -- repaired code: the callback's own flag has been cleared
deriving Repr, DecidableEq

inductive WT
  | addStart (e : Nat)                -- `addSorted(e)` called
  | addLocked (e : Nat)               -- holds the mutex; next: append, subscribe, initial callback (one step, see below)
  | addHook (e : Nat)                 -- `OnUpdate` returned (execution lock released); next: assign the unsubscribe function
  | addUnlock (e : Nat)               -- next: unlock the mutex
  | setStart (e : Nat) (w : Int)      -- `weightVariable(e).Set(w)` called
  | cbLock (e : Nat) (w : Int)        -- holds the execution lock; next: decide whether to lock the mutex
  | cbWeight (e : Nat) (w : Int) (locked : Bool)
  | cbLeft (e : Nat) (locked moved : Bool)                       -- head of the move-left loop
  | cbLeftDec (e l : Nat) (dec locked moved : Bool)              -- `swap` has decided (Less may have run); next: exchange
  | cbRight (e : Nat) (locked : Bool)
  | cbRightDec (e r : Nat) (dec locked : Bool)
  | cbEnd (e : Nat) (locked : Bool)                              -- next: unlock mutex (if locked) and the execution lock
  | other (f : Nat) (w : Int)         -- a properly locked weight update of another member `f`, as one step
  | fin
deriving Repr, DecidableEq

def wStep (fixed : Bool) (s : SW) : WT → List (SW × WT)
  | .addStart e => if s.mutex then [] else [({ s with mutex := true }, .addLocked e)]
  | .addLocked e =>
    -- append (weight 0, index = len); OnUpdate registers the callback, takes its fresh execution lock, delivers the
    -- current weight (the callback runs in its initial branch: no locking) and releases the execution lock.  One
    -- step: the mutex is held throughout and nobody else can hold the fresh execution lock.
    let d0 : SD := { slice := s.d.slice ++ [e], wt := upd s.d.wt e 0, ix := upd s.d.ix e s.d.slice.length }
    [({ s with d := (d0.setWeight e s.cur).reposition e, registered := true, initialDone := true }, .addHook e)]
  | .addHook e => [({ s with assigned := true }, .addUnlock e)]
  | .addUnlock _ => [({ s with mutex := false }, .fin)]
  | .setStart e w =>
    if s.registered then (if s.exec then [] else [({ s with cur := w, exec := true }, .cbLock e w)])
    else [({ s with cur := w }, .fin)]
  | .cbLock e w =>
    let needLock := if fixed then s.initialDone else s.assigned
    if needLock then (if s.mutex then [] else [({ s with mutex := true }, .cbWeight e w true)])
    else [(s, .cbWeight e w false)]
  | .cbWeight e w locked => [({ s with d := s.d.setWeight e w }, .cbLeft e locked false)]
  | .cbLeft e locked moved =>
    if s.d.i e = 0 then [(s, if moved then .cbEnd e locked else .cbRight e locked)]
    else
      let l := s.d.slice.getD (s.d.i e - 1) 0
      [(s, .cbLeftDec e l (s.d.swapc l e) locked moved)]
  | .cbLeftDec e l dec locked moved =>
    if dec then [({ s with d := s.d.exchange l e }, .cbLeft e locked true)]
    else [(s, if moved then .cbEnd e locked else .cbRight e locked)]
  | .cbRight e locked =>
    if s.d.i e + 1 ≥ s.d.slice.length then [(s, .cbEnd e locked)]
    else
      let r := s.d.slice.getD (s.d.i e + 1) 0
      [(s, .cbRightDec e r (s.d.swapc e r) locked)]
  | .cbRightDec e r dec locked =>
    if dec then [({ s with d := s.d.exchange e r }, .cbRight e locked)] else [(s, .cbEnd e locked)]
  | .cbEnd _ locked => [({ s with mutex := if locked then false else s.mutex, exec := false }, .fin)]
  | .other f w => if s.mutex then [] else [({ s with d := (s.d.setWeight f w).reposition f }, .fin)]
  | .fin => []

def winSys (fixed : Bool) : Sys SW WT := { step := wStep fixed }

/-- Members 1 (weight 9) and 2 (weight 5); element 3 (weight variable = 5) is about to be added. -/
def winInit : SW :=
  { d := { slice := [1, 2], wt := [(1, 9), (2, 5)], ix := [(1, 0), (2, 1)] }, cur := 5, mutex := false, exec := false,
    registered := false, assigned := false, initialDone := false }

/-- thread 0: `Add(3)`; thread 1: `weight(3).Set(9)`; thread 2: `weight(1).Set(1)` -/
def winThreads : List WT := [.addStart 3, .setStart 3 9, .other 1 1]

/-- The schedule of harness/c14/window.go: the adder runs up to the hook; the weight writer of 3 runs its
callback (unlocked in the old code) up to the decision of `swap(1, 3)`; the adder finishes; the update of 1 runs;
the writer resumes. -/
def winSched : List (Nat × Nat) :=
  [(0, 0), (0, 0),                       -- Add(3): lock, append + subscribe + initial callback
   (1, 0), (1, 0), (1, 0), (1, 0),       -- Set(9): execution lock, no mutex (old code), weight, decide swap(1,3)
   (0, 0), (0, 0),                       -- Add(3): assign, unlock
   (2, 0),                               -- weight(1).Set(1), locked, complete
   (1, 0), (1, 0), (1, 0), (1, 0), (1, 0), (1, 0), (1, 0), (1, 0), (1, 0), (1, 0)]   -- the writer resumes to the end

/-- With correct locking the writer blocks at the mutex while the adder is parked, so the same goroutines
serialise; one complete schedule. -/
def winSchedFixed : List (Nat × Nat) :=
  [(0, 0), (0, 0), (1, 0), (0, 0), (0, 0), (1, 0), (1, 0), (1, 0), (1, 0), (1, 0), (1, 0), (2, 0)]

end Hive.Derived.Win
