import Hive.Model.DerivedBase
import Hive.Conc.Sys
/-!
# Protocol model of `reactive.DerivedVariable` / `Variable.InheritFrom` (ds/reactive/variable.go)

`n` input variables `0 … n-1` and one derived variable `d` with `compute = f` (a function of the
input vector).  Threads:

* **writers**: any number, each with an arbitrary script of `input_i.Set(v)` calls.  `Set` takes the
  input's update-order mutex, stores the value under the value mutex (no-op if unchanged), takes the
  execution lock of the derived variable's callback on that input (if one is registered), and runs
  the callback: `d.Compute` takes `d`'s update-order mutex and evaluates
  `compute(own new value, input_j.Get() for the others, one read at a time)`, stores the result,
  and releases everything in reverse order.
* **the constructor** (`NewDerivedVariableN` / `InheritFrom`): for each input in turn `OnUpdate`
  registers the callback and reads the current value atomically (value mutex), takes the fresh
  execution lock, and runs the callback with that value — *without* holding the input's
  update-order mutex — **if the value is not the zero value or the subscription was made with
  `triggerWithInitialZeroValue`** (`trig i`, one flag per subscription as in `variable.go`;
  `readableVariable.OnUpdate`: `if currentValue != emptyValue || lo.First(triggerWithInitialZeroValue)`);
  otherwise the callback is only registered and the execution lock released again.

`seen` is a ghost: the input vector used by the last committed recompute.
-/
namespace Hive.Derived
open Hive.Conc

structure DVS where
  val : Nat → Int
  upd : Nat → Bool       -- update-order mutex of input i is held
  ex : Nat → Bool        -- execution lock of d's callback on input i is held
  reg : Nat → Bool       -- d's callback on input i is registered
  dUpd : Bool            -- d's update-order mutex is held
  d : Int
  seen : Nat → Int

/-- What the thread does after the callback returns. -/
inductive Kont
  | writer (script : List (Nat × Int))   -- release the input's update-order mutex, continue the script
  | ctor (rest : List Nat)               -- continue subscribing to the remaining inputs
deriving Repr, DecidableEq

inductive DVT
  | idle (script : List (Nat × Int))
  | locked (i : Nat) (v : Int) (script : List (Nat × Int))     -- holds upd i
  | wrote (i : Nat) (v : Int) (script : List (Nat × Int))      -- value stored, callback in the snapshot
  | cIdle (rest : List Nat)
  | inCb (i : Nat) (v : Int) (k : Kont)                        -- holds ex i; about to lock d's update order
  | comp (i : Nat) (v : Int) (snap : Nat → Int) (todo : List Nat) (k : Kont)   -- inside d.Compute
  | rel1 (i : Nat) (k : Kont)                                  -- committed; about to unlock dUpd
  | rel2 (i : Nat) (k : Kont)                                  -- about to unlock ex i
  | rel3 (i : Nat) (script : List (Nat × Int))                 -- about to unlock upd i

def dvStep (n : Nat) (f : (Nat → Int) → Int) (trig : Nat → Bool) (s : DVS) : DVT → List (DVS × DVT)
  | .idle [] => []
  | .idle ((i, v) :: sc) => if s.upd i then [] else [({ s with upd := setAt s.upd i true }, .locked i v sc)]
  | .locked i v sc =>
    if s.val i == v then [(s, .rel3 i sc)]
    else if s.reg i then [({ s with val := setAt s.val i v }, .wrote i v sc)]
    else [({ s with val := setAt s.val i v }, .rel3 i sc)]
  | .wrote i v sc => if s.ex i then [] else [({ s with ex := setAt s.ex i true }, .inCb i v (.writer sc))]
  | .cIdle [] => []
  | .cIdle (i :: rest) =>
    if s.ex i || s.reg i then []
    else if s.val i != 0 || trig i then
      [({ s with reg := setAt s.reg i true, ex := setAt s.ex i true }, .inCb i (s.val i) (.ctor rest))]
    else
      -- zero value and no `triggerWithInitialZeroValue`: registered, not invoked (deferred `UnlockExecution` follows)
      [({ s with reg := setAt s.reg i true, ex := setAt s.ex i true }, .rel2 i (.ctor rest))]
  | .inCb i v k =>
    if s.dUpd then [] else [({ s with dUpd := true }, .comp i v (fun _ => 0) ((List.range n).filter (· != i)) k)]
  | .comp i v snap (j :: todo) k => [(s, .comp i v (setAt snap j (s.val j)) todo k)]
  | .comp i v snap [] k => [({ s with d := f (setAt snap i v), seen := setAt snap i v }, .rel1 i k)]
  | .rel1 i k => [({ s with dUpd := false }, .rel2 i k)]
  | .rel2 i (.writer sc) => [({ s with ex := setAt s.ex i false }, .rel3 i sc)]
  | .rel2 i (.ctor rest) => [({ s with ex := setAt s.ex i false }, .cIdle rest)]
  | .rel3 i sc => [({ s with upd := setAt s.upd i false }, .idle sc)]

def dvSys (n : Nat) (f : (Nat → Int) → Int) (trig : Nat → Bool) : Sys DVS DVT := { step := dvStep n f trig }

/-- The `triggerWithInitialZeroValue` flags of a constructor from the regenerated list of its `OnUpdate`
subscriptions (`Hive/Gen/C14_Facts.lean`: receiver, arguments after the callback): subscription `i` triggers for a
zero value iff its extra argument is the literal `true`. -/
def trigOf (subs : List (String × String)) : Nat → Bool :=
  fun i => match subs[i]? with
    | some p => p.2 == "true"
    | none => false

def DVT.finished : DVT → Bool
  | .idle [] => true
  | .cIdle [] => true
  | _ => false

/-- Initial shared state: nothing registered, all locks free. -/
def DVS.fresh (val : Nat → Int) (d0 : Int) : DVS :=
  { val := val, upd := fun _ => false, ex := fun _ => false, reg := fun _ => false, dUpd := false, d := d0,
    seen := fun _ => 0 }

/-- Runs thread `i` (always its first successor) until `stop` holds of its local state, it cannot move, or the fuel is
used up: the building block of the forced schedules the driver replays. -/
def runThread {σ τ : Type} (S : Sys σ τ) (stop : τ → Bool) (i : Nat) : Nat → Cfg σ τ → Cfg σ τ
  | 0, c => c
  | fuel + 1, (s, ts) =>
    match ts[i]? with
    | none => (s, ts)
    | some t =>
      if stop t then (s, ts)
      else
        match (S.step s t)[0]? with
        | none => (s, ts)
        | some (s', t') => runThread S stop i fuel (s', ts.set i t')

/-- the thread has evaluated `compute` and is about to store the result -/
def DVT.atCommit : DVT → Bool
  | .comp _ _ _ [] _ => true
  | _ => false

/-- The constructor (thread 0) runs up to the commit of its `m`-th computation (or to its end, if it makes fewer). -/
def dvzPark (S : Sys DVS DVT) : Nat → Cfg DVS DVT → Cfg DVS DVT
  | 0, c => c
  | m + 1, c =>
    let c1 := runThread S DVT.atCommit 0 1000 c
    if m == 0 then c1 else dvzPark S m (runThread S (fun _ => false) 0 1 c1)

/-- **The forced schedule of `stress dvzero`**: the constructor is parked in front of the commit of its `m`-th
computation, the writer (thread 1) makes its writes as far as it can, the constructor finishes, the writer finishes. -/
def dvzReplay (n : Nat) (f : (Nat → Int) → Int) (trig : Nat → Bool) (inits : List Int) (m : Nat) (writes : List (Nat × Int)) :
    Cfg DVS DVT :=
  let S := dvSys n f trig
  let c0 : Cfg DVS DVT := (DVS.fresh (fun i => inits.getD i 0) 0, [DVT.cIdle (List.range n), DVT.idle writes])
  let c1 := dvzPark S m c0
  let c2 := runThread S (fun _ => false) 1 1000 c1
  let c3 := runThread S (fun _ => false) 0 1000 c2
  runThread S (fun _ => false) 1 1000 c3

/-- the constructor is about to subscribe to its next input -/
def DVT.atSubscribe : DVT → Bool
  | .cIdle (_ :: _) => true
  | _ => false

/-- The constructor (thread 0) runs up to its `k`-th registration and makes it (callback registered, value read,
execution lock taken; the initial invocation not begun): the window of the hook `VerifOnUpdateWindow`. -/
def dvwPark (S : Sys DVS DVT) : Nat → Cfg DVS DVT → Cfg DVS DVT
  | 0, c => c
  | k + 1, c =>
    let c2 := runThread S (fun _ => false) 0 1 (runThread S DVT.atSubscribe 0 1000 c)
    if k == 0 then c2 else dvwPark S k c2

/-- **The forced schedule of `stress onupdate dvar`**: the constructor is parked in the window of its `k`-th
subscription, the writer makes its writes as far as it can (a write to the input that is being subscribed waits for
the execution lock), the constructor finishes, the writer finishes. -/
def dvwReplay (n : Nat) (f : (Nat → Int) → Int) (trig : Nat → Bool) (inits : List Int) (k : Nat) (writes : List (Nat × Int)) :
    Cfg DVS DVT :=
  let S := dvSys n f trig
  let c0 : Cfg DVS DVT := (DVS.fresh (fun i => inits.getD i 0) 0, [DVT.cIdle (List.range n), DVT.idle writes])
  let c1 := dvwPark S k c0
  let c2 := runThread S (fun _ => false) 1 1000 c1
  let c3 := runThread S (fun _ => false) 0 1000 c2
  runThread S (fun _ => false) 1 1000 c3

end Hive.Derived
