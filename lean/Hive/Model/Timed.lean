import Hive.Spec.Timed
import Hive.Conc.Sys
/-!
# Protocol model of `runtime/timed` (Queue, Executor, TaskExecutor) for C18

Sources: runtime/timed/queue.go, executor.go, taskexecutor.go, heapkey.go, ds/generalheap and
`container/heap`.  The model is the code **after** the `fix:` commits listed in
`known_findings/C18.json`.

* `Heap`: the slice of `generalheap.Heap` with `container/heap`'s `up`/`down` (structural recursion
  on a round counter that is initialised with the heap length, which is always enough); `Less` is
  `HeapKey.CompareTo < 0` (earlier time first).  `pop`/`removeAt` cut the last slot off *before*
  sifting instead of after (the sift never touches that slot, so the result is the same array).
  The `index` field of an element is modelled as "position of the element with this serial".
* `Sh`: the shared state — abstract monotone clock, heap, max size, shutdown state (`isShutdown`
  and flags under `shutdownMutex`, the cancelled context), the closed cancel channels, the
  condition variable (`parked` registered waiters, `wake` of them notified), the Executor's
  WaitGroup, the TaskExecutor's identifier map and its mutex, and a ghost event log.
  Every critical section under `heapMutex` is one atomic step.
* `Th`: worker goroutines (`Executor.startBackgroundWorkers` around `Queue.Poll(true)`, the
  TaskExecutor wrapper and the user callback), controller goroutines running an arbitrary script
  of API calls, and a ticker that advances the clock.
* `sys : Hive.Conc.Sys Sh Th`: one step of any thread; configurations hold any number of threads.
-/
namespace Hive.Timed

/-- What the user callback of a task does (harness-supplied callbacks). -/
inductive Kind
  | plain
  /-- blocks until the harness releases the task's tag -/
  | block
  /-- calls `ExecuteAt(own identifier, plain callback, due)`; the new task gets `tag`; then blocks
  until released if `blk` -/
  | resched (due : Nat) (blk : Bool) (tag : Nat)
  /-- calls `Cancel(own identifier)` -/
  | cancelSelf
deriving Repr, DecidableEq

/-- A `QueueElement`.  `serial` is its identity (allocation number), `id` the TaskExecutor
identifier (`none`: scheduled through `Executor.ExecuteAt` directly), `tag` a harness label. -/
structure Elem where
  serial : Nat
  due : Nat
  id : Option Nat
  kind : Kind
  tag : Nat
deriving Repr, DecidableEq

namespace Heap

/-- `Less(i, j)`: `h[i].Key.CompareTo(h[j].Key) < 0`. -/
def lessAt (h : List Elem) (i j : Nat) : Bool :=
  match h[i]?, h[j]? with
  | some a, some b => decide (a.due < b.due)
  | _, _ => false

/-- `Swap(i, j)`. -/
def swap (h : List Elem) (i j : Nat) : List Elem :=
  match h[i]?, h[j]? with
  | some a, some b => (h.set i b).set j a
  | _, _ => h

/-- `container/heap.up` (`fuel` bounds the number of rounds; the heap length is always enough). -/
def up : Nat → List Elem → Nat → List Elem
  | 0, h, _ => h
  | fuel + 1, h, j =>
    if j = 0 then h
    else if lessAt h j ((j - 1) / 2) then up fuel (swap h ((j - 1) / 2) j) ((j - 1) / 2) else h

/-- The child `down` compares with. -/
def child (h : List Elem) (i n : Nat) : Nat :=
  if 2 * i + 2 < n ∧ lessAt h (2 * i + 2) (2 * i + 1) = true then 2 * i + 2 else 2 * i + 1

/-- `container/heap.down(i, n)`; also returns the final position (`down` reports `i > i0`). -/
def down : Nat → List Elem → Nat → Nat → List Elem × Nat
  | 0, h, i, _ => (h, i)
  | fuel + 1, h, i, n =>
    if 2 * i + 1 < n then
      if lessAt h (child h i n) i then down fuel (swap h i (child h i n)) (child h i n) n else (h, i)
    else (h, i)

/-- `heap.Push`. -/
def push (h : List Elem) (e : Elem) : List Elem := up (h.length + 1) (h ++ [e]) h.length

/-- `heap.Pop`: the root, and the remaining heap. -/
def pop (h : List Elem) : Option (Elem × List Elem) :=
  match h with
  | [] => none
  | e :: rest =>
    match rest.getLast? with
    | none => some (e, [])
    | some last => some (e, (down rest.length (last :: rest.dropLast) 0 rest.length).1)

/-- `heap.Remove(i)`: the element at `i`, and the remaining heap. -/
def removeAt (h : List Elem) (i : Nat) : Option (Elem × List Elem) :=
  match h[i]?, h.getLast? with
  | some e, some last =>
    if i = h.length - 1 then some (e, h.dropLast)
    else
      let r := down h.length (h.dropLast.set i last) i (h.length - 1)
      some (e, if r.2 > i then r.1 else up h.length r.1 i)
  | _, _ => none

/-- `rawElem.Index()` of the element with this serial (`none`: -1). -/
def indexOf (h : List Elem) (x : Nat) : Option Nat := h.findIdx? (fun e => e.serial == x)

end Heap

structure Flags where
  cancel : Bool := false      -- CancelPendingElements
  ignore : Bool := false      -- IgnorePendingTimeouts
  panic : Bool := false       -- PanicOnModificationsAfterShutdown
  dontWait : Bool := false    -- DontWaitForShutdown (Executor only)
deriving Repr, DecidableEq

def Flags.or (a b : Flags) : Flags :=
  { cancel := a.cancel || b.cancel, ignore := a.ignore || b.ignore, panic := a.panic || b.panic,
    dontWait := a.dontWait || b.dontWait }

/-- The flag record as the bit mask of the source (`CancelPendingElements = 1 <<< 0`,
`IgnorePendingTimeouts = 1 <<< 1`, `PanicOnModificationsAfterShutdown = 1 <<< 2`,
`DontWaitForShutdown = 1 <<< 7`; the values are regenerated from queue.go and pinned by
`C18_facts_flags`).  The driver decodes the flags of a `shutdown` line through this function. -/
def Flags.ofMask (m : Nat) : Flags :=
  { cancel := m.testBit 0, ignore := m.testBit 1, panic := m.testBit 2, dontWait := m.testBit 7 }

/-- `bitmask.BitMask.HasBits(x)` for a one-bit `x = 1 <<< k`. -/
def hasBit (m k : Nat) : Bool := m &&& (1 <<< k) == 1 <<< k

/-- Return value of the API call that completed last (observed by the driver). -/
inductive Res
  | none
  | ok (x : Nat)        -- ExecuteAt returned element x
  | nil                 -- ExecuteAt returned nil (shut down)
  | panic
  | bool (b : Bool)     -- Cancel(id)
  | done
deriving Repr, DecidableEq

structure Sh where
  clock : Nat := 0
  heap : List Elem := []
  maxSize : Nat := 0
  isShutdown : Bool := false
  flags : Flags := {}
  ctxDone : Bool := false
  closed : List Nat := []
  parked : Nat := 0
  wake : Nat := 0
  wg : Nat := 0
  reg : List (Nat × Nat) := []
  regLocked : Bool := false
  next : Nat := 0
  released : List Nat := []
  armed : List Nat := []
  log : List Ev := []
  lastRes : Res := .none
deriving Repr

/-! ## identifier map (`shrinkingmap`) as an association list -/

def regGet (r : List (Nat × Nat)) (i : Nat) : Option Nat :=
  match r with
  | [] => none
  | (j, x) :: rest => if j == i then some x else regGet rest i

def regDel (r : List (Nat × Nat)) (i : Nat) : List (Nat × Nat) := r.filter (fun p => !(p.1 == i))

def regSet (r : List (Nat × Nat)) (i x : Nat) : List (Nat × Nat) := (i, x) :: regDel r i

/-! ## API calls as transformers of the shared state -/

/-- `waitCond.Signal()`: wakes one registered waiter if there is one not yet notified. -/
def signal (s : Sh) : Sh := if s.wake < s.parked then { s with wake := s.wake + 1 } else s

/-- `waitCond.Broadcast()`. -/
def broadcast (s : Sh) : Sh := { s with wake := s.parked }

/-- `QueueElement.Cancel()` under `heapMutex`: remove from the heap by the maintained index unless
already removed, close the cancel channel once. -/
def cancelElem (s : Sh) (x : Nat) : Sh :=
  let heap' :=
    match Heap.indexOf s.heap x with
    | some i => match Heap.removeAt s.heap i with
                | some r => r.2
                | none => s.heap
    | none => s.heap
  { s with heap := heap', closed := if x ∈ s.closed then s.closed else x :: s.closed,
           log := .cancelled x :: s.log }

inductive AddRes
  | ok (x : Nat)
  | nil
  | panic
deriving Repr, DecidableEq

def AddRes.toRes : AddRes → Res
  | .ok x => .ok x
  | .nil => .nil
  | .panic => .panic

/-- `Queue.Add` (shutdown check and insertion in one critical section, see the `fix:` commit):
refuse after shutdown; push; enforce the size bound by removing the element in the **last slot**
of the heap array and closing its cancel channel; signal. -/
def add (s : Sh) (due : Nat) (id : Option Nat) (kind : Kind) (tag : Nat) : Sh × AddRes :=
  if s.isShutdown then (s, if s.flags.panic then .panic else .nil)
  else
    let e : Elem := { serial := s.next, due := due, id := id, kind := kind, tag := tag }
    let h1 := Heap.push s.heap e
    let log1 := Ev.sched s.next id due :: s.log
    let s1 : Sh := { s with next := s.next + 1 }
    if s.maxSize > 0 ∧ h1.length > s.maxSize then
      match Heap.removeAt h1 (h1.length - 1) with
      | some (d, h2) =>
        -- the dropped element is marked as cancelled (its cancel channel is closed)
        (signal { s1 with heap := h2, closed := d.serial :: s.closed, log := .dropSize d.serial :: log1 }, .ok s.next)
      | none => (signal { s1 with heap := h1, log := log1 }, .ok s.next)
    else (signal { s1 with heap := h1, log := log1 }, .ok s.next)

/-- `Executor.ExecuteAfter(f, delay)` / `TaskExecutor.ExecuteAfter(id, f, delay)`: `ExecuteAt` with the due time
`time.Now().Add(delay)`, the clock being read when the call is made. -/
def addAfter (s : Sh) (delay : Nat) (id : Option Nat) (kind : Kind) (tag : Nat) : Sh × AddRes :=
  add s (s.clock + delay) id kind tag

/-- `TaskExecutor.ExecuteAt`, first half: take `queuedElementsMutex`, cancel the registered task.
Its registration is dropped here already: nobody can look at the map before the second half has
either overwritten the entry (`Set`) or deleted it (refused by the shut-down queue). -/
def exec1 (s : Sh) (i : Nat) : Sh :=
  match regGet s.reg i with
  | some x =>
    let s' := cancelElem s x
    { s' with reg := regDel s'.reg i, regLocked := true, log := .replaced i x :: s'.log }
  | none => { s with regLocked := true }

/-- `TaskExecutor.ExecuteAt`, second half: `Executor.ExecuteAt`, register the new element if there is
one, release the mutex (deferred, so also on panic). -/
def exec2 (s : Sh) (i due : Nat) (kind : Kind) (tag : Nat) : Sh :=
  match add s due (some i) kind tag with
  | (s', .ok x) => { s' with reg := regSet s'.reg i x, regLocked := false, lastRes := .ok x }
  | (s', r) => { s' with regLocked := false, lastRes := r.toRes }

/-- `TaskExecutor.Cancel(id)`: forget the registration; the result says whether the element was still
pending, i.e. whether this call closed its cancel channel (false: cancelled or dropped before). -/
def cancelId (s : Sh) (i : Nat) : Sh :=
  match regGet s.reg i with
  | none => { s with log := .cancelRes i false none :: s.log, lastRes := .bool false }
  | some x =>
    let s' := cancelElem s x
    { s' with reg := regDel s'.reg i, log := .cancelRes i (decide (x ∉ s.closed)) (some x) :: s'.log,
              lastRes := .bool (decide (x ∉ s.closed)) }

/-- `Queue.Shutdown`, the part under `shutdownMutex`.  `none`: it was shut down already. -/
def sd1 (s : Sh) (f : Flags) : Option Sh :=
  if s.isShutdown then none
  else some { s with isShutdown := true, flags := s.flags.or f, log := .shutdown f.cancel f.ignore :: s.log }

/-- `Queue.Shutdown`, the part under `heapMutex`: discard everything with `CancelPendingElements`
(closing the cancel channels of what is discarded), wake every waiting poller. -/
def sd3 (s : Sh) : Sh :=
  if s.flags.cancel then
    broadcast { s with heap := [], closed := s.heap.map (fun e => e.serial) ++ s.closed,
                       log := s.heap.map (fun e => Ev.dropSD e.serial) ++ s.log }
  else broadcast s

/-! ## threads -/

/-- Script of a controller goroutine. -/
inductive EnvOp
  | waitUntil (t : Nat)
  | add (due : Nat) (kind : Kind) (tag : Nat)                 -- Executor.ExecuteAt
  | exec (i due : Nat) (kind : Kind) (tag : Nat)             -- TaskExecutor.ExecuteAt
  | cancelElem (x : Nat)                                     -- ScheduledTask.Cancel()
  | cancelId (i : Nat)                                       -- TaskExecutor.Cancel
  | shutdown (f : Flags)                                     -- Executor.Shutdown
  | release (tag : Nat)                                      -- harness: let a blocked callback / hook go on
  | arm (tag : Nat)                                          -- harness: park the poller that pops `tag` in the hook
deriving Repr, DecidableEq

inductive CPc
  | ready
  | exec2 (i due : Nat) (kind : Kind) (tag : Nat)
  | sd2 (dontWait : Bool)
  | sd3 (dontWait : Bool)
  | sdWait
deriving Repr, DecidableEq

inductive Th
  /-- worker at the top of `Poll`'s loop, about to take `heapMutex` (also after a wake-up) -/
  | idle
  /-- worker in `waitCond.Wait()` -/
  | parked
  /-- worker that popped `e` and created the timer, held in the `verif` hook before the `select` -/
  | hk (e : Elem)
  /-- worker in the outer `select` -/
  | sel (e : Elem)
  /-- worker in the inner `select` (context done, no flag applies) -/
  | selSD (e : Elem)
  /-- worker that committed to returning `e`, about to look at the cancel channel once more -/
  | chk (e : Elem)
  /-- `Poll` returned `e`; the worker is about to call it (TaskExecutor: the wrapper's registration test) -/
  | wrap (e : Elem)
  /-- inside the user callback of `e`, at step `k` -/
  | cb (e : Elem) (k : Nat)
  /-- worker goroutine ended (`shutdownWG.Done()`) -/
  | exited
  /-- controller goroutine -/
  | ctl (pc : CPc) (script : List EnvOp)
  /-- the clock -/
  | ticker
deriving Repr, DecidableEq

/-- Steps of a worker goroutine. -/
def workerStep (s : Sh) : Th → List (Sh × Th)
  | .idle =>
    match Heap.pop s.heap with
    | none =>
      if s.isShutdown then [({ s with wg := s.wg - 1 }, .exited)]
      else [({ s with parked := s.parked + 1 }, .parked)]
    | some (e, h') =>
      [({ s with heap := h' }, if e.tag ∈ s.armed then .hk e else .sel e)]
  | .parked =>
    if 0 < s.wake then [({ s with wake := s.wake - 1, parked := s.parked - 1 }, .idle)] else []
  | .hk e => if e.tag ∈ s.released then [(s, .sel e)] else []
  | .sel e =>
    (if s.ctxDone then
      (if s.flags.cancel then
        [({ s with wg := s.wg - 1, closed := e.serial :: s.closed, log := .dropSD e.serial :: s.log }, .exited)]
       else if s.flags.ignore then [(s, .chk e)]
       else [(s, .selSD e)])
     else []) ++
    (if e.serial ∈ s.closed then [({ s with log := .skip e.serial :: s.log }, .idle)] else []) ++
    (if e.due ≤ s.clock then [(s, .chk e)] else [])
  | .selSD e =>
    (if e.serial ∈ s.closed then [({ s with log := .skip e.serial :: s.log }, .idle)] else []) ++
    (if e.due ≤ s.clock then [(s, .chk e)] else [])
  | .chk e =>
    if e.serial ∈ s.closed then [({ s with log := .skip e.serial :: s.log }, .idle)]
    else [({ s with log := .deliver e.serial s.clock :: s.log }, .wrap e)]
  | .wrap e =>
    match e.id with
    | none => [({ s with log := .run e.serial s.clock :: s.log }, .cb e 0)]
    | some i =>
      if s.regLocked then []
      else if regGet s.reg i = some e.serial then
        [({ s with reg := regDel s.reg i, log := .run e.serial s.clock :: s.log }, .cb e 0)]
      else [({ s with log := .skip e.serial :: s.log }, .idle)]
  | .cb e k =>
    match e.kind, e.id with
    | .block, _ => if e.tag ∈ s.released then [(s, .idle)] else []
    | .resched due blk tag, some i =>
      match k with
      | 0 => if s.regLocked then [] else [(exec1 s i, .cb e 1)]
      | 1 => [(exec2 s i due .plain tag, if blk then .cb e 2 else .idle)]
      | _ => if e.tag ∈ s.released then [(s, .idle)] else []
    | .cancelSelf, some i => if s.regLocked then [] else [(cancelId s i, .idle)]
    | _, _ => [(s, .idle)]
  | _ => []

/-- Steps of a controller goroutine. -/
def ctlStep (s : Sh) (pc : CPc) (script : List EnvOp) : List (Sh × Th) :=
  match pc with
  | .exec2 i due kind tag => [(exec2 s i due kind tag, .ctl .ready script)]
  | .sd2 dw => [({ s with ctxDone := true }, .ctl (.sd3 dw) script)]
  | .sd3 dw => [({ sd3 s with lastRes := .done }, .ctl (if dw then .ready else .sdWait) script)]
  | .sdWait => if s.wg = 0 then [({ s with lastRes := .done }, .ctl .ready script)] else []
  | .ready =>
    match script with
    | [] => []
    | op :: rest =>
      match op with
      | .waitUntil t => if t ≤ s.clock then [(s, .ctl .ready rest)] else []
      | .add due kind tag =>
        let r := add s due none kind tag
        [({ r.1 with lastRes := r.2.toRes }, .ctl .ready rest)]
      | .exec i due kind tag => if s.regLocked then [] else [(exec1 s i, .ctl (.exec2 i due kind tag) rest)]
      | .cancelElem x =>
        -- a handle exists only for an element that was created
        if x < s.next then [({ cancelElem s x with lastRes := .done }, .ctl .ready rest)]
        else [({ s with lastRes := .done }, .ctl .ready rest)]
      | .cancelId i => if s.regLocked then [] else [(cancelId s i, .ctl .ready rest)]
      | .shutdown f =>
        match sd1 s f with
        | some s' => [(s', .ctl (.sd2 f.dontWait) rest)]
        | none =>
          if s.flags.panic then [({ s with lastRes := .panic }, .ctl .ready rest)]
          else [({ s with lastRes := .done }, .ctl (if f.dontWait then .ready else .sdWait) rest)]
      | .release tag => [({ s with released := tag :: s.released, lastRes := .done }, .ctl .ready rest)]
      | .arm tag => [({ s with armed := tag :: s.armed, lastRes := .done }, .ctl .ready rest)]

def step (s : Sh) : Th → List (Sh × Th)
  | .ctl pc script => ctlStep s pc script
  | .ticker => [({ s with clock := s.clock + 1 }, .ticker)]
  | t => workerStep s t

def sys : Hive.Conc.Sys Sh Th := { step := step }

/-- A thread that counts for the Executor's WaitGroup. -/
def Th.isWorker : Th → Bool
  | .ctl _ _ => false
  | .ticker => false
  | .exited => false
  | _ => true

/-- Initial threads: idle workers, controllers with arbitrary scripts, tickers. -/
def Th.isInitial : Th → Bool
  | .idle => true
  | .ctl .ready _ => true
  | .ticker => true
  | _ => false

/-- Initial configuration: empty queue with the given size bound, any threads. -/
def initCfg (maxSize : Nat) (ts : List Th) : Hive.Conc.Cfg Sh Th :=
  ({ maxSize := maxSize, wg := ts.countP Th.isWorker }, ts)

end Hive.Timed
