/-!
# Identity of Go error values, as far as `errors.Is` sees it (C19: "return the overflow (or division-by-zero) error")

An error value is modelled by its *chain*: the list of the package-level error variables (sentinels) that are
reachable from it through `Unwrap` — exactly what `errors.Is(err, Sentinel)` inspects.  Error *expressions* of the
source (`ierrors.WithMessagef(ErrIntegerOverflow, "%d + %d", x, y)`, `fmt.Errorf("%w: %s", err, …)`, …) are
rendered by the translator in postfix form as a list of `Tok`s and evaluated here on a stack of chains:

* `sentinel n`   the package-level variable `n` (its chain comes from its own definition, see `sentinelChains`)
* `param n`      a parameter of the enclosing function
* `fresh`        `errors.New` / `ierrors.New` / an `Errorf` without `%w`: a new identity that wraps nothing
* `errorf k`     `fmt.Errorf` / `ierrors.Errorf` with a literal format that has `k` verbs `%w`: wraps the `k` topmost entries
* `errorfDyn`    `Errorf` whose format is not a literal (the message part of the ierrors wrappers); treated as `fresh` —
                 sound for safemath, whose message arguments are integers, never errors (assumption, stated in the check)
* `join k`       `errors.Join` / `ierrors.Join` of the `k` topmost entries
* `call f`       a call of the ierrors wrapper `f` on the top entry (its first argument); evaluates only when `f` is among
                 the wrappers whose regenerated bodies have been verified (`wrapperOK`) to wrap exactly their first argument
* `opaque s`     anything else: identity unknown, evaluation fails

Core Lean only (linked into the driver).
-/
namespace Hive.SafeMathErr

inductive Tok
  | sentinel (name : String)
  | param (name : String)
  | fresh
  | errorf (nW : Nat)
  | errorfDyn
  | join (n : Nat)
  | call (fn : String)
  | opaque (src : String)
deriving Repr, DecidableEq

abbrev Chain := List String

structure Env where
  params : List (String × Chain) := []
  sentinels : List (String × Chain) := []
  wrappers : List String := []

def step (env : Env) (st : List Chain) : Tok → Option (List Chain)
  | .sentinel n => (env.sentinels.lookup n).map (· :: st)
  | .param n => (env.params.lookup n).map (· :: st)
  | .fresh => some ([] :: st)
  | .errorfDyn => some ([] :: st)
  | .errorf k => if k ≤ st.length then some ((st.take k).reverse.flatten :: st.drop k) else none
  | .join k => if k ≤ st.length then some ((st.take k).reverse.flatten :: st.drop k) else none
  | .call fn =>
    match st with
    | c :: rest => if env.wrappers.contains fn then some (c :: rest) else none
    | [] => none
  | .opaque _ => none

def run (env : Env) : List Tok → List Chain → Option (List Chain)
  | [], st => some st
  | t :: ts, st =>
    match step env st t with
    | some st' => run env ts st'
    | none => none

/-- The chain of an error expression, `none` when its identity cannot be determined. -/
def eval (env : Env) (toks : List Tok) : Option Chain :=
  match run env toks [] with
  | some [c] => some c
  | _ => none

/-- Chains of the package-level error variables, in source order (a definition may mention earlier variables).
A variable is reachable from itself; a definition that cannot be evaluated contributes the marker `"?"`. -/
def sentinelChains (defs : List (String × List Tok)) (wrappers : List String := []) : List (String × Chain) :=
  defs.foldl (fun acc d => acc ++ [(d.1, d.1 :: ((eval { sentinels := acc, wrappers := wrappers } d.2).getD ["?"]))]) []

/-- A wrapper `f(err, …)` is accepted when every one of its `return`s evaluates, with `err` bound to the marker
chain `["§"]` and every other parameter bound to the empty chain, to exactly `["§"]`: the result wraps the first
argument on every path and nothing else that has an identity. -/
def wrapperOK (first : String) (others : List String) (rets : List (List Tok)) : Bool :=
  !rets.isEmpty &&
    rets.all (fun toks => eval { params := (first, ["§"]) :: others.map (fun o => (o, [])) } toks == some ["§"])

structure Wrapper where
  name : String
  first : String
  others : List String
  rets : List (List Tok)
deriving Repr, DecidableEq

def okWrappers (ws : List Wrapper) : List String :=
  (ws.filter (fun w => wrapperOK w.first w.others w.rets)).map (·.name)

/-- What a caller that tests with `errors.Is` against the two sentinels observes (the same classification as
`res` in harness/c19/main.go). -/
def classify (c : Chain) : String :=
  let ov := c.contains "ErrIntegerOverflow"
  let dz := c.contains "ErrIntegerDivisionByZero"
  if c.contains "?" then "err-unknown" else if ov && dz then "err-both" else if ov then "overflow" else if dz then "divzero" else "err"

/-- One `return …, <error expression>` of a translated function: function, source line, the answer the translator
put into the generated definition (`overflow` / `divzero`), and the error expression. -/
structure Site where
  fn : String
  line : Nat
  res : String
  toks : List Tok
deriving Repr, DecidableEq

def siteClass (defs : List (String × List Tok)) (ws : List Wrapper) (s : Site) : Option String :=
  (eval { sentinels := sentinelChains defs (okWrappers ws), wrappers := okWrappers ws } s.toks).map classify

/-- Every error site is classified as the translator claimed. -/
def sitesOK (defs : List (String × List Tok)) (ws : List Wrapper) (sites : List Site) : Bool :=
  sites.all (fun s => siteClass defs ws s == some s.res)

end Hive.SafeMathErr
