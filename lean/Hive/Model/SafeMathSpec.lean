import Hive.Base.GoInt
/-!
# What property C19 demands of the safemath functions (specification, core Lean only)

Kept apart from the proofs so that the driver can evaluate the specification next to the definitions generated from
safe_math.go even when a proof about a changed tree no longer closes (`Hive/Model/SafeMathSearch.lean`).
-/
namespace Hive.GoInt
open IntTy

/-- The exact answer the property demands. -/
def exact (T : IntTy) (z : Int) : Res Int := if T.InRange z then .ok z else .overflow

/-- What the property demands of a division. -/
def exactDiv (T : IntTy) (x y : Int) : Res Int :=
  if y = 0 then .divzero else exact T (x.tdiv y)

/-- What the property demands of `Safe64MulDiv`. -/
def exactMulDiv (x y d : Int) : Res Int :=
  if d = 0 then .divzero else exact IntTy.u64 (x * y / d)

end Hive.GoInt
