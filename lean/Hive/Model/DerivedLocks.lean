import Hive.Conc.Sys
/-!
# Lock scripts of the derived reactive objects (C14 deadlock freedom)

Every API call that matters for C14 is reduced to the ordered list of lock acquisitions and
releases it performs, *composed across callbacks*: the writer of an input runs the derived object's
callback while it still holds the input's update-order mutex and the callback's execution lock, and
the callback takes the derived object's locks.  Lock classes carry a rank; all locks are treated as
exclusive (an `RLock` is an acquisition, which also turns a re-entrant read lock into a rank
violation).

Not part of the scripts (argued in design/C14.md): acquisitions that cannot block — `OnUpdate` taking
the execution lock of the callback it has just created while it still holds the value mutex under
which the callback became visible — and the internal leaf mutexes of `ds.List`, `ds.Set`,
`shrinkingmap`, which are released before anything else is acquired.
-/
namespace Hive.Derived
open Hive.Conc

inductive Cls
  | setUpd      -- writer mutex of the reactive set below a SortedSet / of the pending set of a WaitGroup
  | setExec     -- execution lock of the SortedSet's subscription on that set
  | inUpd       -- update-order mutex of an input variable (incl. weight variables) / writer mutex of a source set
  | inExec      -- execution lock of a derived object's callback on an input
  | sorted      -- sortedSet.mutex
  | evict       -- evictionState.mutex
  | derUpd      -- update-order / writer mutex of a derived object (derived variable, derived set, counter, heaviest/lightest, event)
  | derValue    -- value mutex of a derived object (held while `compute` reads the inputs)
  | derExec     -- execution lock of a user callback on a derived object
  | inValue     -- value mutex of an input
  | leaf        -- internal mutexes of `shrinkingmap`, `ds.Set`, `ds.List`, `SetArithmetic` (nothing is acquired under them)
deriving Repr, DecidableEq

def Cls.rank : Cls → Nat
  | .setUpd => 0 | .setExec => 1 | .inUpd => 2 | .inExec => 3 | .sorted => 4 | .evict => 5
  | .derUpd => 6 | .derValue => 7 | .derExec => 8 | .inValue => 9 | .leaf => 10

structure Lock where
  cls : Cls
  idx : Nat
deriving Repr, DecidableEq

inductive Act
  | acq (l : Lock)
  | rel (l : Lock)
deriving Repr, DecidableEq

structure LT where
  held : List Lock
  script : List Act
deriving Repr, DecidableEq

/-- Shared state: the list of locks currently held. -/
def lockStep (s : List Lock) (t : LT) : List (List Lock × LT) :=
  match t.script with
  | [] => []
  | .acq l :: rest => if s.contains l then [] else [(l :: s, { held := l :: t.held, script := rest })]
  | .rel l :: rest => [(s.erase l, { held := t.held.erase l, script := rest })]

def lockSys : Sys (List Lock) LT := { step := lockStep }

/-- The lock discipline of a script, given the locks already held: every acquisition is of a lock
ranked strictly above everything held, only held locks are released, nothing is held at the end. -/
def Ranked : List Lock → List Act → Prop
  | held, [] => held = []
  | held, .acq l :: rest => (∀ h ∈ held, h.cls.rank < l.cls.rank) ∧ Ranked (l :: held) rest
  | held, .rel l :: rest => l ∈ held ∧ Ranked (held.erase l) rest

instance : (held : List Lock) → (sc : List Act) → Decidable (Ranked held sc)
  | held, [] => inferInstanceAs (Decidable (held = []))
  | held, .acq l :: rest =>
    have := instDecidableRanked (l :: held) rest
    inferInstanceAs (Decidable ((∀ h ∈ held, h.cls.rank < l.cls.rank) ∧ Ranked (l :: held) rest))
  | held, .rel l :: rest =>
    have := instDecidableRanked (held.erase l) rest
    inferInstanceAs (Decidable (l ∈ held ∧ Ranked (held.erase l) rest))

/-! ## The scripts, read off the code -/

def L (c : Cls) (i : Nat) : Lock := ⟨c, i⟩

/-- `X.Lock(); …; X.Unlock()` with nothing acquired in between. -/
def brief (c : Cls) (i : Nat) : List Act := [.acq (L c i), .rel (L c i)]

/-- Trigger the user callbacks of derived object `d`: `LockExecution … UnlockExecution` each. -/
def userCallbacks (d : Nat) : List Act := brief .derExec d

/-- `d.Compute(…)` of a derived object from inside a callback on an input: update-order mutex, value
mutex held while the other inputs `js` are read (`Get()` = `RLock` of their value mutex), then the
user callbacks of `d`. -/
def derivedCompute (d : Nat) (js : List Nat) : List Act :=
  [.acq (L .derUpd d), .acq (L .derValue d)] ++ js.flatMap (brief .inValue) ++ [.rel (L .derValue d)]
    ++ userCallbacks d ++ [.rel (L .derUpd d)]

/-- `input_i.Set(v)` / `source_i.Apply(…)` / `Replace(…)` with a derived object `d` subscribed
(DerivedVariable, InheritFrom, DerivedSet, SubtractReactive, Counter). -/
def inputWrite (i d : Nat) (js : List Nat) : List Act :=
  [.acq (L .inUpd i)] ++ brief .inValue i ++ [.acq (L .inExec i)] ++ derivedCompute d js
    ++ [.rel (L .inExec i), .rel (L .inUpd i)]

/-- Subscribing `d` to input `i` (`OnUpdate` with initial delivery): registration under the value
mutex, then the callback under its execution lock. -/
def subscribe (i d : Nat) (js : List Nat) : List Act :=
  brief .inValue i ++ [.acq (L .inExec i)] ++ derivedCompute d js ++ [.rel (L .inExec i)]

/-- Unsubscribing (`MarkUnsubscribed` takes the execution lock), then the follow-up on the derived
object (`removeSourceElements` of a DerivedSet, the repaired Counter's withdrawal). -/
def unsubscribe (i d : Nat) : List Act :=
  brief .inExec i ++ derivedCompute d []

/-- `heaviestElement.Set` / `lightestElement.Set` under `sortedSet.mutex`. -/
def endsUpdate (s : Nat) : List Act := derivedCompute (2 * s) [] ++ derivedCompute (2 * s + 1) []

/-- `weightVariable(e).Set(w)` with `e` in SortedSet `s`: the weight callback locks `s.mutex`. -/
def weightWrite (s e : Nat) : List Act :=
  [.acq (L .inUpd e)] ++ brief .inValue e ++ [.acq (L .inExec e), .acq (L .sorted s)] ++ endsUpdate s
    ++ [.rel (L .sorted s), .rel (L .inExec e), .rel (L .inUpd e)]

/-- `sortedSet.Add(e)`: writer mutex of the set, the sorted set's subscription, `addSorted`
(`s.mutex`, registration on the weight variable, initial weight callback). -/
def sortedAdd (s e : Nat) : List Act :=
  [.acq (L .setUpd s)] ++ brief .inValue (1000 + s) ++ [.acq (L .setExec s), .acq (L .sorted s)] ++ brief .inValue e
    ++ endsUpdate s ++ [.rel (L .sorted s), .rel (L .setExec s), .rel (L .setUpd s)]

/-- `sortedSet.Delete(e)` as repaired: the weight subscription is cancelled after `s.mutex` is released. -/
def sortedDelete (s e : Nat) : List Act :=
  [.acq (L .setUpd s)] ++ brief .inValue (1000 + s) ++ [.acq (L .setExec s), .acq (L .sorted s)] ++ endsUpdate s
    ++ [.rel (L .sorted s)] ++ brief .inExec e ++ [.rel (L .setExec s), .rel (L .setUpd s)]

/-- `sortedSet.Delete(e)` as it was: `unsubscribeFromWeightUpdates()` under `s.mutex` (witness only). -/
def sortedDeleteOld (s e : Nat) : List Act :=
  [.acq (L .setUpd s)] ++ brief .inValue (1000 + s) ++ [.acq (L .setExec s), .acq (L .sorted s)] ++ brief .inExec e
    ++ endsUpdate s ++ [.rel (L .sorted s), .rel (L .setExec s), .rel (L .setUpd s)]

/-- `Ascending()/Descending()`. -/
def sortedRead (s : Nat) : List Act := brief .sorted s

/-- `WaitGroup.Add/Done`: the pending set's write (its subscribers are user callbacks), then possibly `Trigger`. -/
def waitGroupCall (w : Nat) : List Act :=
  [.acq (L .setUpd w)] ++ brief .inValue (1000 + w) ++ brief .setExec w ++ [.rel (L .setUpd w)] ++ derivedCompute w []

/-- `EvictionState.Evict`: collect under the mutex, trigger outside; `EvictionEvent`: read lock. -/
def evictCall (v : Nat) (events : List Nat) : List Act :=
  brief .evict v ++ events.flatMap (fun e => derivedCompute e [])

def evictEvent (v : Nat) : List Act := brief .evict v

/-- The catalogue: which calls a thread may make. -/
inductive Call
  | inputWrite (i d : Nat) (js : List Nat)
  | subscribe (i d : Nat) (js : List Nat)
  | unsubscribe (i d : Nat)
  | weightWrite (s e : Nat)
  | sortedAdd (s e : Nat)
  | sortedDelete (s e : Nat)
  | sortedRead (s : Nat)
  | waitGroupCall (w : Nat)
  | evictCall (v : Nat) (events : List Nat)
  | evictEvent (v : Nat)
deriving Repr

def Call.script : Call → List Act
  | .inputWrite i d js => Hive.Derived.inputWrite i d js
  | .subscribe i d js => Hive.Derived.subscribe i d js
  | .unsubscribe i d => Hive.Derived.unsubscribe i d
  | .weightWrite s e => Hive.Derived.weightWrite s e
  | .sortedAdd s e => Hive.Derived.sortedAdd s e
  | .sortedDelete s e => Hive.Derived.sortedDelete s e
  | .sortedRead s => Hive.Derived.sortedRead s
  | .waitGroupCall w => Hive.Derived.waitGroupCall w
  | .evictCall v es => Hive.Derived.evictCall v es
  | .evictEvent v => Hive.Derived.evictEvent v

/-- A goroutine making the given calls one after the other. -/
def threadOf (calls : List Call) : LT := { held := [], script := calls.flatMap Call.script }

/-- The schedule that drives `Delete(e)` (old) and a concurrent weight update of `e` into the
inversion: the deleter gets `s.mutex`, the weight writer gets the execution lock of `e`'s weight
subscription, then each waits for the other's lock. -/
def inversionThreads : List LT := [{ held := [], script := sortedDeleteOld 0 7 }, { held := [], script := weightWrite 0 7 }]
def inversionSched : List (Nat × Nat) :=
  [(0, 0), (0, 0), (0, 0), (0, 0), (0, 0), (1, 0), (1, 0), (1, 0), (1, 0)]

end Hive.Derived
