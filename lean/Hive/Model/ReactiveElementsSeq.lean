import Hive.Base.Proto
import Hive.Model.ReactiveInst
import Hive.Spec.ReactiveElements
/-!
# Sequential model of a reactive `Set[int]` with `WithElements` subscribers (`newsetx` cases of harness/c13)

Writers: `Add`, `Delete`, `Apply`, `Compute`, `Replace` (`setUpd` of the protocol model's Set instance).
Subscribers: `WithElements(setup, condition)`; the harness's `setup` returns a nil teardown function for
some elements (`hasTd`).  Every change runs the machine of `Hive/Spec/ReactiveElements.lean` over the live
subscribers in registration order (= callback-list order); the answer lists the `setup` / teardown calls
they make (within one note: setups, then teardowns, each group in ascending element order — the
iteration order of a `ds.Set` is not part of the model).
-/
namespace Hive.Reactive.SX
open Hive.Proto Hive.Reactive

/-- conditions used by the harness (0 = no condition argument) -/
def cond (c : Nat) (x : Nat) : Bool :=
  match c with
  | 1 => x % 2 == 1
  | 2 => decide (x < 3)
  | _ => true

/-- for which elements the harness's `setup` returns a teardown function -/
def hasTd (h : Nat) (x : Nat) : Bool :=
  match h with
  | 1 => x != 2
  | 2 => x % 2 == 0
  | _ => true

structure Sub where
  live : Bool
  c : Nat
  h : Nat
  act : List Nat

structure St where
  contents : List Nat := []
  subs : List Sub := []

def canon (l : List Nat) : List Nat := (List.range (l.foldl max 0 + 1)).filter (l.contains ·)

def showSet (l : List Nat) : String :=
  if l.isEmpty then "-" else ",".intercalate ((canon l).map toString)

def parseSet (s : String) : Option (List Nat) :=
  if s == "-" then some [] else (s.splitOn ",").mapM (·.toNat?)

def tok (i : Nat) : WeEv → String
  | .setup x => s!"w{i}+{x}"
  | .teardown x => s!"w{i}-{x}"

def deliver (m : Mut) : Nat → List Sub → List Sub × List String
  | _, [] => ([], [])
  | i, s :: r =>
    let t := deliver m (i + 1) r
    if s.live then
      let e := weStep (cond s.c) (hasTd s.h) s.act (canon m.1, canon m.2)
      ({ s with act := e.1 } :: t.1, e.2.map (tok i) ++ t.2)
    else (s :: t.1, t.2)

def answer (ret : String) (evs : List String) : String :=
  if evs.isEmpty then ret ++ " |" else ret ++ " | " ++ " ".intercalate evs

def write (st : St) (op : SetOp) : St × String :=
  match setUpd st.contents op with
  | .change s' m =>
    let d := deliver m 0 st.subs
    ({ contents := s', subs := d.1 }, answer (showSet m.1 ++ ":" ++ showSet m.2) d.2)
  | .quiet _ => (st, answer "-:-" [])

def stepLine (st : St) (toks : List String) : St × String :=
  match toks with
  | ["add", x] => match x.toNat? with
    | some x => write st (.apply ([x], []))
    | none => (st, "bad-op")
  | ["del", x] => match x.toNat? with
    | some x => write st (.apply ([], [x]))
    | none => (st, "bad-op")
  | ["apply", a, d] => match parseSet a, parseSet d with
    | some a, some d => write st (.apply (a, d))
    | _, _ => (st, "bad-op")
  | ["compute", a, d] => match parseSet a, parseSet d with
    | some a, some d => write st (.compute (fun _ => (a, d)))
    | _, _ => (st, "bad-op")
  | ["toggle", x] => match x.toNat? with
    | some x => write st (.compute (fun s => if s.contains x then ([], [x]) else ([x], [])))
    | none => (st, "bad-op")
  | ["replace", xs] => match parseSet xs with
    | some xs => write st (.replace xs)
    | none => (st, "bad-op")
  | ["withelements", c, h] => match c.toNat?, h.toNat? with
    | some c, some h =>
      -- the inner `OnUpdate(callback)` delivers the current elements as added iff there are any
      let i := st.subs.length
      match (setObj []).ini st.contents false with
      | some m =>
        let e := weStep (cond c) (hasTd h) [] (canon m.1, canon m.2)
        ({ st with subs := st.subs ++ [{ live := true, c := c, h := h, act := e.1 }] }, answer "ok" (e.2.map (tok i)))
      | none => ({ st with subs := st.subs ++ [{ live := true, c := c, h := h, act := [] }] }, answer "ok" [])
    | _, _ => (st, "bad-op")
  | ["unsub", i] => match i.toNat? with
    | some i =>
      match st.subs[i]? with
      | some s =>
        -- a second call finds nothing: the inner unsubscribe is idempotent and the map is empty
        let evs := if s.live then (weUnsub (canon s.act)).map (tok i) else []
        ({ st with subs := st.subs.modify i (fun s => { s with live := false, act := [] }) }, answer "ok" evs)
      | none => (st, "bad-op")
    | none => (st, "bad-op")
  | ["state"] =>
    (st, showSet st.contents ++ " |" ++ String.join (st.subs.map fun s => " " ++ (if s.live then showSet s.act else "x")))
  | _ => (st, "bad-op")

end Hive.Reactive.SX
