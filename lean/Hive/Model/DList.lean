import Hive.Base.Proto
import Hive.Spec.DList
/-!
# Pointer-level model of `ds.List` (ds/list_impl.go) for C10

A heap of nodes `{prev, next, owner(list), val}` indexed by `Nat` (`0` = Go's `nil`), two lists
(`false` = A with sentinel node 1, `true` = B with sentinel node 2) with their `len` fields, and an
allocation counter.  Every operation is written as the same sequence of pointer loads and stores as
`insert` / `remove` / `move` and their callers in the Go source, one `set…` per `Store`, reading from
the heap as it is at that point of the function.

Next to the heap the state carries two *ghost* fields that no operation ever reads: `seq l`, the
abstract element sequence of list `l`, updated in the branch that performs the splice, and `stale`,
the handles that were live in a list when `Init` was called on it.  The driver prints observations
from pointers and `len` only.

Both flavours (`list` and `threadSafeList`) run this code; the thread-safe one wraps each call in
one `RWMutex` (sequentially invisible — except `PushBackList(self)`, see design/C10.md).

Totalised corners (never reached from well-formed states, see `WF` in Hive/Proofs/DList.lean):
dereferencing `nil` reads node 0 instead of panicking.  `len` is an `Int` as in Go (a `Remove` with a
handle that was live before an `Init` makes it negative; the `i > 0` loops of the whole-list pushes then do not run).
Core Lean only.
-/
namespace Hive.DList

structure Node where
  prev : Nat := 0
  next : Nat := 0
  owner : Option Bool := none
  val : Nat := 0
deriving Repr, DecidableEq, Inhabited

abbrev Heap := Nat → Node

def setPrev (h : Heap) (i v : Nat) : Heap := fun j => if j = i then { h j with prev := v } else h j
def setNext (h : Heap) (i v : Nat) : Heap := fun j => if j = i then { h j with next := v } else h j
def setOwner (h : Heap) (i : Nat) (o : Option Bool) : Heap :=
  fun j => if j = i then { h j with owner := o } else h j

/-- `&l.root` -/
def root (l : Bool) : Nat := if l then 2 else 1

structure St where
  heap : Heap
  len : Bool → Int
  fresh : Nat
  seq : Bool → List Nat   -- ghost
  stale : List Nat        -- ghost

/-- Two lists fresh from `newList()` (which calls `Init`). -/
def init : St :=
  { heap := fun j => if j = 1 then { prev := 1, next := 1 } else if j = 2 then { prev := 2, next := 2 } else {},
    len := fun _ => 0, fresh := 3, seq := fun _ => [], stale := [] }

/-- `Init`: `root.next = &root; root.prev = &root; len = 0`.  Elements keep their `list` pointer. -/
def initL (s : St) (l : Bool) : St :=
  { s with heap := setPrev (setNext s.heap (root l) (root l)) (root l) (root l),
           len := upd s.len l 0,
           seq := upd s.seq l [],
           stale := s.seq l ++ s.stale }

/-- `lazyInit`: `if l.root.next == nil { l.Init() }` -/
def lazyInit (s : St) (l : Bool) : St :=
  if (s.heap (root l)).next = 0 then initL s l else s

/-- The four stores of `insert`/`move` that splice `e` in after `a`:
`e.prev = a; e.next = a.next; e.prev.next = e; e.next.prev = e`. -/
def link (h : Heap) (e a : Nat) : Heap :=
  let h1 := setPrev h e a
  let h2 := setNext h1 e (h1 a).next
  let h3 := setNext h2 (h2 e).prev e
  setPrev h3 (h3 e).next e

/-- The two stores of `remove`/`move` that take `e` out: `e.prev.next = e.next; e.next.prev = e.prev`. -/
def unlink (h : Heap) (e : Nat) : Heap :=
  let h1 := setNext h (h e).prev (h e).next
  setPrev h1 (h1 e).next (h1 e).prev

/-- `insert(e, at)`: splice, `e.list = l`, `l.len++`. -/
def insert (s : St) (l : Bool) (e a : Nat) : St :=
  { s with heap := setOwner (link s.heap e a) e (some l),
           len := upd s.len l (s.len l + 1),
           seq := upd s.seq l (insAfter a e (root l :: s.seq l)).tail }

/-- `new(listElement)` with the value stored. -/
def alloc (s : St) (v : Nat) : St :=
  { s with heap := fun j => if j = s.fresh then { val := v } else s.heap j, fresh := s.fresh + 1 }

/-- `insertValue(v, at)`; returns the new element. -/
def insertValue (s : St) (l : Bool) (v a : Nat) : St × Nat :=
  (insert (alloc s v) l s.fresh a, s.fresh)

/-- `remove(e)`: unsplice, clear `e.next`, `e.prev`, `e.list`, `l.len--`. -/
def remove (s : St) (l : Bool) (e : Nat) : St :=
  { s with heap := setOwner (setPrev (setNext (unlink s.heap e) e 0) e 0) e none,
           len := upd s.len l (s.len l - 1),
           seq := upd s.seq l ((s.seq l).erase e) }

/-- `move(e, at)`: `if e == at return`; unsplice; splice after `at`. -/
def move (s : St) (l : Bool) (e a : Nat) : St :=
  if e = a then s
  else { s with heap := link (unlink s.heap e) e a,
                seq := upd s.seq l (insAfter a e (root l :: (s.seq l).erase e)).tail }

/-- `e.list.Load() == l` -/
def owned (s : St) (e : Nat) (l : Bool) : Bool := (s.heap e).owner == some l

/-- `Front()`: `nil` if `len == 0`, else `root.next`. -/
def front (s : St) (l : Bool) : Nat := if s.len l = 0 then 0 else (s.heap (root l)).next

/-- `Back()` -/
def back (s : St) (l : Bool) : Nat := if s.len l = 0 then 0 else (s.heap (root l)).prev

/-- `listElement.Next()`: `next` unless the element has no list or `next` is its list's sentinel. -/
def nextOf (s : St) (e : Nat) : Nat :=
  match (s.heap e).owner with
  | none => 0
  | some l => if (s.heap e).next = root l then 0 else (s.heap e).next

/-- `listElement.Prev()` -/
def prevOf (s : St) (e : Nat) : Nat :=
  match (s.heap e).owner with
  | none => 0
  | some l => if (s.heap e).prev = root l then 0 else (s.heap e).prev

/-- Loop of `PushBackList`: `for i, e := other.Len(), other.Front(); i > 0; i, e = i-1, e.Next()`
with body `l.insertValue(e.value, l.root.prev)`. -/
def pblLoop (l : Bool) : Nat → Nat → St → St
  | 0, _, s => s
  | i + 1, e, s =>
    let s' := (insertValue s l (s.heap e).val (s.heap (root l)).prev).1
    pblLoop l i (nextOf s' e) s'

/-- Loop of `PushFrontList`: `for i, e := other.Len(), other.Back(); i > 0; i, e = i-1, e.Prev()`
with body `l.insertValue(e.value, &l.root)`. -/
def pflLoop (l : Bool) : Nat → Nat → St → St
  | 0, _, s => s
  | i + 1, e, s =>
    let s' := (insertValue s l (s.heap e).val (root l)).1
    pflLoop l i (prevOf s' e) s'

def handleOut (r : St × Nat) : St × Out := (r.1, .handle r.2)

def step (s : St) : Op → St × Out
  | .pushFront l v =>
    let s := lazyInit s l
    handleOut (insertValue s l v (root l))
  | .pushBack l v =>
    let s := lazyInit s l
    handleOut (insertValue s l v (s.heap (root l)).prev)
  | .remove l e =>
    let s' := if owned s e l then remove s l e else s
    (s', .value (s'.heap e).val)
  | .insertBefore l v m =>
    if owned s m l then handleOut (insertValue s l v (s.heap m).prev) else (s, .nil)
  | .insertAfter l v m =>
    if owned s m l then handleOut (insertValue s l v m) else (s, .nil)
  | .moveToFront l e =>
    (if !owned s e l || (s.heap (root l)).next == e then s else move s l e (root l), .ok)
  | .moveToBack l e =>
    (if !owned s e l || (s.heap (root l)).prev == e then s else move s l e (s.heap (root l)).prev, .ok)
  | .moveBefore l e m =>
    (if !owned s e l || e == m || !owned s m l then s else move s l e (s.heap m).prev, .ok)
  | .moveAfter l e m =>
    (if !owned s e l || e == m || !owned s m l then s else move s l e m, .ok)
  | .pushBackList l o =>
    let s := lazyInit s l
    (pblLoop l (s.len o).toNat (front s o) s, .ok)
  | .pushFrontList l o =>
    let s := lazyInit s l
    (pflLoop l (s.len o).toNat (back s o) s, .ok)
  | .init l => (initL s l, .ok)

def run (s : St) : List Op → St × List Out
  | [] => (s, [])
  | op :: ops =>
    let r := step s op
    let rs := run r.1 ops
    (rs.1, r.2 :: rs.2)

/-! ## Observations, computed from pointers and `len` only -/

/-- `listElement.Value()`: `value := l.value.Load(); if value == nil { return zero }; return *value` — only the
sentinels (reachable by a walk on a ring corrupted by a stale handle) have no value. -/
def valueOf (s : St) (e : Nat) : Nat := if e < 3 then 0 else (s.heap e).val

/-- `Range` / `ForEach` / `Values()`: `for e := l.Front(); e != nil; e = e.Next() { callback(e.Value()) }`
(fuel bounds the walk). -/
def walkF (s : St) : Nat → Nat → List Nat
  | 0, _ => []
  | f + 1, e => if e = 0 then [] else valueOf s e :: walkF s f (nextOf s e)

/-- `RangeReverse` / `ForEachReverse`: `for e := l.Back(); e != nil; e = e.Prev() { callback(e.Value()) }`. -/
def walkB (s : St) : Nat → Nat → List Nat
  | 0, _ => []
  | f + 1, e => if e = 0 then [] else valueOf s e :: walkB s f (prevOf s e)

/-- The element handles met by the forward walk. -/
def walkIds (s : St) : Nat → Nat → List Nat
  | 0, _ => []
  | f + 1, e => if e = 0 then [] else e :: walkIds s f (nextOf s e)

def values (s : St) (l : Bool) : List Nat := walkF s s.fresh (front s l)
def valuesRev (s : St) (l : Bool) : List Nat := walkB s s.fresh (back s l)

/-! ## line protocol -/
open Hive.Proto

def parseL : String → Option Bool
  | "A" => some false
  | "B" => some true
  | _ => none

def parseOp : List String → Option Op
  | ["pf", l, v] => do some (.pushFront (← parseL l) (← v.toNat?))
  | ["pb", l, v] => do some (.pushBack (← parseL l) (← v.toNat?))
  | ["rm", l, e] => do some (.remove (← parseL l) (← e.toNat?))
  | ["ib", l, v, m] => do some (.insertBefore (← parseL l) (← v.toNat?) (← m.toNat?))
  | ["ia", l, v, m] => do some (.insertAfter (← parseL l) (← v.toNat?) (← m.toNat?))
  | ["mf", l, e] => do some (.moveToFront (← parseL l) (← e.toNat?))
  | ["mb", l, e] => do some (.moveToBack (← parseL l) (← e.toNat?))
  | ["mvb", l, e, m] => do some (.moveBefore (← parseL l) (← e.toNat?) (← m.toNat?))
  | ["mva", l, e, m] => do some (.moveAfter (← parseL l) (← e.toNat?) (← m.toNat?))
  | ["pbl", l, o] => do some (.pushBackList (← parseL l) (← parseL o))
  | ["pfl", l, o] => do some (.pushFrontList (← parseL l) (← parseL o))
  | ["init", l] => do some (.init (← parseL l))
  | _ => none

/-- `-` = `nil`; `?` = a sentinel (reachable as a "handle" only on a ring corrupted by a stale handle; the
harness has no name for it). -/
def showId (i : Nat) : String := if i = 0 then "-" else if i < 3 then "?" else toString i

/-- The step bound of every traversal of the harness: `4·(elements ever created) + 8`. -/
def bound (s : St) : Nat := 4 * (s.fresh - 3) + 8

/-- A bounded walk as the harness prints it: `cycle` when more than `bound` elements were met (possible only on
a ring corrupted by a stale handle; on `WF` states the walk has at most `fresh` elements, `values_eq`). -/
def showWalk (s : St) (xs : List Nat) : String := if xs.length > bound s then "cycle" else showNatList xs

def showOut : Out → String
  | .handle e => s!"h {e}"
  | .nil => "nil"
  | .value v => s!"v {v}"
  | .ok => "ok"

def showList (s : St) (l : Bool) : String :=
  s!"{s.len l} f={showId (front s l)} b={showId (back s l)} {showWalk s (walkF s (bound s + 1) (front s l))} {showWalk s (walkB s (bound s + 1) (back s l))}"

/-- `ForEach` / `ForEachReverse` with a callback that returns an error at its `k`-th call (`k ≥ 1`): the values
the callback received and whether the traversal was aborted (the error is then returned). -/
def forEachAbort (xs : List Nat) (k : Nat) : List Nat × Bool :=
  if k ≠ 0 ∧ k ≤ xs.length then (xs.take k, true) else (xs, false)

def showAbort (r : List Nat × Bool) : String := (if r.2 then "err " else "ok ") ++ showNatList r.1

def showHandles (s : St) : String :=
  " ".intercalate ((List.range (s.fresh - 3)).map fun k =>
    let e := k + 3
    s!"{e}:{showId (prevOf s e)}:{showId (nextOf s e)}:{(s.heap e).val}")

def showObs (s : St) : String :=
  s!"A {showList s false} B {showList s true} H {showHandles s}"

/-- Driver plumbing: re-tabulate the function-valued fields so that look-ups stay O(1) instead of
walking a chain of closures.  Extensionally the identity on states whose heap is `default` from
`fresh` on (`compact_eq` in Hive/Proofs/DList.lean). -/
def compact (s : St) : St :=
  let arr := Array.ofFn (n := s.fresh) (fun i => s.heap i.val)
  let la := s.len false
  let lb := s.len true
  let sa := s.seq false
  let sb := s.seq true
  { s with heap := fun j => arr.getD j {},
           len := fun k => if k then lb else la,
           seq := fun k => if k then sb else sa }

def stepLine (s : St) (toks : List String) : St × String :=
  match toks with
  | ["obs"] => (s, showObs s)
  | ["fe", l, k] =>
    match parseL l, k.toNat? with
    | some l, some k => (s, showAbort (forEachAbort (walkF s (bound s + 1) (front s l)) k))
    | _, _ => (s, "bad-op")
  | ["fer", l, k] =>
    match parseL l, k.toNat? with
    | some l, some k => (s, showAbort (forEachAbort (walkB s (bound s + 1) (back s l)) k))
    | _, _ => (s, "bad-op")
  | _ =>
    match parseOp toks with
    | some op => let r := step s op; (compact r.1, showOut r.2)
    | none => (s, "bad-op")

end Hive.DList
