import Hive.Base.Proto
/-!
# Shared pieces of the C14 models (derived reactive values, ds/reactive)

Sets are modelled *pointwise*: a set is its membership function `Nat → Bool`, a batch of mutations is
a pair of membership functions (added, deleted).  This is faithful because every step of
`ds.Set.Apply`, `ds.SetArithmetic` and the reactive set handles one element at a time and the
treatment of an element never depends on another element (per-element map entries, per-element
occurrence counts, and the cancellation rule of `elementsCollector` only looks at the same element
in the opposing set).  The added / deleted collections are `ds.Set`s, so an element occurs in each
at most once.  Printing uses the bounded universe `0 … U-1`; the theorems do not.
-/
namespace Hive.Derived
open Hive.Proto

/-- elements printed by the line protocol -/
def U : Nat := 16

/-- Run-time memoisation of a function on the printed universe; logically the identity
(`memoGet_memoTable`).  Without it the pointwise state functions would be re-evaluated through the
whole history.  `memo! f` must be used as an expression inside a definition that does not itself
return a function (the compiler eta-expands those, which would rebuild the table on every call). -/
@[noinline] def memoTable {α : Type} (f : Nat → α) : Array α := (Array.range U).map f

@[noinline] def memoGet {α : Type} (arr : Array α) (f : Nat → α) (x : Nat) : α :=
  if h : x < arr.size then arr[x] else f x

@[simp] theorem memoGet_memoTable {α : Type} (f : Nat → α) (x : Nat) : memoGet (memoTable f) f x = f x := by
  unfold memoGet memoTable
  split
  · simp
  · rfl

macro "memo! " f:term:max : term => `(let t := memoTable $f; fun x => memoGet t $f x)

def showSet (m : Nat → Bool) : String := showNatList ((List.range U).filter m)

/-- Long listings (the size cases) are printed as length + order-sensitive hash; short ones in full. -/
def digestP : Nat := 2147483647

def showOrDigest (l : List Nat) : String :=
  if l.length ≤ 64 then showNatList l
  else s!"#{l.length}:{l.foldl (fun h x => (h * 1000003 + x % digestP) % digestP) 7}"

/-- A set within the printed universe is printed in full, any other as size + order-independent sums. -/
def showOrSums (l : List Nat) : String :=
  if l.all (· < U) then showSet (fun x => l.contains x)
  else
    let s1 := l.foldl (fun a x => (a + x % digestP) % digestP) 0
    let s2 := l.foldl (fun a x => (a + (x % digestP) * (x % digestP)) % digestP) 0
    s!"#{l.length}:{s1}:{s2}"

def parseNats (s : String) : Option (List Nat) :=
  if s == "-" then some [] else (s.splitOn ",").mapM (·.toNat?)

def parseInts (s : String) : Option (List Int) :=
  if s == "-" then some [] else (s.splitOn ",").mapM (·.toInt?)

/-- `ds.set.apply` (ds/set_impl.go) on one element: present bit `p`, the element is in the requested
added set (`a`) / deleted set (`d`).  Additions are processed before deletions.  Result: the new
present bit and whether the element is reported as added / as deleted. -/
def applyBit (p a d : Bool) : Bool × Bool × Bool :=
  let ra := a && !p
  let p1 := p || a
  let rd := d && p1
  (p1 && !d, ra, rd)

/-- `AddedElementsCollector` (threshold 1) on one element: increment the occurrence count; when it
reaches 1 either cancel a pending deletion in the result or record an addition. -/
def collectUp (c : Int) (rA rD : Bool) : Int × Bool × Bool :=
  if c + 1 == 1 then (if rD then (c + 1, rA, false) else (c + 1, true, rD)) else (c + 1, rA, rD)

/-- `SubtractedElementsCollector` (threshold 1): decrement; when the count reaches 0 either cancel a
pending addition in the result or record a deletion. -/
def collectDown (c : Int) (rA rD : Bool) : Int × Bool × Bool :=
  if c - 1 == 0 then (if rA then (c - 1, false, rD) else (c - 1, rA, true)) else (c - 1, rA, rD)

/-- `SetArithmetic.Add(mutations)` followed by `value.Apply(result)` on one element
(`derivedSet.applyInheritedMutations`, and the source callback of `SubtractReactive`):
`ma`/`md` say whether the element is in the added / deleted part of the incoming mutations. -/
def inheritBit (c : Int) (v : Bool) (ma md : Bool) : Int × Bool :=
  let r1 := if ma then collectUp c false false else (c, false, false)
  let r2 := if md then collectDown r1.1 r1.2.1 r1.2.2 else r1
  (r2.1, (applyBit v r2.2.1 r2.2.2).1)

/-- `SetArithmetic.Subtract(mutations)` followed by `value.Apply(result)` on one element (callback
of the subtracted sets of `SubtractReactive`): added elements count down, deleted ones count up. -/
def subtractBit (c : Int) (v : Bool) (ma md : Bool) : Int × Bool :=
  let r1 := if ma then collectDown c false false else (c, false, false)
  let r2 := if md then collectUp r1.1 r1.2.1 r1.2.2 else r1
  (r2.1, (applyBit v r2.2.1 r2.2.2).1)

/-- A write to one reactive set of the pool. `Add x` is `apply [x] []`, `Delete x` is `apply [] [x]`. -/
inductive SrcOp
  | apply (adds dels : List Nat)
  | replace (xs : List Nat)
deriving Repr

/-- New membership of the written set. -/
def SrcOp.newMem (m : Nat → Bool) : SrcOp → Nat → Bool
  | .apply A D => fun x => (applyBit (m x) (A.contains x) (D.contains x)).1
  | .replace X => fun x => X.contains x

/-- Elements reported as added to the subscribers (reactive `set.Apply` / repaired `set.Replace`:
the true difference). -/
def SrcOp.repAdded (m : Nat → Bool) : SrcOp → Nat → Bool
  | .apply A D => fun x => (applyBit (m x) (A.contains x) (D.contains x)).2.1
  | .replace X => fun x => X.contains x && !m x

def SrcOp.repDeleted (m : Nat → Bool) : SrcOp → Nat → Bool
  | .apply A D => fun x => (applyBit (m x) (A.contains x) (D.contains x)).2.2
  | .replace X => fun x => m x && !X.contains x

/-- What the unrepaired reactive `set.Replace` reported: every new element as added and every old
element as deleted (used only by the `_witness` theorems). -/
def oldReplaceAdded (X : List Nat) : Nat → Bool := fun x => X.contains x
def oldReplaceDeleted (m : Nat → Bool) : Nat → Bool := m

def parseSrcOp : List String → Option (Nat × SrcOp)
  | ["add", i, x] => do pure (← i.toNat?, .apply [← x.toNat?] [])
  | ["del", i, x] => do pure (← i.toNat?, .apply [] [← x.toNat?])
  | ["apply", i, a, d] => do pure (← i.toNat?, .apply (← parseNats a) (← parseNats d))
  | ["replace", i, xs] => do pure (← i.toNat?, .replace (← parseNats xs))
  | _ => none

/-- Writes whose argument is another set of the pool (or the written set itself): `Replace(other)`,
`AddAll(other)`, `DeleteAll(other)`.  The code takes a private snapshot of the argument first, so the op is the
plain one on the argument's current listing; `replacemut i j x` is `Replace` with a view of `j` that is written
(`x` added to `j`) right after it has been read — the snapshot must not notice. -/
def parseAliasOp (mem : Nat → Nat → Bool) : List String → Option (List (Nat × SrcOp))
  | ["replaceset", i, j] => do
      let j ← j.toNat?
      pure [(← i.toNat?, .replace ((List.range U).filter (mem j)))]
  | ["replaceset", i, j, "ro"] => do
      let j ← j.toNat?
      pure [(← i.toNat?, .replace ((List.range U).filter (mem j)))]
  | ["addall", i, j] => do
      let j ← j.toNat?
      pure [(← i.toNat?, .apply ((List.range U).filter (mem j)) [])]
  | ["delall", i, j] => do
      let j ← j.toNat?
      pure [(← i.toNat?, .apply [] ((List.range U).filter (mem j)))]
  | ["replacemut", i, j, x] => do
      let j ← j.toNat?
      pure [(← i.toNat?, .replace ((List.range U).filter (mem j))), (j, .apply [← x.toNat?] [])]
  | _ => none

def setAt {α : Type} (f : Nat → α) (i : Nat) (v : α) : Nat → α := fun j => if j == i then v else f j

end Hive.Derived
