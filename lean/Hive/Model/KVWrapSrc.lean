import Hive.Model.KVTrace
/-!
# The wrapper methods as translated source, and what a translated body does (C04)

`harness/c04/wgen` (go/ast) translates the body of every method of `flushkv.go` and `debug.go` into a `List WStmt`
(`Hive/Gen/C04_Wrap.lean`, regenerated from the working tree on every run of the check).  `wexec` interprets such a body
for ONE wrapper layer `cfg` over the layers `ws` below it, whose behaviour is given by `sem` — the hand-written trace model
of `Hive/Model/KVTrace.lean` (`trFwd`, `trMut`).  `Hive/Props/C04.lean` proves, for every method of both wrappers and
every configuration of `debug.New` (any filter, nil callback), that interpreting the *generated* body over `sem … ws`
gives `sem … (cfg :: ws)`: the trace model of a stack is, layer by layer, the interpretation of the source.
Core Lean only.
-/
namespace Hive.KV.WrapSrc

inductive WStmt
  /-- `if R.accessCallback != nil && R.accessCallbackCommandsFilter.HasBits(C) { R.accessCallback(C, args…) }` -/
  | guardCb (recv cmd : String) (args : List String)
  /-- `[x, ]err := R.M(args); if err != nil { return [nil, ]err }` -/
  | tryCall (bind recv meth : String) (args : List String)
  /-- `return R.M(args)` -/
  | retCall (recv meth : String) (args : List String)
  /-- `R.M(args)` (no result) -/
  | call (recv meth : String) (args : List String)
  /-- `return flushAfterMutation(X)` -/
  | retFlushAfter (store : String)
  /-- `return s.WithRealm(byteutils.ConcatBytes(s.Realm(), $0))` -/
  | retExtend
  /-- `return &T{f: e, …}, nil` -/
  | retNew (typ : String) (fields : List (String × String))
  | other (src : String)
deriving DecidableEq, Repr

/-- The command constants of `debug.go` by name. -/
def cmdOfName (n : String) : Option Cmd :=
  if n == "IterateCommand" then some .iterate else if n == "IterateKeysCommand" then some .iterateKeys
  else if n == "ClearCommand" then some .clear else if n == "GetCommand" then some .get
  else if n == "SetCommand" then some .set else if n == "HasCommand" then some .has
  else if n == "DeleteCommand" then some .delete else if n == "DeletePrefixCommand" then some .deletePrefix else none

/-- A rendered argument: `$i` is the `i`-th parameter; only byte-string parameters have a value here (consumer
functions and direction lists are passed on as they are, see `argsOK`). -/
def evalArg (argv : List Bytes) (a : String) : Bytes :=
  if a == "$0" then argv.getD 0 [] else if a == "$1" then argv.getD 1 [] else []

/-- The context of a method body: byte-string arguments, the direction arguments of an iteration, the realm of the view,
whether the store below accepts a mutation (`ok`: it is open) and whether a `Flush` reaching it fails (`fe`). -/
structure Ctx where
  argv : List Bytes
  dirs : List Nat
  realm : Bytes
  ok : Bool
  fe : Bool

/-- What method `meth` of a store (`batch = false`) / a batch object (`batch = true`) wrapped by `ws` does when it is called
with the byte-string arguments `a`: the trace, and whether it returns without error. -/
def sem (c : Ctx) (batch : Bool) (ws : List TWrap) (meth : String) (a : List Bytes) : List Ev × Bool :=
  let a0 := a.getD 0 []
  let a1 := a.getD 1 []
  if batch then
    if meth == "Set" then (trFwd (some (.set, [a0, a1])) (.bSet a0 a1) ws, true)
    else if meth == "Delete" then (trFwd (some (.delete, [a0])) (.bDelete a0) ws, true)
    else if meth == "Cancel" then (trFwd none .bCancel ws, true)
    else if meth == "Commit" then trMut c.fe none .bCommit c.ok ws
    else ([], false)
  else
    if meth == "Set" then trMut c.fe (some (.set, [a0, a1])) (.set a0 a1) c.ok ws
    else if meth == "Delete" then trMut c.fe (some (.delete, [a0])) (.delete a0) c.ok ws
    else if meth == "DeletePrefix" then trMut c.fe (some (.deletePrefix, [a0])) (.deletePrefix a0) c.ok ws
    else if meth == "Clear" then trMut c.fe (some (.clear, [])) .clear c.ok ws
    else if meth == "Get" then (trFwd (some (.get, [a0])) (.get a0) ws, c.ok)
    else if meth == "Has" then (trFwd (some (.has, [a0])) (.has a0) ws, c.ok)
    else if meth == "Iterate" then (trFwd (some (.iterate, [a0])) (.iterate a0 c.dirs) ws, c.ok)
    else if meth == "IterateKeys" then (trFwd (some (.iterateKeys, [a0])) (.iterateKeys a0 c.dirs) ws, c.ok)
    else if meth == "Flush" then (trFwd none .flush ws, c.ok && !c.fe)
    else if meth == "Close" then (trFwd none .close ws, true)
    else if meth == "Realm" then (trFwd none .realm ws, true)
    else if meth == "WithRealm" then (trFwd none (.withRealm a0) ws, c.ok)
    else if meth == "Batched" then (trFwd none .batched ws, c.ok)
    else ([], false)

/-- The receivers a wrapper method may call: the wrapped store (`s.store`, `s.underlying`, `b.store`) or the wrapped
batch (`b.batched`, `b.underlying`). -/
def recvKind (r : String) : Option Bool :=
  if r == "s.store" || r == "s.underlying" || r == "b.store" then some false
  else if r == "b.batched" || r == "b.underlying" then some true else none

/-- All parameters are passed on in order (`$0`, `$1`, `$2...`), none dropped, none swapped, none replaced. -/
def argsOK (args : List String) : Bool :=
  args == [] || args == ["$0"] || args == ["$0", "$1"] || args == ["$0", "$1", "$2..."]

/-- The configuration of the wrapper object a composite literal creates: the one of the creating layer iff the literal
wraps the object just obtained from the wrapped store (`bind`) and, for `debug`, inherits callback and filter. -/
def newCfg (cfg : TWrap) (recv bind typ : String) (fields : List (String × String)) : Option TWrap :=
  match cfg with
  | .flush =>
    if (typ == "flushKVStore" && fields == [("store", bind)]) ||
       (typ == "batchedMutations" && fields == [("store", recv ++ ".store"), ("batched", bind)]) then some cfg else none
  | .debug _ _ =>
    if (typ == "debugStore" || typ == "batchedMutations") &&
       fields == [("underlying", bind), ("accessCallback", recv ++ ".accessCallback"),
         ("accessCallbackCommandsFilter", recv ++ ".accessCallbackCommandsFilter")] then some cfg else none

structure Res where
  trace : List Ev
  ok : Bool                    -- the method returns without error
  created : Option TWrap       -- the configuration of the wrapper object it returns, if it returns one
deriving DecidableEq, Repr

/-- One call of the wrapped object. -/
def under (c : Ctx) (ws : List TWrap) (recv meth : String) (args : List String) : List Ev × Bool :=
  match recvKind recv with
  | some batch => if argsOK args then sem c batch ws meth (args.map (evalArg c.argv)) else ([], false)
  | none => ([], false)

/-- The body of a method of wrapper layer `cfg` (receiver variable `self`) over the layers `ws`. -/
def wexec (c : Ctx) (cfg : TWrap) (self : String) (ws : List TWrap) : List WStmt → List Ev → String → Res
  | [], tr, _ => ⟨tr, true, none⟩
  | .guardCb recv cmd args :: rest, tr, bind =>
    match cfg, cmdOfName cmd with
    | .debug f cb, some cm =>
      if recv == self then wexec c cfg self ws rest (tr ++ dbgCb f cb cm (args.map (evalArg c.argv))) bind
      else ⟨tr, false, none⟩
    | _, _ => ⟨tr, false, none⟩
  | .tryCall b recv meth args :: rest, tr, _ =>
    let r := under c ws recv meth args
    if r.2 then wexec c cfg self ws rest (tr ++ r.1) b else ⟨tr ++ r.1, false, none⟩
  | .retCall recv meth args :: _, tr, _ => let r := under c ws recv meth args; ⟨tr ++ r.1, r.2, none⟩
  | .call recv meth args :: rest, tr, bind => wexec c cfg self ws rest (tr ++ (under c ws recv meth args).1) bind
  | .retFlushAfter st :: _, tr, _ =>
    -- flushAfterMutation: `store.Flush()`; ErrStoreClosed is not an error of the mutation, every other error is returned
    if recvKind st == some false then ⟨tr ++ trFwd none .flush ws, !c.fe, none⟩ else ⟨tr, false, none⟩
  | .retExtend :: _, tr, _ =>
    -- s.WithRealm(byteutils.ConcatBytes(s.Realm(), $0)): the argument first, both through this very layer
    let r1 := sem c false (cfg :: ws) "Realm" []
    let r2 := sem c false (cfg :: ws) "WithRealm" [c.realm ++ c.argv.getD 0 []]
    ⟨tr ++ r1.1 ++ r2.1, r2.2, if r2.2 then some cfg else none⟩
  | .retNew typ fields :: _, tr, bind => ⟨tr, true, newCfg cfg self bind typ fields⟩
  | .other _ :: _, tr, _ => ⟨tr, false, none⟩

/-- Running the body of a method. -/
def runBody (c : Ctx) (cfg : TWrap) (self : String) (ws : List TWrap) (body : List WStmt) : Res := wexec c cfg self ws body [] ""

end Hive.KV.WrapSrc
