import Hive.Model.SyncMutex
import Hive.Model.SyncMutexDag
import Hive.Model.SyncMutexWait
import Hive.Model.SyncMutexWaitV
import Hive.Model.SyncMutexComp
import Hive.Base.Proto
import Std.Data.HashSet
/-!
# C17 driver: the models as executable oracles for traces recorded from the implementation

* `sm N` / `a T op obs…` — scripted arrival orders on one `StarvingMutex`: after every arrival the harness
  waits for quiescence and reports which goroutines are blocked and the mutex counters; the driver keeps
  the set of quiescent configurations of the monitor protocol (`Hive.SyncMutex.sys`, explored over **all**
  interleavings and all choices of `Signal`) that agree with everything observed so far and answers `ok`
  while that set is non-empty.
* `dag N E` / `d T op obs…` — the same for `DAGMutex` against `Hive.SyncMutex.Dag.sys` (abstract per-entity
  locks); `dagc N E` selects `Hive.SyncMutex.Comp.sys` instead, the registry composed of StarvingMutex monitors
  (all micro-step interleavings).
* `wm N v kind` / `w T op | obs…` — the same for the Counter/Stack monitor against `Hive.SyncMutex.Wait.sys`;
  `wg A B | obs…` is the arrival of `SignalShutdown` (B) while `PopOrWait` (A) is inside its wait-condition
  callback; `wq T m U thr | obs…` is `Push`×m immediately followed by `WaitIsEmpty` by T, racing with
  `WaitSizeIsBelow(thr)` by U and with the consumers parked in `PopOrWait`.
* `tr ev…` — exclusion predicate (`Excl`, the one `C17_exclusion`/`C17_dag_exclusion` are about) evaluated
  on a grant/release trace recorded under stress.
* `seq sm|dag op…` — one goroutine, sequential calls: `ok`/`panic` per call (unlock-of-unheld matrix).
* `wt v ev…` — wait traces: a returned wait saw its condition (`¬ mustWait`) at some value between call
  and return; a wait that has not returned at quiescence has `mustWait` for the final value.
-/
namespace Hive.SyncMutex.Exec
open Hive.Conc Hive.Proto

section explore
variable {σ τ κ : Type}

def succsAux (S : Sys σ τ) (s : σ) : List τ → List τ → List (Cfg σ τ)
  | _, [] => []
  | pre, t :: post =>
    (S.step s t).map (fun p => (p.1, pre.reverse ++ p.2 :: post)) ++ succsAux S s (t :: pre) post

def succs (S : Sys σ τ) (c : Cfg σ τ) : List (Cfg σ τ) := succsAux S c.1 [] c.2

/-- Depth-first exploration of every interleaving; collects the configurations without successor.
The Boolean is false when the fuel ran out. -/
def explore (S : Sys σ τ) (key : Cfg σ τ → κ) [BEq κ] [Hashable κ] :
    Nat → List (Cfg σ τ) → Std.HashSet κ → List (Cfg σ τ) → List (Cfg σ τ) × Bool
  | 0, work, _, acc => (acc, work.isEmpty)
  | _ + 1, [], _, acc => (acc, true)
  | fuel + 1, c :: work, seen, acc =>
    if seen.contains (key c) then explore S key fuel work seen acc
    else
      let ss := succs S c
      if ss.isEmpty then explore S key fuel work (seen.insert (key c)) (c :: acc)
      else explore S key fuel (ss ++ work) (seen.insert (key c)) acc

def quiescentFrom (S : Sys σ τ) (key : Cfg σ τ → κ) [BEq κ] [Hashable κ] (starts : List (Cfg σ τ)) :
    List (Cfg σ τ) × Bool :=
  explore S key 200000 starts {} []

end explore

/-! ## StarvingMutex arrivals -/

def smStatus (t : Th) : Char :=
  match t.v.pc with
  | .idle => 'i'
  | .rlP | .lkP => 'b'
  | .dead => 'd'
  | _ => '?'

def smObs (c : Cfg Mx Th) : String :=
  String.ofList (c.2.map smStatus) ++ " " ++ (if c.1.writer then "1" else "0") ++ " " ++ toString c.1.readers ++ " "
    ++ toString c.1.pending

def parseOp : String → Option Op
  | "lock" => some .lock
  | "unlock" => some .unlock
  | "rlock" => some .rlock
  | "runlock" => some .runlock
  | _ => none

/-- Thread `i` calls `op`; only possible when it is between calls. -/
def smArrive (c : Cfg Mx Th) (i : Nat) (op : Op) : Option (Cfg Mx Th) :=
  match c.2[i]? with
  | some t => if t.v.pc = .idle ∧ t.script = [] then some (c.1, c.2.set i { t with script := [op] }) else none
  | none => none

/-! ## DAGMutex arrivals -/

def dagKey (nEnt : Nat) (c : Cfg Dag.DSh Dag.DTh) : List Dag.Ent × List Dag.DTh :=
  ((List.range nEnt).map c.1, c.2)

def dagStatus (t : Dag.DTh) : Char :=
  match t.pc with
  | .idle => 'i'
  | .acqW _ | .acqR _ => 'b'
  | .dead => 'd'

def joinNat (l : List Nat) : String := ",".intercalate (l.map toString)

def bits (l : List Bool) : String := String.ofList (l.map (fun b => if b then '1' else '0'))

/-- statuses, consumer counts, and which entities have a mutex in the registry -/
def dagObs (nEnt : Nat) (c : Cfg Dag.DSh Dag.DTh) : String :=
  String.ofList (c.2.map dagStatus) ++ " " ++ joinNat ((List.range nEnt).map (fun x => (c.1 x).cnt)) ++ " "
    ++ bits ((List.range nEnt).map (fun x => decide (0 < (c.1 x).cnt)))

def parseNats (s : String) : Option (List Nat) :=
  if s == "-" then some [] else (s.splitOn ",").mapM (·.toNat?)

def parseDOp : String → String → Option Dag.DOp
  | "lock", a => a.toNat?.map .lock
  | "unlock", a => a.toNat?.map .unlock
  | "rlock", a => (parseNats a).map .rlock
  | "runlock", a => (parseNats a).map .runlock
  | _, _ => none

def dagArrive (c : Cfg Dag.DSh Dag.DTh) (i : Nat) (op : Dag.DOp) : Option (Cfg Dag.DSh Dag.DTh) :=
  match c.2[i]? with
  | some t => if t.pc = .idle ∧ t.script = [] then some (c.1, c.2.set i { t with script := [op] }) else none
  | none => none

/-! ## DAGMutex arrivals against the composed model -/

def compKey (nEnt : Nat) (c : Cfg Comp.CSh Comp.CTh) :=
  let objs := List.range c.1.next
  let ents := List.range nEnt
  ((ents.map c.1.ent, ents.map c.1.cnt, c.1.next, c.1.dm, objs.map c.1.heap),
    c.2.map fun t => ((t.ctl, t.iop, t.curEnt, t.cur, t.ipc), (objs.map t.rd, objs.map t.wr, t.held, ents.map t.hobj, t.script)))

def compStatus (t : Comp.CTh) : Char :=
  match t.ctl with
  | .idle => 'i'
  | .dead => 'd'
  | .inner _ => if t.ipc = .dead then 'd' else if t.ipc = .rlP ∨ t.ipc = .lkP then 'b' else '?'
  | _ => '?'

def compObs (nEnt : Nat) (c : Cfg Comp.CSh Comp.CTh) : String :=
  String.ofList (c.2.map compStatus) ++ " " ++ joinNat ((List.range nEnt).map c.1.cnt) ++ " "
    ++ bits ((List.range nEnt).map (fun x => (c.1.ent x).isSome))

def compArrive (c : Cfg Comp.CSh Comp.CTh) (i : Nat) (op : Dag.DOp) : Option (Cfg Comp.CSh Comp.CTh) :=
  match c.2[i]? with
  | some t => if t.ctl = .idle ∧ t.script = [] then some (c.1, c.2.set i { t with script := [op] }) else none
  | none => none

/-! ## Counter/Stack monitor arrivals (data model `WaitV.sys` = the wait monitor + stack contents, return values,
subscriber notifications) -/

abbrev WCfg := Cfg WaitV.MonV WaitV.WThV

def wStatus (t : WaitV.WThV) : Char :=
  match t.base.pc with
  | .idle => 'i'
  | .parkI _ _ | .parkD _ _ => 'b'
  | _ => '?'

def showRes (l : List Bool) : String :=
  if l.isEmpty then "-" else String.ofList (l.reverse.map (fun b => if b then '1' else '0'))

def showList {α : Type} (f : α → String) (l : List α) : String :=
  if l.isEmpty then "-" else ",".intercalate (l.reverse.map f)

/-- statuses, value, per goroutine the pop results and the answers its `waitCondition` callback gave; then for a
Stack the elements each goroutine took (in order), for a Counter the return values of each goroutine's `Set`/`Update`
calls and the notifications the subscriber received (in order) -/
def wObs (stack : Bool) (c : WCfg) : String :=
  String.ofList (c.2.map wStatus) ++ " " ++ toString c.1.base.value ++ " " ++ " ".intercalate (c.2.map (fun t => showRes t.base.res))
    ++ " " ++ " ".intercalate (c.2.map (fun t => showRes t.base.cb)) ++ " | " ++
    (if stack then " ".intercalate (c.2.map (fun t => showList toString t.vals))
     else " ".intercalate (c.2.map (fun t => showList toString t.rets)) ++ " | "
       ++ showList (fun (p : Int × Int) => toString p.1 ++ ">" ++ toString p.2) c.1.log)

def splitToks (sep : String) : List String → List (List String)
  | [] => [[]]
  | t :: r =>
    if t == sep then [] :: splitToks sep r
    else match splitToks sep r with
      | g :: gs => (t :: g) :: gs
      | [] => [[t]]

def parseWOp : List String → Option Wait.WOp
  | ["add", d] => d.toInt?.map .add
  | ["set", v] => v.toInt?.map .set
  | ["trypop"] => some .tryPop
  | ["below", t] => t.toInt?.map .waitBelow
  | ["above", t] => t.toInt?.map .waitAbove
  | ["poporwait"] => some .popOrWait
  | ["shutdown"] => some .shutdown
  | _ => none

/-- goroutine `i`, between calls, is given several calls to execute back to back -/
def wArriveS (c : WCfg) (i : Nat) (ops : List Wait.WOp) : Option WCfg :=
  match c.2[i]? with
  | some t =>
    if t.base.pc = .idle ∧ t.base.script = [] then some (c.1, c.2.set i { t with base := { t.base with script := ops } })
    else none
  | none => none

def wArrive (c : WCfg) (i : Nat) (op : Wait.WOp) : Option WCfg := wArriveS c i [op]

/-- first successor of goroutine `i` whose new state satisfies `pick` -/
def stepThread (c : WCfg) (i : Nat) (pick : Wait.WTh → Bool) : Option WCfg :=
  match c.2[i]? with
  | none => none
  | some t =>
    match (WaitV.step c.1 t).find? (fun p => pick p.2.base) with
    | some p => some (p.1, c.2.set i p.2)
    | none => none

/-- The shutdown-in-the-callback scenario: goroutine `a` calls `PopOrWait` on an empty stack and is inside its
`waitCondition` callback (which will answer true) — still holding the lock, program point `critW` — when
goroutine `b` calls `SignalShutdown`. -/
def wGapStart (c : WCfg) (a b : Nat) : Option WCfg := do
  let c1 ← wArrive c a .popOrWait
  let c2 ← stepThread c1 a (fun _ => true)                 -- the call starts
  let c3 ← stepThread c2 a (fun _ => true)                 -- takes the lock
  let c4 ← stepThread c3 a (fun t => t.pc == .critW)       -- empty stack, the callback says "wait"
  wArrive c4 b .shutdown

/-- The push-then-wait family: goroutine `t` does `Push` × m immediately followed by `WaitIsEmpty`, while (optionally)
goroutine `u` calls `WaitSizeIsBelow(thr)`; consumers parked in `PopOrWait` race with both. -/
def wPushWaitStart (c : WCfg) (t m : Nat) (u : Option (Nat × Int)) : Option WCfg := do
  let c1 ← wArriveS c t (List.replicate m (.add 1) ++ [.waitBelow 1])
  match u with
  | none => pure c1
  | some (u, thr) => wArriveS c1 u [.waitBelow thr]

/-- The exploration key.  Generations are unbounded counters that do not matter for equality of futures once nobody
is parked with an old one; keeping them in the key is sound (only less sharing).  The ghosts `popped` and `log` do not
influence any transition; `log` and `rets` are observed for a Counter only, `popped` never (the observation has the elements per
goroutine): configurations that differ only there have the same observable futures and are explored once. -/
def wKey (stack : Bool) (c : WCfg) : WCfg :=
  ({ c.1 with popped := [], log := if stack then [] else c.1.log },
   if stack then c.2.map (fun t => { t with rets := [] }) else c.2)

/-! ## Exclusion on a grant/release trace -/

/-- `+w3` grant of the write lock of entity 3 (logged after `Lock` returned), `-w3` logged just before the
holder calls `Unlock`; `+r3`/`-r3` likewise for read locks. -/
structure Ev where
  grant : Bool
  mode : Dag.Mode
  ent : Nat
  deriving DecidableEq, Repr

def parseEv (s : String) : Option Ev :=
  match s.toList with
  | g :: m :: rest =>
    let grant? := if g = '+' then some true else if g = '-' then some false else none
    let mode? := if m = 'w' then some Dag.Mode.w else if m = 'r' then some Dag.Mode.r else none
    match grant?, mode?, (String.ofList rest).toNat? with
    | some g, some m, some x => some ⟨g, m, x⟩
    | _, _, _ => none
  | _ => none

/-- Holder counts per entity: (writers, readers). -/
abbrev Holders := Nat → Nat × Nat

def applyEv (h : Holders) (e : Ev) : Option Holders :=
  let (nw, nr) := h e.ent
  match e.grant, e.mode with
  | true, .w => some (Dag.upd h e.ent (nw + 1, nr))
  | true, .r => some (Dag.upd h e.ent (nw, nr + 1))
  | false, .w => if nw = 0 then none else some (Dag.upd h e.ent (nw - 1, nr))
  | false, .r => if nr = 0 then none else some (Dag.upd h e.ent (nw, nr - 1))

/-- The trace predicate: after every event the holder counts of the touched entity satisfy `Excl`, and
nothing is released that is not held.  Answers the index of the first offending event. -/
def exclTrace : Holders → Nat → List Ev → Option Nat
  | _, _, [] => none
  | h, i, e :: es =>
    match applyEv h e with
    | none => some i
    | some h' =>
      let (nw, nr) := h' e.ent
      if decide (Excl nw nr) then exclTrace h' (i + 1) es else some i

/-! ## Wait traces -/

inductive WEv
  | val (v : Int)                      -- the value became v (logged inside the lock / by the only mutator)
  | call (id : Nat) (op : Wait.WOp)    -- logged before the call
  | ret (id : Nat) (ok : Bool)         -- logged after the return (ok = result of PopOrWait, true otherwise)
  deriving Repr

def parseWEv (s : String) : Option WEv :=
  match s.splitOn ":" with
  | ["v", v] => v.toInt?.map .val
  | ["c", id, "below", t] => do let i ← id.toNat?; let t ← t.toInt?; pure (.call i (.waitBelow t))
  | ["c", id, "above", t] => do let i ← id.toNat?; let t ← t.toInt?; pure (.call i (.waitAbove t))
  | ["c", id, "pop"] => do let i ← id.toNat?; pure (.call i .popOrWait)
  | ["r", id, ok] => do let i ← id.toNat?; pure (.ret i (ok == "1"))
  | _ => none

/-- Open waits: id, op, "has the condition been met at some value since the call". -/
abbrev OpenWaits := List (Nat × Wait.WOp × Bool)

def met (op : Wait.WOp) (v : Int) : Bool := !decide (Wait.mustWait op v)

/-- `none` = accepted.  A `ret … true` needs the condition met at some value seen since the call; a
`PopOrWait` that returns false is not produced by the harness (its callback always says "wait").  At the
end every open wait must still have to wait for the final value. -/
def waitTrace : Int → OpenWaits → Nat → List WEv → Option String
  | v, open_, _, [] =>
    match open_.find? (fun w => met w.2.1 v) with
    | some w => some s!"unreturned {w.1}"
    | none => none
  | v, open_, i, .val v' :: es => waitTrace v' (open_.map (fun w => (w.1, w.2.1, w.2.2 || met w.2.1 v'))) (i + 1) es
  | v, open_, i, .call id op :: es => waitTrace v ((id, op, met op v) :: open_) (i + 1) es
  | v, open_, i, .ret id ok :: es =>
    match open_.find? (fun w => w.1 == id) with
    | none => some s!"unknown {i}"
    | some w =>
      if ok && !w.2.2 then some s!"early {id}"
      else if !ok then some s!"failed {id}"
      else waitTrace v (open_.filter (fun w => w.1 != id)) (i + 1) es

/-! ## Line protocol -/

inductive St
  | none
  | sm (cs : List (Cfg Mx Th))
  | dag (nEnt : Nat) (cs : List (Cfg Dag.DSh Dag.DTh))
  | dagc (nEnt : Nat) (cs : List (Cfg Comp.CSh Comp.CTh))
  | wm (stack : Bool) (cs : List WCfg)

def dedupBy {α κ : Type} [BEq κ] (key : α → κ) : List α → List κ → List α
  | [], _ => []
  | a :: l, seen => if seen.contains (key a) then dedupBy key l seen else a :: dedupBy key l (key a :: seen)

def answer {α : Type} (obsOf : α → String) (obs : String) (outs : List α) (complete : Bool) : List α × String :=
  let ok := outs.filter (fun c => obsOf c == obs)
  if !complete then (ok, "reject fuel")
  else if ok.isEmpty then
    (ok, "reject " ++ toString outs.length ++ " admissible, e.g. [" ++ (match outs.head? with | some c => obsOf c | none => "none") ++ "]")
  else (ok, "ok")

/-- sequential run of one goroutine: `ok` / `panic` / `block` per call.  A panic is followed by the lock state it
leaves behind (`writer readers pending`) and `frozen` when the internal mutex stays locked (then nothing can ever be
granted again; the repaired code never does that: `C17_panic_releases_internal_mutex`) -/
def seqSm : Cfg Mx Th → List Op → List String
  | _, [] => []
  | c, op :: ops =>
    match smArrive c 0 op with
    | none => ["stuck"]
    | some c1 =>
      match (quiescentFrom sys id [c1]).1 with
      | [c2] =>
        match c2.2.map smStatus with
        | ['i'] => "ok" :: seqSm c2 ops
        | ['d'] =>
          ["panic", (if c2.1.writer then "1" else "0"), toString c2.1.readers, toString c2.1.pending,
            (if c2.1.m then "frozen" else "live")]
        | _ => ["block"]
      | _ => ["nondet"]

def seqDag (nEnt : Nat) : Cfg Dag.DSh Dag.DTh → List Dag.DOp → List String
  | _, [] => []
  | c, op :: ops =>
    match dagArrive c 0 op with
    | none => ["stuck"]
    | some c1 =>
      match (quiescentFrom Dag.sys (dagKey nEnt) [c1]).1 with
      | [c2] =>
        match c2.2.map dagStatus with
        | ['i'] => "ok" :: seqDag nEnt c2 ops
        | ['d'] => ["panic"]
        | _ => ["block"]
      | _ => ["nondet"]

/-- consumer counts, registry bits and the lock state (`writer/readers`, `-` without a mutex) per entity of the
composed model -/
def compReg (nEnt : Nat) (c : Cfg Comp.CSh Comp.CTh) : String :=
  joinNat ((List.range nEnt).map c.1.cnt) ++ ":" ++ bits ((List.range nEnt).map (fun x => (c.1.ent x).isSome)) ++ ":" ++
    ",".intercalate ((List.range nEnt).map fun x =>
      match c.1.ent x with
      | none => "-"
      | some o => (if (c.1.heap o).writer then "1" else "0") ++ "/" ++ toString (c.1.heap o).readers)

/-- Sequential calls against the composed model.  The run goes on after a panic when the registry mutex `d.Mutex` is
free again (`live:` + the registry and the lock states as the panic left them; the calls that follow are issued by a
fresh goroutine `i+1`); `frozen` = `d.Mutex` left locked (no panic of the repaired code does that). -/
def seqComp (nEnt : Nat) : Cfg Comp.CSh Comp.CTh → Nat → List Dag.DOp → List String
  | _, _, [] => []
  | c, i, op :: ops =>
    match compArrive c i op with
    | none => ["stuck"]
    | some c1 =>
      match (quiescentFrom Comp.sys (compKey nEnt) [c1]).1 with
      | [c2] =>
        match (c2.2[i]?).map compStatus with
        | some 'i' => "ok" :: seqComp nEnt c2 i ops
        | some 'd' =>
          if c2.1.dm then ["panic", "frozen"]
          else "panic" :: ("live:" ++ compReg nEnt c2) :: seqComp nEnt (c2.1, c2.2 ++ [Comp.CTh.new []]) (i + 1) ops
        | _ => ["block"]
      | _ => ["nondet"]

def parseDOps : List String → Option (List Dag.DOp)
  | [] => some []
  | tok :: rest =>
    match tok.splitOn ":" with
    | [k, a] => do let op ← parseDOp k a; let r ← parseDOps rest; pure (op :: r)
    | _ => none

def stepLine (st : St) (toks : List String) : St × String :=
  match toks with
  | "sm" :: n :: _ =>      -- an optional third token `debug` (deadlock-detector goroutines on) does not change the protocol
    match n.toNat? with
    | some n => (.sm [(Mx.init, List.replicate n (Th.new []))], "ok")
    | none => (st, "bad-op")
  | "a" :: i :: op :: obs =>
    match st, i.toNat?, parseOp op with
    | .sm cs, some i, some op =>
      let starts := cs.filterMap (fun c => smArrive c i op)
      let (outs, complete) := quiescentFrom sys id starts
      let (ok, ans) := answer smObs (" ".intercalate obs) (dedupBy id outs []) complete
      (.sm ok, ans)
    | _, _, _ => (st, "bad-op")
  | ["dag", n, e] =>
    match n.toNat?, e.toNat? with
    | some n, some e => (.dag e [((fun _ => Dag.Ent.zero), List.replicate n (Dag.DTh.new []))], "ok")
    | _, _ => (st, "bad-op")
  | ["dagc", n, e] =>
    match n.toNat?, e.toNat? with
    | some n, some e => (.dagc e [(Comp.CSh.init, List.replicate n (Comp.CTh.new []))], "ok")
    | _, _ => (st, "bad-op")
  | "d" :: i :: op :: arg :: obs =>
    match st, i.toNat?, parseDOp op arg with
    | .dagc e cs, some i, some op =>
      let starts := cs.filterMap (fun c => compArrive c i op)
      let (outs, complete) := quiescentFrom Comp.sys (compKey e) starts
      let (ok, ans) := answer (compObs e) (" ".intercalate obs) (dedupBy (compKey e) outs []) complete
      (.dagc e ok, ans)
    | .dag e cs, some i, some op =>
      let starts := cs.filterMap (fun c => dagArrive c i op)
      let (outs, complete) := quiescentFrom Dag.sys (dagKey e) starts
      let (ok, ans) := answer (dagObs e) (" ".intercalate obs) (dedupBy (dagKey e) outs []) complete
      (.dag e ok, ans)
    | _, _, _ => (st, "bad-op")
  | ["wm", n, v, kind] =>
    match n.toNat?, v.toInt? with
    | some n, some v =>
      if kind == "stack" then (.wm true [(WaitV.MonV.initStack v.toNat, List.replicate n (WaitV.WThV.new []))], "ok")
      else (.wm false [(WaitV.MonV.initCounter v, List.replicate n (WaitV.WThV.new []))], "ok")
    | _, _ => (st, "bad-op")
  | "w" :: i :: rest =>
    -- w T <op tokens…> | <obs tokens…>
    let opToks := rest.takeWhile (· != "|")
    let obs := (rest.dropWhile (· != "|")).drop 1
    match st, i.toNat?, parseWOp opToks with
    | .wm k cs, some i, some op =>
      let starts := cs.filterMap (fun c => wArrive c i op)
      let (outs, complete) := quiescentFrom WaitV.sys (wKey k) starts
      let (ok, ans) := answer (wObs k) (" ".intercalate obs) (dedupBy (wKey k) outs []) complete
      (.wm k ok, ans)
    | _, _, _ => (st, "bad-op")
  | "wg" :: a :: b :: rest =>
    let obs := (rest.dropWhile (· != "|")).drop 1
    match st, a.toNat?, b.toNat? with
    | .wm k cs, some a, some b =>
      let starts := cs.filterMap (fun c => wGapStart c a b)
      let (outs, complete) := quiescentFrom WaitV.sys (wKey k) starts
      let (ok, ans) := answer (wObs k) (" ".intercalate obs) (dedupBy (wKey k) outs []) complete
      (.wm k ok, ans)
    | _, _, _ => (st, "bad-op")
  | "wu" :: rest =>
    -- wu T0 <op0> / T1 <op1> / … | <obs>: goroutine T0's call runs through its critical section, then the calls of
    -- T1, T2, … — queued on the value lock behind T0's subscriber callback on the real object — arrive together, before
    -- T0's Broadcast; every interleaving is explored
    let opToks := rest.takeWhile (· != "|")
    let obs := (rest.dropWhile (· != "|")).drop 1
    let groups := (splitToks "/" opToks).filter (fun g => !g.isEmpty)
    let parsed := groups.mapM fun g =>
      match g with
      | i :: op => match i.toNat?, parseWOp op with
        | some i, some op => some (i, op)
        | _, _ => none
      | [] => none
    match st, parsed with
    | .wm k cs, some ((i0, op0) :: others) =>
      let starts := cs.filterMap fun c => do
        let c1 ← wArrive c i0 op0
        let c2 ← stepThread c1 i0 (fun _ => true)   -- the call starts
        let c3 ← stepThread c2 i0 (fun _ => true)   -- takes the lock
        let c4 ← stepThread c3 i0 (fun _ => true)   -- its critical section: value stored, subscribers notified, lock released
        -- T0 still owes its Broadcast: a sleeper it wakes queues for the lock behind T1, T2, … and may find its
        -- condition gone again (a transient condition can be missed; the model admits it)
        others.foldlM (fun c (p : Nat × Wait.WOp) => wArrive c p.1 p.2) c4
      let (outs, complete) := quiescentFrom WaitV.sys (wKey k) starts
      let (ok, ans) := answer (wObs k) (" ".intercalate obs) (dedupBy (wKey k) outs []) complete
      (.wm k ok, ans)
    | _, _ => (st, "bad-op")
  | "wq" :: t :: m :: u :: thr :: rest =>
    let obs := (rest.dropWhile (· != "|")).drop 1
    let second : Option (Option (Nat × Int)) :=
      if u == "-" then some none else
        match u.toNat?, thr.toInt? with
        | some u, some thr => some (some (u, thr))
        | _, _ => none
    match st, t.toNat?, m.toNat?, second with
    | .wm k cs, some t, some m, some second =>
      let starts := cs.filterMap (fun c => wPushWaitStart c t m second)
      let (outs, complete) := quiescentFrom WaitV.sys (wKey k) starts
      let (ok, ans) := answer (wObs k) (" ".intercalate obs) (dedupBy (wKey k) outs []) complete
      (.wm k ok, ans)
    | _, _, _, _ => (st, "bad-op")
  | "tr" :: evs =>
    match evs.mapM parseEv with
    | some es =>
      match exclTrace (fun _ => (0, 0)) 0 es with
      | none => (st, "accept")
      | some i => (st, s!"reject {i}")
    | none => (st, "bad-op")
  | "seq" :: "sm" :: ops =>
    match ops.mapM parseOp with
    | some ops => (st, " ".intercalate (seqSm (Mx.init, [Th.new []]) ops))
    | none => (st, "bad-op")
  | "seq" :: "dag" :: ops =>
    match parseDOps ops with
    | some ops => (st, " ".intercalate (seqDag 8 ((fun _ => Dag.Ent.zero), [Dag.DTh.new []]) ops))
    | none => (st, "bad-op")
  | "seq" :: "dagc" :: ops =>
    match parseDOps ops with
    | some ops => (st, " ".intercalate (seqComp 8 (Comp.CSh.init, [Comp.CTh.new []]) 0 ops))
    | none => (st, "bad-op")
  | "wt" :: v :: evs =>
    match v.toInt?, evs.mapM parseWEv with
    | some v, some es =>
      match waitTrace v [] 0 es with
      | none => (st, "accept")
      | some why => (st, "reject " ++ why)
    | _, _ => (st, "bad-op")
  | _ => (st, "bad-op")

end Hive.SyncMutex.Exec
