import Hive.Model.KVTrace
import Hive.Model.KVMem
/-!
# `drv_c04`: the request lines of both models

`m …` lines are requests of the store with memory (`Hive/Model/KVMem.lean`: buffers, references, which slices are kept and
which are copied); every other line is a request of the answer / trace / fault model (`tstepLine`).  A case header resets both.
-/
namespace Hive.KV

structure DState where
  t : TState
  m : Mem.MDrv
deriving Repr

def dinit : DState := { t := tinit, m := Mem.mdinit }

def dstepLine (st : DState) (toks : List String) : DState × String :=
  match toks with
  | "m" :: rest =>
    let r := Mem.mline st.m (rest.map (fun w => if w == "~" then "-" else w))   -- `~` = nil slice: the empty byte string
    ({ st with m := r.1 }, r.2)
  | _ => let r := tstepLine st.t toks; ({ st with t := r.1 }, r.2)

end Hive.KV
