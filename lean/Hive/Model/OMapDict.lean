import Hive.Model.OMapPtr
/-!
# The dictionary layer of `OrderedMap`: `ds/shrinkingmap.ShrinkingMap` as `orderedmap.go` uses it (C11)

`OrderedMap.dictionary` is a `ShrinkingMap[K, *Element]` created with the *default options*
(`shrinkingThresholdRatio = 10.0`, `shrinkingThresholdCount = 100`).  `OrderedMap` calls its `Get`, `Has`, `Set`
and `Delete`; `Clear` replaces it by a fresh one.  `ShrinkingMap.delete` counts the deleted keys and, when
`shouldShrink()` says so, rebuilds the Go map (`shrink`: every entry is copied into a fresh map, the counter is
reset).  `DMap` is the pointer-level map of `OMapPtr.lean` together with that bookkeeping: the rebuild is modelled
as what the code does — a fresh dictionary filled entry by entry — not as the identity.

`SetArithmetic` uses a second `ShrinkingMap[T,int]` only through `Compute` (never deletes): no bookkeeping there.
-/
namespace Hive.OMap

/-- `shrinkingmap.Options` (a ratio that is a whole number — the only kind the anchored code configures). -/
structure SOpts where
  ratio : Nat   -- shrinkingThresholdRatio, 0 = not defined
  count : Nat   -- shrinkingThresholdCount, 0 = not defined
deriving Repr, DecidableEq

/-- `defaultOptions` of `shrinkingmap.go`. -/
def SOpts.default : SOpts := { ratio := 10, count := 100 }

/-- `shouldShrink()`: `deleted` = `s.deletedKeys`, `size` = `len(s.m)` (after the deletion).  The code compares
`float32(deleted)/float32(size) < ratio`; for a whole-number ratio and operands below 2^20 (exactly representable,
quotient rounding cannot reach the ratio from below) this is `deleted < ratio * size`. -/
def shouldShrink (o : SOpts) (deleted size : Nat) : Bool :=
  if o.ratio == 0 && o.count == 0 then false
  else if o.ratio != 0 && (size == 0 || decide (deleted < o.ratio * size)) then false
  else if o.count != 0 && decide (deleted < o.count) then false
  else true

/-- `shrink()`: `newMap := make(map, len(s.m)); for k, v := range s.m { newMap[k] = v }`. -/
def shrinkCopy (d : List (Nat × Nat)) : List (Nat × Nat) := AMap.clone d

/-- The ordered map with the bookkeeping of its dictionary. `shrinks` is a ghost counter of rebuilds. -/
structure DMap where
  p : PMap
  dk : Nat
  shrinks : Nat
deriving Repr

namespace DMap

def empty : DMap := { p := PMap.empty, dk := 0, shrinks := 0 }

/-- `OrderedMap.Set`: `dictionary.Get`, possibly `dictionary.Set` — neither touches `deletedKeys`. -/
def set (d : DMap) (k v : Nat) : DMap × Option Nat :=
  let r := d.p.set k v
  ({ d with p := r.1 }, r.2)

/-- `OrderedMap.Delete`: `dictionary.Delete(key)` = `deletedKeys++; delete(m, key); if shouldShrink() { shrink() }`,
then the pointer surgery. -/
def delete (d : DMap) (k : Nat) : DMap × Bool :=
  let r := d.p.delete k
  if r.2 then
    if shouldShrink SOpts.default (d.dk + 1) r.1.dict.length then
      ({ p := { r.1 with dict := shrinkCopy r.1.dict }, dk := 0, shrinks := d.shrinks + 1 }, true)
    else ({ d with p := r.1, dk := d.dk + 1 }, true)
  else (d, false)

/-- `OrderedMap.Clear`: `o.dictionary = shrinkingmap.New(...)` — a fresh counter. -/
def clear (d : DMap) : DMap := { d with p := d.p.clear, dk := 0 }

def applyOp (d : DMap) : PMap.MOp → DMap
  | .set k v => (d.set k v).1
  | .del k => (d.delete k).1
  | .clear => d.clear

def applyOps (d : DMap) (ops : List PMap.MOp) : DMap := ops.foldl applyOp d

def run (h : List PMap.MOp) : DMap := applyOps empty h

end DMap

/-- the value of `dictionary.deletedKeys` after `ops` ran on the map `p` whose counter was `dk` -/
def dkAfter (dk : Nat) (p : PMap) (ops : List PMap.MOp) : Nat :=
  (DMap.applyOps { p := p, dk := dk, shrinks := 0 } ops).dk

end Hive.OMap
