import Hive.Conc.Sys
/-!
# StarvingMutex as a monitor protocol (runtime/syncutils/starvingmutex.go)

The shared state `Mx` is the struct of the Go code: the internal `sync.Mutex` (`m`), `readersActive`,
`writerActive`, `pendingWriters` and the two `sync.Cond`s.  A condition variable is two counters:
`wait*` = goroutines registered by `Wait` and not yet notified, `wake*` = notifications delivered and
not yet consumed (a parked goroutine resumes by consuming one).  `Wait` registers and releases `m` in
one step (Go's `notifyListAdd` happens before `L.Unlock()`, so a `Signal` issued after the unlock
reaches the waiter); `Signal` moves one registered waiter to the notified side and **is lost when
nobody is registered**; `Broadcast` moves all of them.  As in the code, `Signal`/`Broadcast` are
issued *after* the internal mutex has been released, as separate steps (`ruS`, `ulS`, `ulB`).

A thread is a program counter, what it holds (`rd` read holds, `wr` the write lock) and the rest of its
script.  `RUnlock`/`Unlock` test their guards with the internal mutex held and — since the repair "release the
internal mutex before panicking" — unlock it before they panic: the panicking thread ends in `dead`, `m` is free again
and nothing else has changed.

`mxStep` is the code **after** the repair of `Unlock` (it panics when no writer is active);
`mxStepOld` is the code before the repair, kept for the witness.
-/
namespace Hive.SyncMutex

inductive Op
  | lock | unlock | rlock | runlock
  deriving DecidableEq, Repr, Hashable

/-- Program points.  `A` = about to acquire the internal mutex, `C` = inside the critical section of the
internal mutex at the test, `P` = parked in `Cond.Wait`, `R` = notified, about to re-acquire the internal
mutex, `S`/`B` = internal mutex released, `Signal`/`Broadcast` still to be issued. -/
inductive Pc
  | idle
  | rlA | rlC | rlP
  | lkA | lkI | lkC | lkP | lkR
  | ruA | ruC | ruS
  | ulA | ulC | ulB | ulS
  | dead
  deriving DecidableEq, Repr, Hashable

structure Mx where
  m : Bool
  readers : Nat
  writer : Bool
  pending : Nat
  waitR : Nat
  wakeR : Nat
  waitW : Nat
  wakeW : Nat
  deriving DecidableEq, Repr, Hashable

def Mx.init : Mx := ⟨false, 0, false, 0, 0, 0, 0, 0⟩

/-- What one goroutine contributes to one mutex: where it is and what it holds. -/
structure V where
  pc : Pc
  rd : Nat
  wr : Bool
  deriving DecidableEq, Repr, Hashable

def V.init : V := ⟨.idle, 0, false⟩

def signalW (s : Mx) : Mx :=
  if s.waitW = 0 then s else { s with waitW := s.waitW - 1, wakeW := s.wakeW + 1 }

def broadcastR (s : Mx) : Mx := { s with wakeR := s.wakeR + s.waitR, waitR := 0 }

/-- The `Unlock` critical section; `fixed = false` is the code before the repair (no writer check). -/
def ulCStep (fixed : Bool) (s : Mx) (v : V) : List (Mx × V) :=
  if s.readers > 0 ∨ (fixed = true ∧ s.writer = false) then [({ s with m := false }, { v with pc := .dead })]
  else if s.pending = 0 then [({ s with m := false, writer := false }, { v with pc := .ulB, wr := false })]
  else [({ s with m := false, writer := false }, { v with pc := .ulS, wr := false })]

/-- One step of a goroutine inside a `StarvingMutex` method. -/
def mxStepG (fixed : Bool) (s : Mx) (v : V) : List (Mx × V) :=
  match v.pc with
  | .idle => []
  | .dead => []
  -- RLock: mutex.Lock(); for writerActive { readerCond.Wait() }; readersActive++; (deferred) mutex.Unlock()
  | .rlA => if s.m then [] else [({ s with m := true }, { v with pc := .rlC })]
  | .rlC =>
    if s.writer then [({ s with m := false, waitR := s.waitR + 1 }, { v with pc := .rlP })]
    else [({ s with m := false, readers := s.readers + 1 }, { v with pc := .idle, rd := v.rd + 1 })]
  | .rlP => if s.wakeR = 0 then [] else [({ s with wakeR := s.wakeR - 1 }, { v with pc := .rlA })]
  -- Lock: mutex.Lock(); pendingWriters++; for !canWrite() { writerCond.Wait() }; pendingWriters--;
  --       writerActive = true; (deferred) mutex.Unlock()
  | .lkA => if s.m then [] else [({ s with m := true }, { v with pc := .lkI })]
  | .lkI => [({ s with pending := s.pending + 1 }, { v with pc := .lkC })]
  | .lkC =>
    if s.writer ∨ s.readers > 0 then [({ s with m := false, waitW := s.waitW + 1 }, { v with pc := .lkP })]
    else [({ s with m := false, pending := s.pending - 1, writer := true }, { v with pc := .idle, wr := true })]
  | .lkP => if s.wakeW = 0 then [] else [({ s with wakeW := s.wakeW - 1 }, { v with pc := .lkR })]
  | .lkR => if s.m then [] else [({ s with m := true }, { v with pc := .lkC })]
  -- RUnlock: mutex.Lock(); guards: mutex.Unlock() + panic; readersActive--; if readersActive == 0 && pendingWriters > 0
  --          { mutex.Unlock(); writerCond.Signal() } else mutex.Unlock()
  | .ruA => if s.m then [] else [({ s with m := true }, { v with pc := .ruC })]
  | .ruC =>
    if s.readers = 0 ∨ s.writer then [({ s with m := false }, { v with pc := .dead })]
    else if s.readers = 1 ∧ s.pending > 0 then
      [({ s with m := false, readers := s.readers - 1 }, { v with pc := .ruS, rd := v.rd - 1 })]
    else [({ s with m := false, readers := s.readers - 1 }, { v with pc := .idle, rd := v.rd - 1 })]
  | .ruS => [(signalW s, { v with pc := .idle })]
  -- Unlock: mutex.Lock(); guards: mutex.Unlock() + panic; writerActive = false; if pendingWriters == 0 { mutex.Unlock();
  --         readerCond.Broadcast() } else { mutex.Unlock(); writerCond.Signal() }
  | .ulA => if s.m then [] else [({ s with m := true }, { v with pc := .ulC })]
  | .ulC => ulCStep fixed s v
  | .ulB => [(broadcastR s, { v with pc := .idle })]
  | .ulS => [(signalW s, { v with pc := .idle })]

abbrev mxStep := mxStepG true
abbrev mxStepOld := mxStepG false

def start : Op → Pc
  | .lock => .lkA
  | .unlock => .ulA
  | .rlock => .rlA
  | .runlock => .ruA

/-- A goroutine using one StarvingMutex: its view and the operations it will still call. -/
structure Th where
  v : V
  script : List Op
  deriving DecidableEq, Repr, Hashable

def Th.new (script : List Op) : Th := ⟨V.init, script⟩

def smStepG (fixed : Bool) (s : Mx) (t : Th) : List (Mx × Th) :=
  match t.v.pc, t.script with
  | .idle, op :: rest => [(s, { v := { t.v with pc := start op }, script := rest })]
  | .idle, [] => []
  | _, _ => (mxStepG fixed s t.v).map (fun p => (p.1, { t with v := p.2 }))

/-- The StarvingMutex protocol: any number of goroutines, each with any script. -/
def sys : Conc.Sys Mx Th := ⟨smStepG true⟩
def sysOld : Conc.Sys Mx Th := ⟨smStepG false⟩

def Th.done (t : Th) : Prop := t.v.pc = .idle ∧ t.script = []

/-- Well-bracketed scripts: what a goroutine unlocks it holds, it does not ask for the write lock while it
holds anything nor for a read lock while it holds the write lock (both would wait for itself), and it
ends holding nothing.  Recursive read locking is allowed (the mutex does not block readers behind pending
writers). -/
def wb : Nat → Bool → List Op → Bool
  | rd, wr, [] => rd == 0 && !wr
  | rd, wr, .lock :: r => rd == 0 && !wr && wb 0 true r
  | rd, wr, .unlock :: r => rd == 0 && wr && wb 0 false r
  | rd, wr, .rlock :: r => !wr && wb (rd + 1) false r
  | rd, wr, .runlock :: r => !wr && decide (0 < rd) && wb (rd - 1) false r

def initCfg (scripts : List (List Op)) : Conc.Cfg Mx Th := (Mx.init, scripts.map Th.new)

/-! ## What the properties talk about -/

/-- Exclusion between `nW` write holders and `nR` read holds. -/
def Excl (nW nR : Nat) : Prop := nW ≤ 1 ∧ (nW = 1 → nR = 0)

instance (nW nR : Nat) : Decidable (Excl nW nR) := by unfold Excl; exact inferInstance

def sumV (f : V → Nat) (vs : List V) : Nat := (vs.map f).sum

def fRd (v : V) : Nat := v.rd
def fWr (v : V) : Nat := if v.wr then 1 else 0

def views (ts : List Th) : List V := ts.map (·.v)

/-- A goroutine is *in flight* when it is inside a method and not parked on a condition variable. -/
def V.inFlight (v : V) : Bool :=
  match v.pc with
  | .idle | .rlP | .lkP | .dead => false
  | _ => true

/-- Quiescence: nobody is in flight and no notification is undelivered. -/
def Quiescent (s : Mx) (vs : List V) : Prop :=
  (∀ v ∈ vs, v.inFlight = false) ∧ s.wakeR = 0 ∧ s.wakeW = 0

end Hive.SyncMutex
