import Hive.Model.C12bBase
/-!
# Model of `memstorage.IndexedStorage` (core/memstorage/indexedstorage.go)

`cache : ShrinkingMap[Index, *ShrinkingMap[K, V]]`.  The inner storages are handed out *by pointer*:
the model keeps a little Go heap `stores` (allocation number → contents) and the cache maps an index
to an allocation number.  An evicted / cleared storage stays usable through the pointers handed out
earlier, but is detached from the cache.

```
Get(i, create?): if cached return it; if !create return nil; s := new storage; cache.Set(i, s); return s
Evict(i):        if cached { cache.Delete(i); return it } else return nil
ForEach(f):      f(i, s) for every cached pair (Go map order — printed sorted by index)
Clear():         returns the parallel slices of all indexes and storages, replaces the cache by a fresh map
```
-/
namespace Hive.C12b.IX

structure St where
  cache : AMap Nat
  stores : AMap (AMap Nat)
  nextId : Nat
deriving Repr

def init : St := { cache := [], stores := [], nextId := 0 }

inductive Op
  | get (i : Nat) (create : Bool)
  | evict (i : Nat)
  | forEach
  | clear
  | sset (h k v : Nat)     -- storage.Set(k, v) through a pointer handed out earlier
  | sget (h k : Nat)
  | sdel (h k : Nat)
deriving Repr, DecidableEq

inductive Out
  | nil
  | handle (h : Nat)
  | pairs (l : List (Nat × Nat × AMap Nat))   -- (index, handle, contents)
  | ok
  | val (v : Option Nat)
  | bool (b : Bool)
  | nohandle
deriving Repr, DecidableEq

def contents (s : St) (h : Nat) : AMap Nat := (s.stores.get h).getD []

def listing (s : St) : List (Nat × Nat × AMap Nat) :=
  s.cache.map (fun p => (p.1, p.2, contents s p.2))

def step (s : St) : Op → St × Out
  | .get i create =>
    match s.cache.get i with
    | some h => (s, .handle h)
    | none =>
      if create then
        ({ s with cache := s.cache.set i s.nextId, stores := s.stores.set s.nextId [], nextId := s.nextId + 1 },
          .handle s.nextId)
      else (s, .nil)
  | .evict i =>
    match s.cache.get i with
    | some h => ({ s with cache := s.cache.del i }, .handle h)
    | none => (s, .nil)
  | .forEach => (s, .pairs (listing s))
  | .clear => ({ s with cache := [] }, .pairs (listing s))
  | .sset h k v =>
    match s.stores.get h with
    | some m => ({ s with stores := s.stores.set h (m.set k v) }, .ok)
    | none => (s, .nohandle)
  | .sget h k =>
    match s.stores.get h with
    | some m => (s, .val (m.get k))
    | none => (s, .nohandle)
  | .sdel h k =>
    match s.stores.get h with
    | some m => ({ s with stores := s.stores.set h (m.del k) }, .bool (m.has k))
    | none => (s, .nohandle)

def run (s : St) : List Op → St × List Out
  | [] => (s, [])
  | op :: ops =>
    let r := step s op
    let rs := run r.1 ops
    (rs.1, r.2 :: rs.2)

def final (s : St) (ops : List Op) : St := ops.foldl (fun s op => (step s op).1) s

/-! ## abstract specification: a partial function from indexes to storages, storages being partial
functions themselves -/

structure Spec where
  at_ : Nat → Option Nat          -- index ↦ handle
  store : Nat → Option (Nat → Option Nat)   -- handle ↦ contents (none: never allocated)
  fresh : Nat

def specInit : Spec := { at_ := fun _ => none, store := fun _ => none, fresh := 0 }

def upd {β : Type} (f : Nat → β) (k : Nat) (v : β) : Nat → β := fun x => if x = k then v else f x

/-- What the specification says about the scalar answers (iteration answers are characterised by
the listing theorem). -/
inductive SOut
  | nil
  | handle (h : Nat)
  | ok
  | val (v : Option Nat)
  | bool (b : Bool)
  | nohandle
  | iter
deriving Repr, DecidableEq

def specStep (s : Spec) : Op → Spec × SOut
  | .get i create =>
    match s.at_ i with
    | some h => (s, .handle h)
    | none =>
      if create then
        ({ s with at_ := upd s.at_ i (some s.fresh), store := upd s.store s.fresh (some (fun _ => none)),
                  fresh := s.fresh + 1 }, .handle s.fresh)
      else (s, .nil)
  | .evict i =>
    match s.at_ i with
    | some h => ({ s with at_ := upd s.at_ i none }, .handle h)
    | none => (s, .nil)
  | .forEach => (s, .iter)
  | .clear => ({ s with at_ := fun _ => none }, .iter)
  | .sset h k v =>
    match s.store h with
    | some m => ({ s with store := upd s.store h (some (upd m k (some v))) }, .ok)
    | none => (s, .nohandle)
  | .sget h k =>
    match s.store h with
    | some m => (s, .val (m k))
    | none => (s, .nohandle)
  | .sdel h k =>
    match s.store h with
    | some m => ({ s with store := upd s.store h (some (upd m k none)) }, .bool (m k).isSome)
    | none => (s, .nohandle)

def scalar : Out → SOut
  | .nil => .nil
  | .handle h => .handle h
  | .pairs _ => .iter
  | .ok => .ok
  | .val v => .val v
  | .bool b => .bool b
  | .nohandle => .nohandle

/-! ## line protocol -/
open Hive.Proto

def showPair (p : Nat × Nat × AMap Nat) : String := s!"{p.1}:s{p.2.1}{showKVs p.2.2}"

def showOut : Out → String
  | .nil => "nil"
  | .handle h => s!"s{h}"
  | .pairs l => "[" ++ " ".intercalate ((sortBy (·.1) l).map showPair) ++ "]"
  | .ok => "ok"
  | .val none => "none"
  | .val (some v) => toString v
  | .bool b => showBool b
  | .nohandle => "nohandle"

def parseOp : List String → Option Op
  | ["get", i] => i.toNat?.map (.get · false)
  | ["getf", i] => i.toNat?.map (.get · false)
  | ["getc", i] => i.toNat?.map (.get · true)
  | ["gettf", i] => i.toNat?.map (.get · true)     -- Get(i, true, false): only createIfMissing[0] counts
  | ["getft", i] => i.toNat?.map (.get · false)    -- Get(i, false, true)
  | ["evict", i] => i.toNat?.map .evict
  | ["foreach"] => some .forEach
  | ["clear"] => some .clear
  | ["sset", h, k, v] => do some (.sset (← h.toNat?) (← k.toNat?) (← v.toNat?))
  | ["sget", h, k] => do some (.sget (← h.toNat?) (← k.toNat?))
  | ["sdel", h, k] => do some (.sdel (← h.toNat?) (← k.toNat?))
  | _ => none

def stepLine (s : St) (toks : List String) : St × String :=
  match toks with
  | ["new"] => (init, "ok")
  | _ => match parseOp toks with
    | some op => let r := step s op; (r.1, showOut r.2)
    | none => (s, "bad-op")

end Hive.C12b.IX
