import Hive.Model.Ads
import Hive.Conc.Sys
/-!
# Protocol model of one shared `ads.Map` (ads/map_impl.go) for C09

Any number of goroutines, each with an arbitrary remaining script of calls, share one authenticated
map: its `sync.RWMutex` (`writer`, `readers`) and the state of the sequential model (`St`: trie, raw
keys, size cell, root cell).  The lock structure is the one of the code (see the regenerated
skeletons in `Hive/Gen/C09_Skel.lean` and `C09_skeleton_*`):

* `Set`, `Delete`, `Get`, `Has`, `Stream`, `Root`, `Commit`: `mutex.Lock()` … deferred `Unlock()`;
* `Size`: `mutex.RLock()` … deferred `RUnlock()`, one read of the size cell;
* `WasRestoredFromStorage` takes no lock of the map and `reopen` is not a method of the shared
  object: they are not part of concurrent scripts.

Inside the write lock `Set` and `Delete` are the shared-memory micro-steps of the code, in program
order: `has(key)` (`wHas`), `tree.Update` / `tree.Delete` (`wTree`), the raw-key store write (`wRaw`),
and — only when the presence of the key changes — `addSize`: read the size cell (`wSize`), write it.
`Commit` is `root.Set` (`wRoot`) followed by the flush of the trie.  The other calls are one step.
Other goroutines may be scheduled between any two micro-steps; that they cannot interfere is what
the theorems prove from the lock, it is not built into the model.  `RLock` is modelled without
writer preference (more schedules than Go allows, which is sound for safety properties).

Ghost state: `log` — one entry per completed call, appended while the lock is still held; `base` —
the state after the last completed write section.
-/
namespace Hive.Ads.Conc
open Hive.Conc

variable {R : Type}

inductive Pc (R : Type)
  | idle
  | wantW                 -- before `m.mutex.Lock()`
  | w1                    -- write lock held, nothing done yet (serializers are local computation)
  | wHas (h : Bool)       -- Set/Delete: `has(keyBytes)` evaluated
  | wTree (h : Bool)      -- `tree.Update` / `tree.Delete` done
  | wRaw (h : Bool)       -- raw-key store written
  | wSize (n : Int)       -- `addSize`: size cell read
  | wRoot                 -- Commit: `root.Set` done, `tree.Commit` pending
  | wDone (o : Out R)     -- everything written, before the deferred `Unlock`
  | wantR                 -- Size: before `m.mutex.RLock()`
  | r1                    -- read lock held
  | rDone (o : Out R)     -- size read, before the deferred `RUnlock`

structure Thread (R : Type) where
  script : List Op        -- remaining calls, the head is the one in progress
  pc : Pc R

structure Shared (R : Type) where
  st : St R
  writer : Bool
  readers : Nat
  log : List (Op × Out R)
  base : St R

def isMethod : Op → Bool
  | .reopen => false
  | .restored => false
  | _ => true

def usesReadLock : Op → Bool
  | .size => true
  | _ => false

def tstep (c : Cfg R) (sh : Shared R) (t : Thread R) : List (Shared R × Thread R) :=
  match t.script with
  | [] => []
  | op :: rest =>
    match t.pc with
    | .idle =>
      if !isMethod op then []
      else if usesReadLock op then [(sh, { t with pc := .wantR })]
      else [(sh, { t with pc := .wantW })]
    | .wantR =>
      if sh.writer then [] else [({ sh with readers := sh.readers + 1 }, { t with pc := .r1 })]
    | .r1 =>
      let o := (step c sh.st op).2
      [({ sh with log := sh.log ++ [(op, o)] }, { t with pc := .rDone o })]
    | .rDone _ => [({ sh with readers := sh.readers - 1 }, { script := rest, pc := .idle })]
    | .wantW =>
      if sh.writer || sh.readers != 0 then [] else [({ sh with writer := true }, { t with pc := .w1 })]
    | .w1 =>
      match op with
      | .set (some kb) (some _) => [(sh, { t with pc := .wHas (has sh.st kb) })]
      | .del (some kb) => [(sh, { t with pc := .wHas (has sh.st kb) })]
      | .commit =>
        [({ sh with st := { sh.st with rootKey := some (c.rootOf sh.st.trie.fn) } }, { t with pc := .wRoot })]
      | _ =>
        let r := step c sh.st op
        [({ sh with st := r.1 }, { t with pc := .wDone r.2 })]
    | .wHas h =>
      match op with
      | .set (some kb) (some vb) =>
        [({ sh with st := { sh.st with trie := sh.st.trie.update kb vb } }, { t with pc := .wTree h })]
      | .del (some kb) =>
        if h then
          match sh.st.trie.delete kb with
          | none => [(sh, { t with pc := .wDone .errTree })]
          | some t' => [({ sh with st := { sh.st with trie := t' } }, { t with pc := .wTree h })]
        else [(sh, { t with pc := .wDone (.deleted false) })]
      | _ => []
    | .wTree h =>
      match op with
      | .set (some kb) _ =>
        [({ sh with st := { sh.st with rawKeys := insertSorted kb sh.st.rawKeys } }, { t with pc := .wRaw h })]
      | .del (some kb) =>
        [({ sh with st := { sh.st with rawKeys := sh.st.rawKeys.filter (· ≠ kb) } }, { t with pc := .wRaw h })]
      | _ => []
    | .wRaw h =>
      match op with
      | .set _ _ =>
        if h then [(sh, { t with pc := .wDone .ok })] else [(sh, { t with pc := .wSize (sh.st.size.getD 0) })]
      | .del _ => [(sh, { t with pc := .wSize (sh.st.size.getD 0) })]
      | _ => []
    | .wSize n =>
      match op with
      | .set _ _ => [({ sh with st := { sh.st with size := some (n + 1) } }, { t with pc := .wDone .ok })]
      | .del _ => [({ sh with st := { sh.st with size := some (n + -1) } }, { t with pc := .wDone (.deleted true) })]
      | _ => []
    | .wRoot => [({ sh with st := { sh.st with trie := sh.st.trie.commit } }, { t with pc := .wDone .ok })]
    | .wDone o =>
      [({ sh with writer := false, log := sh.log ++ [(op, o)], base := sh.st }, { script := rest, pc := .idle })]

def sys (c : Cfg R) : Sys (Shared R) (Thread R) := { step := tstep c }

def init (s0 : St R) : Shared R := { st := s0, writer := false, readers := 0, log := [], base := s0 }

def start (script : List Op) : Thread R := { script := script, pc := .idle }

def inW : Pc R → Bool
  | .w1 | .wHas _ | .wTree _ | .wRaw _ | .wSize _ | .wRoot | .wDone _ => true
  | _ => false

def inR : Pc R → Bool
  | .r1 | .rDone _ => true
  | _ => false

def logOps (log : List (Op × Out R)) : List Op := log.map (·.1)
def logOuts (log : List (Op × Out R)) : List (Out R) := log.map (·.2)

/-! ## the variant with the presence check outside the lock (witness only)

`has(key)` evaluated *before* `mutex.Lock()`: two `Set`s of one new key can both see it absent and
both increase the size.  `unlockedHasRun` plays that schedule on the cells involved. -/

/-- two goroutines `Set` the same absent key; both evaluate `has` first, then take the lock in turn -/
def unlockedHasRun (s : St R) (kb : Key) (vb : Val) : St R :=
  let h₁ := has s kb          -- goroutine 1, outside the lock
  let h₂ := has s kb          -- goroutine 2, outside the lock
  let sec (s : St R) (h : Bool) : St R :=
    let s1 := { s with trie := s.trie.update kb vb, rawKeys := insertSorted kb s.rawKeys }
    if h then s1 else addSize s1 1
  sec (sec s h₁) h₂

/-! ## trace predicates evaluated by the driver on what real goroutines observed -/

/-- At quiescence: `Size()` is the number of streamed keys, no key is streamed twice, every key for
which `Has` answered true is streamed and none for which it answered false. -/
def quiescentOk (size : Int) (stream hasTrue hasFalse : List Key) : Bool :=
  size == (stream.length : Int) && stream.all (fun k => stream.count k == 1) &&
    hasTrue.all (fun k => stream.contains k) && hasFalse.all (fun k => !stream.contains k)

def quiescentWhy (size : Int) (stream hasTrue hasFalse : List Key) : String :=
  if size != (stream.length : Int) then "reject size-differs-from-number-of-keys"
  else if !stream.all (fun k => stream.count k == 1) then "reject key-streamed-twice"
  else if !hasTrue.all (fun k => stream.contains k) then "reject present-key-not-streamed"
  else if !hasFalse.all (fun k => !stream.contains k) then "reject absent-key-streamed"
  else "accept"

/-- A value returned by `Get(k)` was written by some `Set(k, ·)`. -/
def readerOk (got : Val) (written : List Val) : Bool := written.contains got

open Hive.Proto in
/-- `qquiesce <size> S <streamed keys…> T <keys with Has = true…> F <keys with Has = false…>` and
`qget <got> <written values…>`. -/
def qstepLine (toks : List String) : String :=
  let keys (l : List String) : Option (List Key) := l.mapM unhex
  match toks with
  | "qquiesce" :: size :: "S" :: rest =>
    let s := rest.takeWhile (· ≠ "T")
    let rest := (rest.dropWhile (· ≠ "T")).drop 1
    let t := rest.takeWhile (· ≠ "F")
    let f := (rest.dropWhile (· ≠ "F")).drop 1
    match size.toInt?, keys s, keys t, keys f with
    | some n, some s, some t, some f => quiescentWhy n s t f
    | _, _, _, _ => "bad-op"
  | "qget" :: got :: written =>
    match unhex got, keys written with
    | some g, some w => if readerOk g w then "accept" else "reject reader-saw-unwritten-value"
    | _, _ => "bad-op"
  | _ => "bad-op"

end Hive.Ads.Conc
