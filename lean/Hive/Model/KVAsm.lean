import Hive.Model.KVConc
/-!
# From the regenerated synchronisation skeletons to the instruction sequences of the protocol model (C05)

`assemble` interprets the source-order token list that `extract-sync` prints for a method of `kvstore/mapdb`
(`Hive/Gen/C05_Skel.lean`, regenerated from the working tree on every run) and produces the instruction sequence of the
protocol model:

* `call X.closed.Load` + `if{ return }if`  ↦ `check`;  `call X.closed.Swap` + `if{ return }if` ↦ `swapClosed`
* `lock X` / `rlock X` / `unlock X` / `runlock X` ↦ the instruction on the lock identity the receiver expression `X` stands for
* `defer unlock X` / `defer runlock X` ↦ pushed; run in reverse order at the final `return` (or the end of the function)
* `helper h` with `h` a map primitive (possibly through a forwarding wrapper `["helper h'", "return"]`) ↦ the primitive's
  critical section `lock map · eff a · unlock map` (read mode for `rlock`), where the primitive's own skeleton must be ONE
  critical section on its receiver — `lock s, defer unlock s, …` or `rlock s, …, runlock s, …`, the rest control tokens only —
  and `a` is the access of the call (all the primitive does to the Go map inside its critical section is one atomic access
  of the model)
* `if{ … }if` after that: error handling without synchronisation, skipped (may contain only `return` / `break` / `continue`)
* `for{ … }for`: the body is assembled once per element of the next access list (the writes of a batch)

`Hive/Props/C05.lean` proves `assemble … = compile op` for every call kind: `compile` is what the interpreter makes of
the source's skeletons, not a paraphrase of them.  Core Lean only.
-/
namespace Hive.KV.Conc.Asm

structure Env where
  /-- receiver expression ↦ lock identity -/
  locks : List (String × LockId)
  /-- the receiver expression whose `closed` flag is loaded / swapped -/
  flag : String
  /-- helper name ↦ skeleton (a map primitive, or a wrapper that forwards to one) -/
  helpers : List (String × List String)
  /-- map primitives by name (what a forwarding wrapper leads to) -/
  prims : List (String × List String)
  /-- helper names that are not the model's concern (Go's builtin `delete` on a private map) -/
  ignored : List String

/-- Tokens without synchronisation that may occur inside a primitive's critical section or after it: control structure and
Go's builtin `delete` (reported as `helper delete` because `delete` is also the name of a method).  Everything else - any
lock token, any call token, any other helper - is refused. -/
def plainTok (t : String) : Bool :=
  t == "if{" || t == "}if" || t == "}else{" || t == "for{" || t == "}for" || t == "return" || t == "break" ||
  t == "continue" || t == "helper delete"

/-- The lock mode of a map primitive whose skeleton is exactly one critical section on its receiver `s`
(`true` = write mode). -/
def leafMode : List String → Option Bool
  | "lock s" :: "defer unlock s" :: rest => if rest.all plainTok then some true else none
  | "rlock s" :: "defer runlock s" :: rest => if rest.all plainTok then some false else none
  | "rlock s" :: rest =>
    let mid := rest.takeWhile (· != "runlock s")
    let post := rest.drop (mid.length + 1)
    if mid.length < rest.length && mid.all plainTok && post.all plainTok then some false else none
  | _ => none

/-- A helper either is a primitive or forwards to one (`["helper h'", "return"]`). -/
def resolve (env : Env) (h : String) : Option (List String) :=
  match env.helpers.lookup h with
  | some ["return"] => none
  | some [fw, "return"] =>
    match env.prims.find? (fun p => fw == "helper " ++ p.1) with
    | some p => some p.2
    | none => none
  | some sk => some sk
  | none => none

/-- The tokens of a block up to its closing token (no nesting of the same kind), and what follows. -/
def splitAt (close : String) (toks : List String) : Option (List String × List String) :=
  let body := toks.takeWhile (· != close)
  if body.length < toks.length then some (body, toks.drop (body.length + 1)) else none

def lockInstr (env : Env) (t : String) : Option (Instr ⊕ Instr) :=   -- inl = emit now, inr = deferred
  env.locks.findSome? fun (x, l) =>
    if t == "lock " ++ x then some (.inl (.lock l))
    else if t == "rlock " ++ x then some (.inl (.rlock l))
    else if t == "unlock " ++ x then some (.inl (.unlock l))
    else if t == "runlock " ++ x then some (.inl (.runlock l))
    else if t == "defer unlock " ++ x then some (.inr (.unlock l))
    else if t == "defer runlock " ++ x then some (.inr (.runlock l))
    else none

def helperName (env : Env) (t : String) : Option String :=
  (env.helpers.find? (fun p => t == "helper " ++ p.1)).map (·.1)

/-! ## stage 1: tokens ↦ template (independent of the accesses: closed, evaluated by the kernel) -/

/-- A template item without loop: an instruction, or the critical section of a map primitive (`true` = write mode) whose
access is filled in by stage 2. -/
inductive S
  | i (x : Instr)
  | prim (write : Bool)
deriving DecidableEq, Repr

inductive T
  | s (x : S)
  | loop (body : List S)
deriving DecidableEq, Repr

/-- What a token other than `for{` contributes (`none` = refused; `some (items, deferred?, skip)`). -/
inductive Step
  | emit (x : S)
  | deferI (x : Instr)
  | nothing
  | bad

def stepTok (env : Env) (t : String) : Step :=
  match lockInstr env t with
  | some (.inl i) => .emit (.i i)
  | some (.inr i) => .deferI i
  | none =>
    match helperName env t with
    | some h =>
      if env.ignored.contains h then .nothing
      else
        match (resolve env h).bind leafMode with
        | some w => .emit (.prim w)
        | none => .bad
    | none => .bad

/-- A loop body: simple tokens and `if{ return|break|continue }if` blocks, no deferred calls, no nested loop. -/
def asmBody (env : Env) : Nat → List String → Option (List S)
  | 0, _ => none
  | _ + 1, [] => some []
  | fuel + 1, t :: rest =>
    if t == "if{" then
      match splitAt "}if" rest with
      | some (body, rest') =>
        if body.all (fun x => x == "return" || x == "break" || x == "continue") then asmBody env fuel rest' else none
      | none => none
    else
      match stepTok env t with
      | .emit x => (asmBody env fuel rest).map (x :: ·)
      | .nothing => asmBody env fuel rest
      | _ => none

/-- `asmT env fuel toks defers`: `defers` = deferred instructions, latest first; they run at the final `return` / the end. -/
def asmT (env : Env) : Nat → List String → List Instr → Option (List T)
  | 0, _, _ => none
  | _ + 1, [], ds => some (ds.map (fun i => .s (.i i)))
  | fuel + 1, t :: rest, ds =>
    if t == "return" then (if rest.isEmpty then some (ds.map (fun i => .s (.i i))) else none)
    else if t == "call " ++ env.flag ++ ".closed.Load" then
      match rest with
      | "if{" :: "return" :: "}if" :: rest' => (asmT env fuel rest' ds).map (.s (.i .check) :: ·)
      | _ => none
    else if t == "call " ++ env.flag ++ ".closed.Swap" then
      match rest with
      | "if{" :: "return" :: "}if" :: rest' => (asmT env fuel rest' ds).map (.s (.i .swapClosed) :: ·)
      | _ => none
    else if t == "if{" then
      match splitAt "}if" rest with
      | some (body, rest') =>
        if body.all (fun x => x == "return" || x == "break" || x == "continue") then asmT env fuel rest' ds else none
      | none => none
    else if t == "for{" then
      match splitAt "}for" rest with
      | some (body, rest') =>
        match asmBody env fuel body, asmT env fuel rest' ds with
        | some b, some tail => some (.loop b :: tail)
        | _, _ => none
      | none => none
    else
      match stepTok env t with
      | .emit x => (asmT env fuel rest ds).map (.s x :: ·)
      | .deferI i => asmT env fuel rest (i :: ds)
      | .nothing => asmT env fuel rest ds
      | .bad => none

def template (env : Env) (toks : List String) : Option (List T) := asmT env (toks.length + 1) toks []

/-! ## stage 2: template + accesses ↦ instructions -/

/-- The critical section of a map primitive around the access `a`. -/
def cs (write : Bool) (a : DOp) : List Instr :=
  if write then [.lock .map, .eff a, .unlock .map] else [.rlock .map, .eff a, .runlock .map]

def instS (a : DOp) : List S → List Instr
  | [] => []
  | .i x :: rest => x :: instS a rest
  | .prim w :: rest => cs w a ++ instS a rest

/-- `accs`: one singleton list per primitive outside a loop, one list per loop (the loop body runs once per element). -/
def instT : List T → List (List DOp) → Option (List Instr)
  | [], [] => some []
  | [], _ :: _ => none
  | .s (.i x) :: rest, accs => (instT rest accs).map (x :: ·)
  | .s (.prim w) :: rest, [a] :: accs => (instT rest accs).map (cs w a ++ ·)
  | .s (.prim _) :: _, _ => none
  | .loop body :: rest, as :: accs => (instT rest accs).map (as.flatMap (fun a => instS a body) ++ ·)
  | .loop _ :: _, [] => none

def assemble (env : Env) (toks : List String) (accs : List (List DOp)) : Option (List Instr) :=
  (template env toks).bind (fun tm => instT tm accs)

/-! ## the wrappers: tokens of a `flushkv` / `debug` method ↦ its shape ↦ the code blocks of the model calls it makes

`extract-sync` prints the wrapper methods with the KVStore method names as call tokens (`Hive/Gen/C05_WrapSkel.lean`).
Shape: `HasBits` test + `if{ call X.accessCallback }if` ↦ `callback`; `call X.<field>.<M>` (optionally followed by the early
return `if{ return }if` on its error) ↦ `wrapped M`; `helper flushAfterMutation` ↦ `flush`. -/

inductive W
  | callback
  | wrapped (m : String)
  | flush
deriving DecidableEq, Repr

structure WEnv where
  recv : String                 -- receiver expression: "s" / "b"
  inner : List String           -- the fields that hold the wrapped object
  methods : List String         -- the method names of the wrapped interface

def wrappedName (env : WEnv) (t : String) : Option String :=
  env.inner.findSome? fun fld => env.methods.find? fun m => t == "call " ++ env.recv ++ "." ++ fld ++ "." ++ m

def wrapT (env : WEnv) : Nat → List String → Option (List W)
  | 0, _ => none
  | _ + 1, [] => some []
  | fuel + 1, t :: rest =>
    if t == "return" then (if rest.isEmpty then some [] else none)
    else if t == "call " ++ env.recv ++ ".accessCallbackCommandsFilter.HasBits" then
      match rest with
      | "if{" :: cb :: "}if" :: rest' =>
        if cb == "call " ++ env.recv ++ ".accessCallback" then (wrapT env fuel rest').map (.callback :: ·) else none
      | _ => none
    else if t == "helper flushAfterMutation" then (wrapT env fuel rest).map (.flush :: ·)
    else
      match wrappedName env t with
      | some m =>
        match rest with
        | "if{" :: "return" :: "}if" :: rest' => (wrapT env fuel rest').map (.wrapped m :: ·)
        | _ => (wrapT env fuel rest).map (.wrapped m :: ·)
      | none => none

def wrapShape (env : WEnv) (toks : List String) : Option (List W) := wrapT env (toks.length + 1) toks

/-- The code blocks of the model calls a wrapper method makes, given the code `base` of the wrapped call: the access callback
is a call of its own without instruction (block `[]`), the wrapped call is `base`, `flushAfterMutation` appends the dropped
flag load to the block of the call it follows (inside the same model call: it is skipped when that call's `check` fails). -/
def instW (base : List Instr) : List W → List (List Instr) → List (List Instr)
  | [], acc => acc.reverse
  | .callback :: rest, acc => instW base rest ([] :: acc)
  | .wrapped _ :: rest, acc => instW base rest (base :: acc)
  | .flush :: rest, blk :: acc => instW base rest ((blk ++ [.load]) :: acc)
  | .flush :: rest, [] => instW base rest [[.load]]

end Hive.KV.Conc.Asm
