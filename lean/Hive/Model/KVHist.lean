import Hive.Model.KVLin
/-!
# The recorded history of a trace of the C05 protocol model

What the harness would record of a run of the protocol model: one operation per linearisation
point (an access of a call; the closed-flag failure of a call; the flag swap of `Close`), stamped —
like the harness stamps calls with its atomic clock — with the position of the call's invocation
event and the position of its response event in the trace (`tr.length`, i.e. later than everything,
for a call that has not returned yet).  Core Lean only.
-/
namespace Hive.KV.Conc
open Hive.KV.Lin

def isInvOf (t i : Nat) : Ev → Bool
  | .inv t' i' _ => t' == t && i' == i
  | _ => false

def isRetOf (t i : Nat) : Ev → Bool
  | .ret t' i' _ => t' == t && i' == i
  | _ => false

def invPos (tr : List Ev) (t i : Nat) : Nat := tr.findIdx (isInvOf t i)
def retPos (tr : List Ev) (t i : Nat) : Nat := tr.findIdx (isRetOf t i)

def Ev.idx : Ev → Nat
  | .inv _ i _ | .lin _ i _ _ | .ret _ i _ => i

def Ev.isRet : Ev → Bool
  | .ret .. => true
  | _ => false

def isCloseLin : Ev → Bool
  | .lin _ _ .close _ => true
  | _ => false

/-- The recorded operation of a linearisation point.  A call that failed on the closed flag made no
access; which data operation it was is irrelevant to the contract (every data operation answers
`closed` on a closed store), it is recorded as a `Has`. -/
def linKind : LinAct → HKind
  | .eff a => .data a
  | .failClosed => .data (.has [])
  | .close => .close

def toHOp (whole : List Ev) : Ev → Option HOp
  | .lin t i a out => some { inv := invPos whole t i, ret := retPos whole t i, kind := linKind a, out := out }
  | _ => none

/-- The history of a trace, in the order of the linearisation points. -/
def histOf (tr : List Ev) : List HOp := tr.filterMap (toHOp tr)

/-- Operations that the full contract has to place after `Close`: `Close` itself and the calls
that answered ErrStoreClosed. -/
def _root_.Hive.KV.Lin.HOp.late (o : HOp) : Bool := o.kind == .close || o.out == .closed

end Hive.KV.Conc
