import Hive.Base.GoInt
/-!
# Further Go integer operators for the safemath translator (C19)

`Hive/Base/GoInt.lean` has `+ - * / << >> &` and negation.  The operators below are not used by safe_math.go as it
is, but by realistic rewrites of it (`^T(0)` for "all ones", `|` to combine operands, `%`, `&^`); having them lets the
translator regenerate the model for such a tree, so that the proofs are re-checked against *that* code and the driver
still answers the differential run.  All are validated against the raw Go operators (exhaustively for the 8-bit types)
by `raw` request lines.  Core Lean only.
-/
namespace Hive.GoInt
namespace IntTy

/-- the two's-complement representation of `x` as a natural number below `2^bits` -/
def repr (T : IntTy) (x : Int) : Nat := (x % T.modulus).toNat

/-- `x | y` -/
def or (T : IntTy) (x y : Int) : Int := T.wrap (Int.ofNat (Nat.lor (T.repr x) (T.repr y)))

/-- `x ^ y` -/
def xor (T : IntTy) (x y : Int) : Int := T.wrap (Int.ofNat (Nat.xor (T.repr x) (T.repr y)))

/-- `^x` (bitwise complement): `-x - 1` in two's complement, for both signednesses -/
def not (T : IntTy) (x : Int) : Int := T.wrap (-x - 1)

/-- `x &^ y` (bit clear) -/
def andNot (T : IntTy) (x y : Int) : Int := T.and x (T.not y)

/-- `x % y`: remainder of the truncated division (sign of the dividend); callers guarantee `y ≠ 0` -/
def rem (T : IntTy) (x y : Int) : Int := T.wrap (Int.tmod x y)

end IntTy
end Hive.GoInt
