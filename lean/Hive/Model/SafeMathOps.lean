import Hive.Base.GoInt
/-!
# Further Go integer operators for the safemath translator (C19)

`Hive/Base/GoInt.lean` has `+ - * / << >> &` and negation.  The operators below are not used by safe_math.go as it
is, but by realistic rewrites of it (`^T(0)` for "all ones", `|` to combine operands, `%`, `&^`); having them lets the
translator regenerate the model for such a tree, so that the proofs are re-checked against *that* code and the driver
still answers the differential run.  All are validated against the raw Go operators (exhaustively for the 8-bit types)
by `raw` request lines.  Core Lean only.
-/
namespace Hive.GoInt
namespace IntTy

/-- the two's-complement representation of `x` as a natural number below `2^bits` -/
def repr (T : IntTy) (x : Int) : Nat := (x % T.modulus).toNat

/-- `x | y` -/
def or (T : IntTy) (x y : Int) : Int := T.wrap (Int.ofNat (Nat.lor (T.repr x) (T.repr y)))

/-- `x ^ y` -/
def xor (T : IntTy) (x y : Int) : Int := T.wrap (Int.ofNat (Nat.xor (T.repr x) (T.repr y)))

/-- `^x` (bitwise complement): `-x - 1` in two's complement, for both signednesses -/
def not (T : IntTy) (x : Int) : Int := T.wrap (-x - 1)

/-- `x &^ y` (bit clear) -/
def andNot (T : IntTy) (x y : Int) : Int := T.and x (T.not y)

/-- `x % y`: remainder of the truncated division (sign of the dividend); callers guarantee `y ≠ 0` -/
def rem (T : IntTy) (x y : Int) : Int := T.wrap (Int.tmod x y)

end IntTy

/-! ## `math/bits` helpers and builtins that rewrites of safe_math.go use (translator subset, extension round 6)

`bits.Len*`, `bits.LeadingZeros*`, `bits.TrailingZeros*` (argument: the non-negative value of an unsigned type),
`bits.Add64` / `bits.Sub64` (sum and carry-out / difference and borrow-out), the builtins `min` / `max`.  Validated
against the real functions by `raw len64 / lz64 / tz64` and `raw64 add / sub` request lines. -/

/-- `bits.Len64(x)`: the number of bits needed to represent `x ≥ 0` (0 for 0) -/
def bitLen (x : Int) : Int := if x ≤ 0 then 0 else (Nat.log2 x.toNat : Int) + 1

/-- `bits.LeadingZeros<w>(x)` -/
def leadingZeros (w : Nat) (x : Int) : Int := (w : Int) - bitLen x

def trailingZerosAux : Nat → Nat → Nat
  | 0, _ => 0
  | fuel + 1, n => if n % 2 = 1 then 0 else trailingZerosAux fuel (n / 2) + 1

/-- `bits.TrailingZeros<w>(x)` (`w` for `x = 0`) -/
def trailingZeros (w : Nat) (x : Int) : Int := if x ≤ 0 then w else (trailingZerosAux w x.toNat : Int)

/-- `bits.Add64(x, y, carry)` = (sum, carryOut) -/
def add64 (x y c : Int) : Int × Int := ((x + y + c) % 2 ^ 64, (x + y + c) / 2 ^ 64)

/-- `bits.Sub64(x, y, borrow)` = (diff, borrowOut) -/
def sub64 (x y b : Int) : Int × Int := ((x - y - b) % 2 ^ 64, if x - y - b < 0 then 1 else 0)

/-- builtin `min` / `max` on integers -/
def imin (a b : Int) : Int := if a ≤ b then a else b
def imax (a b : Int) : Int := if a ≤ b then b else a

/-! ## `for` statements (translator subset)

A loop of a rewrite of safe_math.go (doubling `shift` times, shift-and-add multiplication, counting bits) becomes a
fuel-bounded iteration over the tuple of the variables it assigns.  The translator supplies 65536 as fuel: such loops are
bounded by a width or a `uint8` shift count; a loop that needs more answers `panic` (it would hang). -/

/-- answer of one iteration of a translated `for` statement -/
inductive LoopStep (σ ρ : Type) where
  | next (s : σ)
  | brk (s : σ)
  | ret (r : ρ)

/-- A `for` statement: iterate `step` from state `s`; `Sum.inl r` = the function returned `r` from inside the loop
(`onFuel` when the loop did not finish within `fuel` iterations), `Sum.inr s'` = the loop was left with state `s'`. -/
def loop {σ ρ : Type} (fuel : Nat) (onFuel : ρ) (step : σ → LoopStep σ ρ) (s : σ) : ρ ⊕ σ :=
  match fuel with
  | 0 => .inl onFuel
  | f + 1 =>
    match step s with
    | .next s' => loop f onFuel step s'
    | .brk s' => .inr s'
    | .ret r => .inl r

/-! ## Entry points of the generated module

A tree with a type switch over the type parameter (`switch any(x).(type) { case uint64: … }`) is translated with a module
variable `named_` ("the type argument is a defined type such as `type Amount uint64`, which no case over the predeclared types
matches"); the generic functions concerned then take it as their first argument.  The driver and the model search call the
generic functions through this adapter, which accepts both shapes. -/

class Entry2 (α : Type) where
  run : α → Bool → IntTy → Int → Int → Res Int

instance : Entry2 (IntTy → Int → Int → Res Int) := ⟨fun f _ => f⟩
instance : Entry2 (Bool → IntTy → Int → Int → Res Int) := ⟨fun f => f⟩

end Hive.GoInt
