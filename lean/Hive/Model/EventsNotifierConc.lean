import Hive.Conc.Sys
/-!
# The whole value notifier under any concurrency (C15): creation, Notify, Wait, Deregister, repeated values

`Hive/Model/EventsNotifier.lean` has all *sequential* histories with repeated values,
`Hive/Model/EventsNotifierRace.lean` all interleavings within *one* generation of listeners of one value.  This model
has both dimensions at once: any number of values, any number of listener generations per value, and any number of
concurrent `Listener(value)`, `Notify(value)`, `Deregister` and `Wait` callers.

Code ↔ model: the notifier's map `value ↦ *listener{channel, count}` is `cur` (value ↦ channel id) plus `counts`
(indexed by channel id; meaningful while the channel is current); channel ids are allocation indices.  Critical
sections under `Notifier.mutex` are single steps: `Listener` (join the current entry — `count++` — or allocate a new
channel with count 1), the read-locked `Has` of `Notify`, the write-locked part of `Notify` (close, delete),
`removeListener` (look the entry up by value, return unless it holds the caller's channel, `count--`, close and delete at
0).  `Listener.Deregister` = atomic `Swap` / close of the deregistered channel / `removeListener`; `Listener.Wait` = flag
load / `select` (notify channel closed, deregistered channel closed, or the context — which may be done at any time) /
re-check of the flag when the notify channel was chosen.

Ghost: `hit` of a listener is set exactly when a `Notify` for its value closes its channel while its `deregistered` flag
is unset, i.e. Notify was called after the listener was created and before it was deregistered.
-/
namespace Hive.NotifierConc
open Hive.Conc

structure Lst where
  value : Nat
  chan : Nat
  flag : Bool      -- deregistered
  dchan : Bool     -- deregisteredChan closed
  hit : Bool       -- ghost
deriving DecidableEq, Repr

structure Sh where
  cur : List (Nat × Nat)   -- the notifier's map: value ↦ channel of its current entry
  counts : List Nat        -- `count` of the entry of every channel ever allocated
  closed : List Nat        -- closed notify channels
  ls : List Lst            -- listeners in creation order (handle = index)
deriving DecidableEq, Repr

def init : Sh := { cur := [], counts := [], closed := [], ls := [] }

inductive Res
  | ok | dereg | ctx
deriving DecidableEq, Repr

inductive DPc
  | swap
  | close (c : Nat)     -- `c`: ghost, the listener's channel
  | remove (c : Nat)
  | fin
deriving DecidableEq, Repr

inductive Th
  | mk (v : Nat) (done : Bool)                   -- `Listener(v)`
  | ntCheck (v : Nat)                            -- `Notify(v)`: the read-locked `Has`
  | ntLock (v : Nat)                             -- `Notify(v)`: the write-locked part
  | ntFin
  | dr (i : Nat) (r : Option Res) (pc : DPc)     -- `Deregister` of listener `i` (`some r`: deferred call of a Wait returning `r`)
  | w0 (i : Nat) | w1 (i : Nat) | w2 (i : Nat)   -- `Wait` of listener `i`
deriving DecidableEq, Repr

def lookup (s : Sh) (v : Nat) : Option Nat := (s.cur.find? (fun p => p.1 == v)).map (·.2)

def setL (ls : List Lst) (i : Nat) (f : Lst → Lst) : List Lst :=
  match ls[i]? with
  | some l => ls.set i (f l)
  | none => ls

/-- `Notifier.Listener(v)`. -/
def create (s : Sh) (v : Nat) : Sh :=
  match lookup s v with
  | some c =>
    { s with counts := s.counts.set c (s.counts.getD c 0 + 1),
             ls := s.ls ++ [{ value := v, chan := c, flag := false, dchan := false, hit := false }] }
  | none =>
    { s with cur := s.cur ++ [(v, s.counts.length)], counts := s.counts ++ [1],
             ls := s.ls ++ [{ value := v, chan := s.counts.length, flag := false, dchan := false, hit := false }] }

/-- The write-locked part of `Notify(v)`. -/
def notify (s : Sh) (v : Nat) : Sh :=
  match lookup s v with
  | some c =>
    { s with closed := c :: s.closed, cur := s.cur.filter (fun p => p.1 != v),
             ls := s.ls.map (fun l => if l.chan == c && !l.flag then { l with hit := true } else l) }
  | none => s

/-- `removeListener(value, channel)`. -/
def remove (s : Sh) (v c : Nat) : Sh :=
  match lookup s v with
  | some c' =>
    if c' == c then
      if s.counts.getD c 0 == 1 then { s with closed := c :: s.closed, cur := s.cur.filter (fun p => p.1 != v) }
      else { s with counts := s.counts.set c (s.counts.getD c 0 - 1) }
    else s
  | none => s

def step (s : Sh) : Th → List (Sh × Th)
  | .mk v false => [(create s v, .mk v true)]
  | .mk _ true => []
  | .ntCheck v => if (lookup s v).isSome then [(s, .ntLock v)] else [(s, .ntFin)]
  | .ntLock v => [(notify s v, .ntFin)]
  | .ntFin => []
  | .dr i r .swap =>
    match s.ls[i]? with
    | some l => if l.flag then [(s, .dr i r .fin)]
                else [({ s with ls := s.ls.set i { l with flag := true } }, .dr i r (.close l.chan))]
    | none => [(s, .dr i r .fin)]
  | .dr i r (.close c) => [({ s with ls := setL s.ls i (fun l => { l with dchan := true }) }, .dr i r (.remove c))]
  | .dr i r (.remove c) =>
    match s.ls[i]? with
    | some l => [(remove s l.value c, .dr i r .fin)]
    | none => [(s, .dr i r .fin)]
  | .dr _ _ .fin => []
  | .w0 i =>
    match s.ls[i]? with
    | some l => if l.flag then [(s, .dr i (some .dereg) .fin)] else [(s, .w1 i)]
    | none => []
  | .w1 i =>
    match s.ls[i]? with
    | some l =>
      (if s.closed.contains l.chan then [(s, Th.w2 i)] else []) ++
      (if l.dchan then [(s, .dr i (some .dereg) .swap)] else []) ++
      [(s, .dr i (some .ctx) .swap)]
    | none => []
  | .w2 i =>
    match s.ls[i]? with
    | some l => if l.flag then [(s, .dr i (some .dereg) .swap)] else [(s, .dr i (some .ok) .swap)]
    | none => []

def sys : Sys Sh Th := { step := step }

def Th.initial : Th → Bool
  | .mk _ false => true
  | .ntCheck _ => true
  | .dr _ none .swap => true
  | .w0 _ => true
  | _ => false

/-! ## a variant for the witnesses: `Listener(v)` that looks the entry up under the read lock and uses it under the write lock -/

inductive ThS
  | base (t : Th)
  | mkStale (v : Nat) (seen : Option (Option Nat))   -- `none`: before the read-locked lookup; `some r`: its result
deriving DecidableEq, Repr

/-- joining the entry of channel `c` without looking it up again -/
def joinChan (s : Sh) (v c : Nat) : Sh :=
  { s with counts := s.counts.set c (s.counts.getD c 0 + 1),
           ls := s.ls ++ [{ value := v, chan := c, flag := false, dchan := false, hit := false }] }

def stepS (s : Sh) : ThS → List (Sh × ThS)
  | .base t => (step s t).map (fun p => (p.1, .base p.2))
  | .mkStale v none => [(s, .mkStale v (some (lookup s v)))]
  | .mkStale v (some (some c)) => [(joinChan s v c, .base (.mk v true))]
  | .mkStale v (some none) => [(create s v, .base (.mk v true))]

def sysS : Sys Sh ThS := { step := stepS }

/-! ## the `vn` lines on this model (sequentialised: every call runs to completion)

The driver runs the `vn` request lines of the harness (sections `vn`, `vc`, `vx`) on the sequential machine of
`EventsNotifier.lean` **and**, through these functions, on the concurrent model with every call run to its end before
the next one starts; the two answers must agree (and are compared with the real notifier's), which ties this model to
the code on every sequential history the harness executes. -/

/-- Run a thread to completion, taking the first successor at every step. -/
def runToEnd : Nat → Sh → Th → Sh
  | 0, s, _ => s
  | n + 1, s, t =>
    match step s t with
    | (s', t') :: _ => runToEnd n s' t'
    | [] => s

def resultOf : Th → String
  | .dr _ (some .ok) _ => "ok"
  | .dr _ (some .dereg) _ => "dereg"
  | .dr _ (some .ctx) _ => "ctx"
  | _ => "stuck"

def lineStep (s : Sh) (toks : List String) : Sh × String :=
  match toks with
  | ["listener", v] =>
    match v.toNat? with
    | some v => (runToEnd 2 s (.mk v false), s!"l{s.ls.length}")
    | none => (s, "bad-op")
  | ["notify", v] =>
    match v.toNat? with
    | some v => (runToEnd 3 s (.ntCheck v), "done")
    | none => (s, "bad-op")
  | ["dereg", h] =>
    match h.toNat? with
    | some h => if h < s.ls.length then (runToEnd 4 s (.dr h none .swap), "done") else (s, "nohandle")
    | none => (s, "bad-op")
  | ["wait", h, k] =>
    let ctx := if k == "cancelled" then "canceled" else if k == "timeout" || k == "short" then "deadline" else ""
    match h.toNat? with
    | none => (s, "bad-op")
    | some h =>
      if ctx == "" then (s, "bad-op")
      else if s.ls.length ≤ h then (s, "nohandle")
      else
        match step s (.w0 h) with
        | (s1, .w1 _) :: _ =>
          let succ := step s1 (.w1 h)
          -- the notify channel if it is ready (the harness gives a context that is not done then), else the context
          match succ.find? (fun p => p.2 == .w2 h) with
          | some (s2, _) =>
            match step s2 (.w2 h) with
            | (s3, t3) :: _ => (runToEnd 4 s3 t3, resultOf t3)
            | [] => (s2, "stuck")
          | none =>
            match succ.getLast? with
            | some (s2, t2) => (runToEnd 4 s2 t2, if resultOf t2 == "ctx" then ctx else resultOf t2)
            | none => (s1, "stuck")
        | (s1, t1) :: _ => (runToEnd 4 s1 t1, resultOf t1)
        | [] => (s, "stuck")
  | _ => (s, "bad-op")

/-! ## the forced schedules of the `vr` section on this model

`vr o<k> <event>… => <result>`: listener 0 and `k` further listeners of one value exist; the waiter of listener 0 has
passed its flag check and is parked before the `select`; the events (`dereg` of listener 0, `notify`, `cancel`,
`odereg` = the next other listener deregisters) run to completion one after the other; then the waiter is released.
The result must be one this model admits (the context may be done at any time in this model, so `canceled` is always
admitted here; the one-generation model of `EventsNotifierRace.lean` is the sharper judge of that). -/

def vrResults (s : Sh) : List String :=
  (step s (.w1 0)).flatMap fun (s1, t1) =>
    match t1 with
    | .w2 _ => (step s1 (.w2 0)).map (fun p => resultOf p.2)
    | t => [resultOf t]

def vrRun : Sh → Nat → List String → Option Sh
  | s, _, [] => some s
  | s, k, "dereg" :: r => vrRun (runToEnd 4 s (.dr 0 none .swap)) k r
  | s, k, "notify" :: r => vrRun (runToEnd 3 s (.ntCheck 7)) k r
  | s, k, "cancel" :: r => vrRun s k r
  | s, k, "odereg" :: r => vrRun (runToEnd 4 s (.dr (k + 1) none .swap)) (k + 1) r
  | _, _, _ => none

def checkVR (toks : List String) : String :=
  match toks with
  | o :: rest =>
    match (o.drop 1).toNat?, o.startsWith "o" with
    | some k, true =>
      let evs := rest.takeWhile (· != "=>")
      match rest.dropWhile (· != "=>") with
      | ["=>", res] =>
        let s0 := (List.range (k + 1)).foldl (fun s _ => runToEnd 2 s (.mk 7 false)) init
        match vrRun s0 0 evs with
        | some s =>
          let want := if res == "canceled" then "ctx" else res
          if (vrResults s).contains want then "accept" else "reject result-not-admitted-by-the-concurrent-model"
        | none => "bad-op"
      | _ => "bad-op"
    | _, _ => "bad-op"
  | _ => "bad-op"

end Hive.NotifierConc
