import Hive.Model.C12aMap
/-!
# Model of `shrinkingmap.ShrinkingMap` (ds/shrinkingmap/shrinkingmap.go) for C12

State = the Go map, the deletion counter `deletedKeys` and a ghost `alloc` (number of slots the Go
runtime keeps allocated for the map: Go maps never release memory, so it only grows until the map is
rebuilt).  `delete` counts the deletion, removes the key and rebuilds the map when `shouldShrink`
says so.  The step function takes the shrink decision as a *parameter* `sh deleted size`, so the
theorems quantify over every possible threshold rule; `shouldShrink` is the rule of the code
(ratio as a fraction `rnum/rden`, float32 rounding not modelled).

The abstract model is the plain map `AL Nat` with `specStep`.
-/
namespace Hive.C12a.Shrink

open Hive.C12a

/-- `Options`: ratio = `rnum / rden` (`rden > 0`; `rnum` may be negative or huge), count threshold
(an `int`: 0 = disabled, negative and `math.MaxInt` are legal values). -/
structure Opts where
  rnum : Int
  rden : Nat
  count : Int
deriving Repr, DecidableEq

/-- `shouldShrink()` with its early returns. -/
def shouldShrink (o : Opts) (deleted size : Nat) : Bool :=
  if ¬ (o.rnum ≠ 0 ∨ o.count ≠ 0) then false
  else if o.rnum ≠ 0 ∧ size = 0 then false
  else if o.rnum ≠ 0 ∧ ((deleted * o.rden : Nat) : Int) < o.rnum * (size : Int) then false
  else if o.count ≠ 0 ∧ (deleted : Int) < o.count then false
  else true

structure St where
  m : AL Nat
  deleted : Nat
  alloc : Nat      -- ghost
deriving Repr

def init : St := { m := [], deleted := 0, alloc := 0 }

inductive Op
  | set (k v : Nat)
  | get (k : Nat)
  | goc (k v : Nat)            -- GetOrCreate with a function returning v
  | compute (k d : Nat)        -- Compute with f(cur, exists) = if exists then cur + d else d
  | has (k : Nat)
  | del (k : Nat)
  | delif (k : Nat) (c : Bool) -- Delete(k, func() bool { return c })
  | delret (k : Nat)
  | pop (c : Nat)              -- Pop; `c` resolves "first key of the map iteration"
  | keys | values | size | isEmpty | asMap
  | clear | shrink
  | forEachN (n : Nat)         -- ForEach / ForEachKey with a callback that stops after n visits
  | forEachDel (keysOnly : Bool) -- ForEach / ForEachKey whose first callback deletes every key
deriving Repr, DecidableEq

inductive Out
  | ok
  | bool (b : Bool)
  | val (v : Option Nat)
  | valb (v : Nat) (b : Bool)
  | nat (n : Nat)
  | list (l : List Nat)
  | pairs (l : List (Nat × Nat))
  | popped (r : Option (Nat × Nat))
deriving Repr, DecidableEq

/-- `shrink()`: copy into a fresh map, reset the counter. -/
def rebuild (s : St) : St := { m := s.m, deleted := 0, alloc := s.m.length }

/-- `delete(key)` (unexported, no locking). -/
def delete (sh : Nat → Nat → Bool) (s : St) (k : Nat) : St × Bool :=
  if AL.has s.m k then
    let s1 : St := { s with m := AL.del s.m k, deleted := s.deleted + 1 }
    if sh s1.deleted s1.m.length then (rebuild s1, true) else (s1, true)
  else (s, false)

def store (s : St) (k v : Nat) : St :=
  let m' := AL.set s.m k v
  { s with m := m', alloc := max s.alloc m'.length }

/-- The key `Pop` meets first: an arbitrary position of the iteration. -/
def pick (m : AL Nat) (c : Nat) : Option (Nat × Nat) := m[c % m.length]?

/-- `Delete` called once per key of `ks` (from inside a callback: the lock is free there). -/
def deleteAll (sh : Nat → Nat → Bool) (s : St) (ks : List Nat) : St :=
  ks.foldl (fun s k => (delete sh s k).1) s

/-- Visits of an iteration whose callback answers `visits < n`: the callback always runs once on a
non-empty snapshot, never more often than there are entries. -/
def visits (n size : Nat) : Nat := min (max n 1) size

def step (sh : Nat → Nat → Bool) (s : St) : Op → St × Out
  | .forEachN n => (s, .nat (visits n s.m.length))
  -- `ForEach`/`ForEachKey` copy the entries under the read lock and call back without it: the
  -- callback may delete everything and the iteration still visits the whole snapshot
  | .forEachDel ko => (deleteAll sh s (AL.keys s.m), if ko then .list (AL.keys s.m) else .pairs s.m)
  | .set k v => (store s k v, .bool (!AL.has s.m k))
  | .get k => (s, .val (AL.get s.m k))
  | .goc k v =>
    match AL.get s.m k with
    | some x => (s, .valb x false)
    | none => (store s k v, .valb v true)
  | .compute k d =>
    let nv := match AL.get s.m k with | some x => x + d | none => d
    (store s k nv, .nat nv)
  | .has k => (s, .bool (AL.has s.m k))
  | .del k => let (s', b) := delete sh s k; (s', .bool b)
  | .delif k c => if c then (let (s', b) := delete sh s k; (s', .bool b)) else (s, .bool false)
  | .delret k =>
    match AL.get s.m k with
    | some x => ((delete sh s k).1, .val (some x))
    | none => (s, .val none)
  | .pop c =>
    match pick s.m c with
    | some (k, v) => ((delete sh s k).1, .popped (some (k, v)))
    | none => (s, .popped none)
  | .keys => (s, .list (AL.keys s.m))
  | .values => (s, .list (s.m.map (·.2)))
  | .size => (s, .nat s.m.length)
  | .isEmpty => (s, .bool (s.m.length == 0))
  | .asMap => (s, .pairs s.m)
  | .clear => ({ m := [], deleted := 0, alloc := 0 }, .ok)
  | .shrink => (rebuild s, .ok)

def run (sh : Nat → Nat → Bool) (s : St) : List Op → St × List Out
  | [] => (s, [])
  | op :: ops =>
    let r := step sh s op
    let r' := run sh r.1 ops
    (r'.1, r.2 :: r'.2)

/-! ## abstract model: a plain map -/

def specStep (m : AL Nat) : Op → AL Nat × Out
  | .forEachN n => (m, .nat (visits n m.length))
  | .forEachDel ko => ((AL.keys m).foldl AL.del m, if ko then .list (AL.keys m) else .pairs m)
  | .set k v => (AL.set m k v, .bool (!AL.has m k))
  | .get k => (m, .val (AL.get m k))
  | .goc k v =>
    match AL.get m k with
    | some x => (m, .valb x false)
    | none => (AL.set m k v, .valb v true)
  | .compute k d =>
    let nv := match AL.get m k with | some x => x + d | none => d
    (AL.set m k nv, .nat nv)
  | .has k => (m, .bool (AL.has m k))
  | .del k => (AL.del m k, .bool (AL.has m k))
  | .delif k c => if c then (AL.del m k, .bool (AL.has m k)) else (m, .bool false)
  | .delret k => (AL.del m k, .val (AL.get m k))
  | .pop c =>
    match pick m c with
    | some (k, v) => (AL.del m k, .popped (some (k, v)))
    | none => (m, .popped none)
  | .keys => (m, .list (AL.keys m))
  | .values => (m, .list (m.map (·.2)))
  | .size => (m, .nat m.length)
  | .isEmpty => (m, .bool (m.length == 0))
  | .asMap => (m, .pairs m)
  | .clear => ([], .ok)
  | .shrink => (m, .ok)

def specRun (m : AL Nat) : List Op → AL Nat × List Out
  | [] => (m, [])
  | op :: ops =>
    let r := specStep m op
    let r' := specRun r.1 ops
    (r'.1, r.2 :: r'.2)

/-! ## line protocol (`shrink …`) -/
open Hive.Proto

structure DSt where
  o : Opts
  s : St
deriving Repr

def dinit : DSt := { o := ⟨0, 1, 0⟩, s := init }

def showOut : Out → String
  | .ok => "ok"
  | .bool b => showBool b
  | .val v => showOptVal v
  | .valb v b => s!"{v} {showBool b}"
  | .nat n => toString n
  | .list l => showNatList (sortNat l)
  | .pairs l => showPairs (sortPairs l)
  | .popped none => "none"
  | .popped (some (_, v)) => toString v

def parseOp (m : AL Nat) : List String → Option Op
  | ["set", k, v] => do pure (.set (← k.toNat?) (← v.toNat?))
  | ["get", k] => do pure (.get (← k.toNat?))
  | ["goc", k, v] => do pure (.goc (← k.toNat?) (← v.toNat?))
  | ["compute", k, d] => do pure (.compute (← k.toNat?) (← d.toNat?))
  | ["has", k] => do pure (.has (← k.toNat?))
  | ["del", k] => do pure (.del (← k.toNat?))
  | ["delif", k, c] => do pure (.delif (← k.toNat?) (← parseBool c))
  | ["delret", k] => do pure (.delret (← k.toNat?))
  | ["pop", "-"] => if m.isEmpty then some (.pop 0) else none
  | ["pop", k] => do
      -- the implementation reported which key its iteration met first; find a choice that meets it
      let k ← k.toNat?
      let i := (AL.keys m).idxOf k
      if i < m.length then pure (.pop i) else none
  | ["keys"] => some .keys
  | ["foreachkey"] => some .keys
  | ["values"] => some .values
  | ["size"] => some .size
  | ["isempty"] => some .isEmpty
  | ["asmap"] => some .asMap
  | ["foreach"] => some .asMap
  | ["clear"] => some .clear
  | ["shrink"] => some .shrink
  | ["foreachn", n] => do pure (.forEachN (← n.toNat?))
  | ["foreachkeyn", n] => do pure (.forEachN (← n.toNat?))
  | ["foreachdel"] => some (.forEachDel false)
  | ["foreachkeydel"] => some (.forEachDel true)
  | _ => none

/-- White-box state printed after every answer: `deletedKeys` and `len(m)`. -/
def showState (d : DSt) : String := s!"d{d.s.deleted} n{d.s.m.length}"

def stepLine (d : DSt) (toks : List String) : DSt × String :=
  match toks with
  | ["new", "default"] => ({ o := ⟨10, 1, 100⟩, s := init }, "ok")   -- `New()` without options
  -- IEEE specials of the float32 ratio, as what they do to `shouldShrink`: `x < NaN` and `x < -Inf` are false for
  -- every x (the ratio test never blocks, and `NaN != 0.0` holds) -- the behaviour of a negative ratio;
  -- `x < +Inf` is true for every finite x (the ratio test always blocks) -- the ratio `1/0` of the fraction model
  | ["new", "nan", c] | ["new", "-inf", c] =>
    match c.toInt? with | some c => ({ o := ⟨-1, 1, c⟩, s := init }, "ok") | none => (d, "bad-op")
  | ["new", "+inf", c] =>
    match c.toInt? with | some c => ({ o := ⟨1, 0, c⟩, s := init }, "ok") | none => (d, "bad-op")
  | ["new", a, b, c] =>
    match a.toInt?, b.toNat?, c.toInt? with
    | some a, some b, some c => if b = 0 then (d, "bad-op") else ({ o := ⟨a, b, c⟩, s := init }, "ok")
    | _, _, _ => (d, "bad-op")
  | ["deleted"] => (d, toString d.s.deleted)   -- white-box observation of `deletedKeys`
  | _ =>
    match parseOp d.s.m toks with
    | some op => let r := step (shouldShrink d.o) d.s op; ({ d with s := r.1 }, showOut r.2)
    | none => (d, "bad-op")

end Hive.C12a.Shrink
