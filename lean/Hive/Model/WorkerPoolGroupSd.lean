import Hive.Model.WorkerPoolGroup
/-!
# `workerpool.Group` shutdown for C16: `Group.Shutdown` / `Group.shutdown` / `isShutdown` on top of the counter tree

`Group.Shutdown()` = `PendingChildrenCounter.WaitIsZero(); shutdown()`, and
`shutdown()` = `if isShutdown.Swap(true) { return }; pools.ForEach(pool.Shutdown()); groups.ForEach(group.shutdown())`.

The flag is set FIRST, the pools are stopped one after the other afterwards: between the two, a pool of the group
is still running and accepts tasks.  The subscriptions `CreatePool` / `CreateGroup` install do not look at the flag —
a task accepted in that window moves the pool's counter and, through the chain, every group above it, exactly as
before the shutdown.  So the state is the counter tree plus one flag per node (`shut`): for a group `isShutdown`,
for a pool "its group's shutdown has called `Shutdown()` on it" (a stopped pool rejects `Submit`: its counter can
only go down).  The steps of a shutdown are separate operations (`flag`, `stop`) that interleave freely with
`inc` / `dec` / `newPool` / `newGroup` — and `shutdown g` is one complete, uninterrupted `Group.Shutdown()` call.

`restart q` (round 6): nothing keeps a user from calling `Start()` on a pool that a group shutdown has stopped; the pool
runs again (its group's flag stays set, so a later `Group.Shutdown` of that group returns at once and does not stop it
again).  The subscriptions are untouched, so the counter tree stays exact (`C16_group_shutdown_wait` quantifies over
scripts with restarts); the "never reset" / "only drains" theorems hold for scripts that do not restart that pool.

Corners of the code that the model keeps: a group whose flag is already set returns at once *without* visiting its
children (so a pool created in a group after that group's shutdown keeps running, also through a later shutdown of
a parent); `CreatePool` / `CreateGroup` on a flagged group work as on any other.
-/
namespace Hive.WPG

structure GS where
  tree : Tree := []
  shut : List Bool := []
deriving DecidableEq, Repr

def isShut (s : GS) (i : Nat) : Bool := (s.shut[i]?).getD false

def parentOf (t : Tree) (i : Nat) : Option Nat := (t[i]?).bind (·.parent)

inductive SOp
  | base (o : Op)
  | flag (g : Nat)      -- `Group.shutdown`: `isShutdown.Swap(true)`
  | stop (q : Nat)      -- `pool.Shutdown()` inside its group's `shutdown` loop
  | shutdown (g : Nat)  -- a whole `Group.Shutdown()` call, uninterrupted
  | restart (q : Nat)   -- `pool.Start()` by the user on a pool that a group shutdown has stopped: it accepts tasks again
deriving DecidableEq, Repr

/-- The operation restarts pool `j`. -/
def SOp.restarts (j : Nat) : SOp → Bool
  | .restart q => q == j
  | _ => false

/-- Enabledness.  `flag g`: any group (a direct `Group.Shutdown()` whose wait has passed — the counter may have moved
again since —, or the recursion from the parent).  `stop q`: only from the loop of its flagged group.
`shutdown g`: the call gets past `WaitIsZero` only with a zero counter. -/
def SOp.ok (s : GS) : SOp → Bool
  | .base o => o.ok s.tree
  | .flag g => isGroup s.tree g
  | .stop q => isPoolAt s.tree q && (match parentOf s.tree q with | some g => isShut s g | none => false)
  | .shutdown g => isGroup s.tree g && val s.tree g == 0
  | .restart q => isPoolAt s.tree q && isShut s q

/-- One node of the pass of `Group.shutdown` in index order (a parent's index is below its children's).
`st.1` = the groups whose `shutdown()` body runs in this call, `st.2` = the flags. -/
def sdVisit (t : Tree) (st : List Nat × List Bool) (i : Nat) : List Nat × List Bool :=
  match t[i]? with
  | none => st
  | some n =>
    match n.parent with
    | none => st
    | some p =>
      if st.1.contains p then
        if n.isPool then (st.1, st.2.set i true)              -- pool.Shutdown()
        else if (st.2[i]?).getD false then st                 -- group.shutdown(): Swap(true) was true: return
        else (i :: st.1, st.2.set i true)                     -- group.shutdown(): flag, then its own children
      else st

def shutdownAll (s : GS) (g : Nat) : GS :=
  if isShut s g then s
  else { s with shut := ((List.range s.tree.length).foldl (sdVisit s.tree) ([g], s.shut.set g true)).2 }

def stepS (s : GS) : SOp → GS
  | .base (.inc q) => if isShut s q then s else { s with tree := step s.tree (.inc q) }   -- a stopped pool rejects
  | .base (.dec q) => { s with tree := step s.tree (.dec q) }
  | .base o => { tree := step s.tree o, shut := s.shut ++ [false] }
  | .flag g => { s with shut := s.shut.set g true }
  | .stop q => { s with shut := s.shut.set q true }
  | .shutdown g => shutdownAll s g
  | .restart q => { s with shut := s.shut.set q false }   -- the group's own flag stays set: no later Group.Shutdown stops q

def runS (s : GS) : List SOp → GS
  | [] => s
  | op :: ops => if op.ok s then runS (stepS s op) ops else runS s ops

/-- The counters on the parent chain from `i` up to its root (what an observer can read while another pool of the
tree is in the middle of a counter update). -/
def chainVals : Nat → Tree → Nat → List Nat
  | 0, _, _ => []
  | fuel + 1, t, i =>
    match t[i]? with
    | none => []
    | some n =>
      match n.parent with
      | none => [n.value]
      | some p => n.value :: chainVals fuel t p

/-- `Group.Root()`: every group created by `CreateGroup` stores its parent's root. -/
def rootOf : Nat → Tree → Nat → Nat
  | 0, _, i => i
  | fuel + 1, t, i =>
    match parentOf t i with
    | some p => rootOf fuel t p
    | none => i

/-- `Group.WaitParents()` = `Root().WaitChildren()`. -/
def waitParentsReturns (t : Tree) (g : Nat) : Bool := waitChildrenReturns t (rootOf t.length t g)

/-- `len(Group.Pools())`: the pools at any depth below the group. -/
def poolsBelow (t : Tree) (g : Nat) : Nat :=
  ((List.range t.length).filter (fun q => isPoolAt t q && below t.length t g q)).length

end Hive.WPG
