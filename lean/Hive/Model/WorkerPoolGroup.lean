/-!
# Model of `workerpool.Group` (group.go) for C16: the tree of pending counters

A node is a pool (its value is the pool's `PendingTasksCounter`) or a group (its value is the group's
`PendingChildrenCounter`).  `CreatePool` / `CreateGroup` subscribe the parent group to the child's
counter: `if oldValue == 0 { parent.Increase() } else if newValue == 0 { parent.Decrease() }`.

`Counter.Update` runs its subscribers while holding the counter's value mutex, and the subscriber
takes the parent's value mutex: the whole chain pool → group → … → root is nested critical sections,
released top-down, so every observer sees either all or none of it.  The chain is therefore ONE
atomic operation of the model (`bump`), and any interleaving of pools' increases and decreases is a
sequence of such operations.
-/
namespace Hive.WPG

structure Node where
  parent : Option Nat   -- the group this node was created in (`none` for a root group)
  isPool : Bool
  value : Nat
deriving DecidableEq, Repr

abbrev Tree := List Node

def val (t : Tree) (i : Nat) : Nat := (t[i]?.map (·.value)).getD 0

def setVal (t : Tree) (i : Nat) (v : Nat) : Tree :=
  match t[i]? with
  | some n => t.set i { n with value := v }
  | none => t

/-- `Counter.Update(±1)` at node `i` followed by the subscriber chain. -/
def bump : Nat → Tree → Nat → Bool → Tree
  | 0, t, _, _ => t
  | fuel + 1, t, i, up =>
    match t[i]? with
    | none => t
    | some n =>
      let new := if up then n.value + 1 else n.value - 1
      let t' := t.set i { n with value := new }
      match n.parent with
      | none => t'
      | some g =>
        if n.value = 0 then bump fuel t' g true          -- oldValue == 0  → parent.Increase()
        else if new = 0 then bump fuel t' g false        -- newValue == 0  → parent.Decrease()
        else t'

inductive Op
  | newGroup (parent : Option Nat)
  | newPool (parent : Nat)
  | inc (pool : Nat)     -- a task was accepted by the pool
  | dec (pool : Nat)     -- a task of the pool finished
deriving DecidableEq, Repr

def isGroup (t : Tree) (g : Nat) : Bool := (t[g]?.map (fun n => !n.isPool)).getD false
def isPoolAt (t : Tree) (q : Nat) : Bool := (t[q]?.map (·.isPool)).getD false

/-- Operations the pools can actually issue: parents are existing groups, counters of pools are only
decreased when positive (C16_conservation: a decrease belongs to an accepted, unfinished task). -/
def Op.ok (t : Tree) : Op → Bool
  | .newGroup none => true
  | .newGroup (some g) => isGroup t g
  | .newPool g => isGroup t g
  | .inc q => isPoolAt t q
  | .dec q => isPoolAt t q && decide (0 < val t q)

def step (t : Tree) : Op → Tree
  | .newGroup p => t ++ [{ parent := p, isPool := false, value := 0 }]
  | .newPool g => t ++ [{ parent := some g, isPool := true, value := 0 }]
  | .inc q => bump (q + 1) t q true
  | .dec q => bump (q + 1) t q false

def run (t : Tree) : List Op → Tree
  | [] => t
  | op :: ops => if op.ok t then run (step t op) ops else run t ops

/-- `q` lies below group `g`: `g` is on the parent chain of `q`. -/
def below : Nat → Tree → Nat → Nat → Bool
  | 0, _, _, _ => false
  | fuel + 1, t, g, q =>
    match t[q]? with
    | none => false
    | some n =>
      match n.parent with
      | none => false
      | some p => p == g || below fuel t g p

/-- `Group.WaitChildren()` returns iff the group's counter is zero (`Counter.WaitIsZero`). -/
def waitChildrenReturns (t : Tree) (g : Nat) : Bool := val t g == 0

/-! ## user subscribers of a counter (`Counter.Subscribe` on a pool's `PendingTasksCounter` / a group's
`PendingChildrenCounter`): an observer is handed every change `(old, new)` of that counter, in order, from its
subscription until it unsubscribes. -/

structure Sub where
  node : Nat
  active : Bool
  stream : List (Nat × Nat)
deriving DecidableEq, Repr

/-- one more observation: nothing is reported when the value did not change -/
def recStep (st : List (Nat × Nat)) (o n : Nat) : List (Nat × Nat) := if o = n then st else st ++ [(o, n)]

/-- what the active subscribers see when the tree goes from `t` to `t'` -/
def observe (t t' : Tree) (subs : List Sub) : List Sub :=
  subs.map (fun sb => if sb.active then { sb with stream := recStep sb.stream (val t sb.node) (val t' sb.node) } else sb)

/-- the stream a subscriber records over the successive values `vs` of its counter, starting at `v0` -/
def recRun : Nat → List Nat → List (Nat × Nat) → List (Nat × Nat)
  | _, [], st => st
  | v, w :: ws, st => recRun w ws (recStep st v w)

/-- **the subscriber monitor**: the reported pairs chain up from the value at subscription time — every `old` is the
previous `new` — and end at `cur`; hence `v0 + Σ (new − old) = cur` (the fold of the deltas is the counter). -/
def streamOk : Nat → Nat → List (Nat × Nat) → Bool
  | v, cur, [] => v == cur
  | v, cur, (o, n) :: rest => o == v && o != n && streamOk n cur rest

def showStream (st : List (Nat × Nat)) : String :=
  "[" ++ " ".intercalate (st.map (fun p => s!"{p.1}>{p.2}")) ++ "]"

end Hive.WPG
