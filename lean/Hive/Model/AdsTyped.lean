import Hive.Model.Ads
/-!
# The typed surface of `ads.Map[IdentifierType, K, V]` (C09): where keys and values pass through the serializers

The sequential model `step` works on *stored* keys and values (`Op.set (k : Option Key)` is what `keyToBytes`
returned).  This file is the layer above it, as the code is written:

* `Set(key, value)`: `valueToBytes(value)` first, then `keyToBytes(key)` (either may fail);
* `Get / Has / Delete(key)`: `keyToBytes(key)`; `Get` decodes what the trie holds with `bytesToValue` and insists
  that everything was consumed;
* `Stream`: `rawKeysStore.IterateKeys` — `kvstore.TypedStore` hands every **raw key through `bytesToKey`** and ends
  the iteration with that error when one does not decode —, then **`keyToBytes` of the decoded key again** (an error
  ends the stream), `tree.Get` of *those* bytes, `bytesToValue` (consumed count ignored), callback.

Nothing is assumed about the four functions here; `Hive/Proofs/AdsTyped.lean` shows that for serializers that
round-trip the typed map is a plain map `K → Option V` and `Stream` is the decoded stream of the sequential model.
-/
namespace Hive.Ads

/-- The key and value serializers handed to the constructor. -/
structure KVCodec (K V : Type) where
  /-- `keyToBytes` (`none`: error) -/
  kenc : K → Option Key
  /-- `bytesToKey` (`none`: error), used by the raw-key store's `IterateKeys` -/
  kdec : Key → Option K
  /-- `valueToBytes` (`none`: error; a nil slice is stored as the empty value) -/
  venc : V → Option Val
  /-- `bytesToValue`: the object and the number of bytes consumed (`none`: error) -/
  vdec : Val → Option (V × Nat)

inductive TyOp (K V : Type)
  | set (k : K) (v : V)
  | get (k : K)
  | has (k : K)
  | del (k : K)
  | size
  | stream (stop : StopAfter)
  | commit
  | root
  | restored
  | reopen

inductive TyStreamEnd
  | ok
  | errCb       -- the callback returned an error
  | errDec      -- a value did not decode
  | errKeyDec   -- a raw key did not decode (`TypedStore.IterateKeys`)
  | errKeyEnc   -- a decoded raw key did not encode again
deriving DecidableEq, Repr

inductive TyOut (K V R : Type)
  /-- an answer that carries no typed object -/
  | out (o : Out R)
  | found (v : V)
  | streamed (ps : List (K × V)) (e : TyStreamEnd)

variable {K V R : Type}

/-- What `Get` makes of `bytesToValue`. -/
def KVCodec.dec (cd : KVCodec K V) : Val → Dec := fun b =>
  match cd.vdec b with
  | none => .fail
  | some (_, n) => if n = b.length then .ok else .short

/-- The call on the stored level. -/
def encOp (cd : KVCodec K V) : TyOp K V → Op
  | .set k v => .set (cd.kenc k) (cd.venc v)
  | .get k => .get (cd.kenc k)
  | .has k => .has (cd.kenc k)
  | .del k => .del (cd.kenc k)
  | .size => .size
  | .stream n => .stream n
  | .commit => .commit
  | .root => .root
  | .restored => .restored
  | .reopen => .reopen

/-- The loop of `Stream` as written: raw key → `bytesToKey` → `keyToBytes` → `tree.Get` → `bytesToValue` → callback. -/
def tstreamGo (cd : KVCodec K V) (t : Trie) (stop : StopAfter) : List Key → List (K × V) → List (K × V) × TyStreamEnd
  | [], seen => (seen.reverse, .ok)
  | raw :: ks, seen =>
    match cd.kdec raw with
    | none => (seen.reverse, .errKeyDec)
    | some k =>
      match cd.kenc k with
      | none => (seen.reverse, .errKeyEnc)
      | some kb =>
        match cd.vdec ((t.get kb).getD []) with
        | none => (seen.reverse, .errDec)
        | some (v, _) =>
          let seen' := (k, v) :: seen
          if seen'.length = stop then (seen'.reverse, .errCb) else tstreamGo cd t stop ks seen'

/-- The typed answer, from the state before the call and the answer on the stored level. -/
def tout (cd : KVCodec K V) (s : St R) (op : TyOp K V) (o : Out R) : TyOut K V R :=
  match op with
  | .stream n => let r := tstreamGo cd s.trie n s.rawKeys []; .streamed r.1 r.2
  | .get _ =>
    match o with
    | .found vb =>
      match cd.vdec vb with
      | some (v, _) => .found v
      | none => .out .errDec
    | o => .out o
  | _ => .out o

/-- One call on the typed surface. -/
def tstep (c : Cfg R) (cd : KVCodec K V) (s : St R) (op : TyOp K V) : St R × TyOut K V R :=
  let r := step { c with dec := cd.dec } s (encOp cd op)
  (r.1, tout cd s op r.2)

def tfinal (c : Cfg R) (cd : KVCodec K V) (s : St R) (ops : List (TyOp K V)) : St R :=
  ops.foldl (fun s op => (tstep c cd s op).1) s

/-- The plain typed map: only `Set` / `Delete` whose serializers succeed change it. -/
def tapply [DecidableEq K] (cd : KVCodec K V) (m : K → Option V) : TyOp K V → (K → Option V)
  | .set k v => if (cd.kenc k).isSome && (cd.venc v).isSome then fun k' => if k' = k then some v else m k' else m
  | .del k => if (cd.kenc k).isSome then fun k' => if k' = k then none else m k' else m
  | _ => m

def tspec [DecidableEq K] (cd : KVCodec K V) (ops : List (TyOp K V)) : K → Option V :=
  ops.foldl (tapply cd) (fun _ => none)

/-- The set flavour (`ads.Set[IdentifierType, K]` = the map with `V = types.Empty`): `types.Empty.Bytes` encodes to the
empty slice, `types.EmptyFromBytes` decodes anything to `Void` consuming 0 bytes; `Add(k)` is `Set(k, Void)`. -/
def setCodec (kenc : K → Option Key) (kdec : Key → Option K) : KVCodec K Unit :=
  { kenc := kenc, kdec := kdec, venc := fun _ => some [], vdec := fun _ => some ((), 0) }

end Hive.Ads
