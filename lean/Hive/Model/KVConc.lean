import Hive.Conc.Sys
import Hive.Spec.KV
/-!
# Protocol model of concurrent use of `kvstore/mapdb` (C05)

Any number of goroutines, each with an arbitrary script of calls on views of one store.  A call is
compiled to the sequence of synchronisation-relevant instructions the code executes
(`kvstore/mapdb/mapdb.go`, `synced_map.go`):

* `Get/Has`: `closed.Load()`; view `RLock`; map `RLock`; read; map `RUnlock`; view `RUnlock`
* `Set/Delete/DeletePrefix/Clear`: `closed.Load()`; view `Lock`; map `Lock`; write; map `Unlock`; view `Unlock`
* `Iterate/IterateKeys`: `closed.Load()`; map `RLock`; snapshot; map `RUnlock` (no view lock; the
  consumer runs afterwards, outside every lock, on the snapshot)
* batch `Commit`: `closed.Load()`; batch `Lock`; view `Lock`; per write {map `Lock`; write; map `Unlock`};
  batch `Unlock`; view `Unlock` (the two `defer`s run in this order)
* `Close`: `closed.Swap(true)`
* `WithRealm/WithExtendedRealm/Batched/Flush`: `closed.Load()` only (ghost access `nop`); a new view / batch object has
  its own zero-valued lock: every `LockId` starts `RW.free` and stays free while nobody uses it
* batch `Set/Delete/Cancel`: batch `Lock`; private maps; batch `Unlock` (no flag load)
* the **flushkv wrapper** (`kvstore/flushkv`): a mutator `Set/Delete/DeletePrefix/Clear` / batch `Commit` is the wrapped
  mutator — when that fails the call returns its error at once — followed by `flushAfterMutation`, i.e. the wrapped store's
  `Flush()` = one more `closed.Load()` whose ErrStoreClosed is *dropped* (fix b5d5462): instruction `load`.  Everything else
  of flushkv forwards (the wrapped call itself).
* the **debug wrapper** (`kvstore/debug`): the access callback runs *before* the wrapped call, outside every lock, and is
  user code: modelled as a call of its own of the same goroutine (`callback`, no instruction) — followed in the script by
  the wrapped call; what the callback itself does with the store is further calls of that goroutine.

Every access to the shared map is ONE atomic effect (`DOp.apply`) of the C04 specification's
ordered map.  `sync.RWMutex` has writer preference: `Lock` first announces itself (`pending`), then
waits for `¬writer ∧ readers = 0`; `RLock` waits for `¬writer ∧ pending = 0`.  `sync.Mutex` (batch) is
an `RW` used in write mode only.

Ghost state: the global event trace `tr` (oldest first) of invocations, linearisation points and
responses.  Core Lean only.
-/
namespace Hive.KV.Conc
open Hive.Conc

/-! ## atomic accesses to the shared map -/

/-- One access to the shared ordered map, on full keys. -/
inductive DOp
  | get (fk : Bytes)
  | has (fk : Bytes)
  | set (fk v : Bytes)
  | del (fk : Bytes)
  | delp (fp : Bytes)
  | iter (fp : Bytes) (strip : Nat) (d : Dir) (stop : Nat)
  | iterk (fp : Bytes) (strip : Nat) (d : Dir) (stop : Nat)
  /-- no access at all: the linearisation point of a call that only loads the closed flag and found it clear
  (`WithRealm`, `WithExtendedRealm`, `Batched`, `Flush`) -/
  | nop
deriving DecidableEq, Repr

def DOp.isWrite : DOp → Bool
  | .set .. | .del .. | .delp .. => true
  | _ => false

/-- The effect and answer of one access, in terms of the C04 specification's ordered map. -/
def DOp.apply : DOp → AList → AList × Out
  | .get fk, m => (m, match Spec.lookup fk m with | none => .notfound | some x => .val x)
  | .has fk, m => (m, .bool (Spec.lookup fk m).isSome)
  | .set fk v, m => (Spec.insert fk v m, .ok)
  | .del fk, m => (Spec.erase fk m, .ok)
  | .delp fp, m => (Spec.erasePfx fp m, .ok)
  | .iter fp strip d stop, m => (m, .kvs (Spec.iterate fp strip d stop m))
  | .iterk fp strip d stop, m => (m, .keys ((Spec.iterate fp strip d stop m).map (·.1)))
  | .nop, m => (m, .ok)

/-- Does the access touch the shared map (and therefore need the map lock)? -/
def DOp.touchesMap : DOp → Bool
  | .nop => false
  | _ => true

/-! ## locks -/

inductive LockId
  | map                 -- syncedKVMap.RWMutex
  | view (n : Nat)      -- mapDB.RWMutex of view object n
  | batch (n : Nat)     -- batchedMutations.Mutex of batch object n
deriving DecidableEq, Repr

/-- Acquisition order of the code: batch, then view, then map. -/
def rank : LockId → Nat
  | .batch _ => 0
  | .view _ => 1
  | .map => 2

structure RW where
  writer : Bool
  readers : Nat
  pending : Nat     -- goroutines inside `Lock()` that have announced themselves and wait
deriving DecidableEq, Repr

def RW.free : RW := { writer := false, readers := 0, pending := 0 }

/-! ## calls and their instruction sequences -/

inductive Instr
  | check               -- `closed.Load()`: the call fails with ErrStoreClosed if the flag is set
  | lock (l : LockId)
  | rlock (l : LockId)
  | unlock (l : LockId)
  | runlock (l : LockId)
  | eff (a : DOp)       -- one access to the shared map
  | swapClosed          -- `closed.Swap(true)`
  /-- `closed.Load()` whose outcome is dropped: the `Flush()` that flushkv issues after a mutation that succeeded
  (`flushAfterMutation` swallows ErrStoreClosed; mapdb's `Flush` can fail in no other way) -/
  | load
deriving DecidableEq, Repr

/-- A call of a goroutine: `v` names the view object (its lock), `r` is the view's realm, `b` the
batch object. -/
inductive COp
  | get (v : Nat) (r k : Bytes)
  | has (v : Nat) (r k : Bytes)
  | set (v : Nat) (r k x : Bytes)
  | del (v : Nat) (r k : Bytes)
  | delp (v : Nat) (r p : Bytes)
  | clear (v : Nat) (r : Bytes)
  | iter (r p : Bytes) (d : Dir) (stop : Nat)
  | iterk (r p : Bytes) (d : Dir) (stop : Nat)
  | commit (b v : Nat) (r : Bytes) (ws : List Write)   -- the batch's sets, then its deletes
  | close
  | withRealm (r : Bytes)     -- `WithRealm` / `WithExtendedRealm`: flag load; the result is a NEW view object (own, free lock)
  | batched                   -- `Batched`: flag load; the result is a new batch object (own, free mutex)
  | flush                     -- `Flush`: flag load
  | batchOp (b : Nat)         -- batch `Set` / `Delete` / `Cancel`: the batch's own maps under the batch mutex, nothing shared
  /- the mutators of the flushkv wrapper: the wrapped mutator, then (only if it did not fail) a dropped flag load -/
  | fset (v : Nat) (r k x : Bytes)
  | fdel (v : Nat) (r k : Bytes)
  | fdelp (v : Nat) (r p : Bytes)
  | fclear (v : Nat) (r : Bytes)
  | fcommit (b v : Nat) (r : Bytes) (ws : List Write)
  /-- the access callback of the debug wrapper: user code that runs before the wrapped call, outside every lock -/
  | callback
deriving DecidableEq, Repr

def writeOp (r : Bytes) (w : Write) : DOp :=
  match w.2 with
  | some x => .set (r ++ w.1) x
  | none => .del (r ++ w.1)

def readCode (v : Nat) (a : DOp) : List Instr :=
  [.check, .rlock (.view v), .rlock .map, .eff a, .runlock .map, .runlock (.view v)]

def writeCode (v : Nat) (a : DOp) : List Instr :=
  [.check, .lock (.view v), .lock .map, .eff a, .unlock .map, .unlock (.view v)]

def iterCode (a : DOp) : List Instr := [.check, .rlock .map, .eff a, .runlock .map]

/-- A mutator of the flushkv wrapper: `writeCode`, then `flushAfterMutation` (a flag load whose outcome is dropped).  When
the wrapped mutator fails on its own flag load the call ends there (`check` drops the rest of the code): no `Flush()`. -/
def fwriteCode (v : Nat) (a : DOp) : List Instr :=
  [.check, .lock (.view v), .lock .map, .eff a, .unlock .map, .unlock (.view v), .load]

/-- A call that only loads the closed flag (`WithRealm`, `WithExtendedRealm`, `Batched`, `Flush`): its linearisation point
on success is the ghost access `nop`, which touches nothing and needs no lock. -/
def flagCode : List Instr := [.check, .eff .nop]

/-- Batch `Set` / `Delete` / `Cancel`: no flag load, the batch mutex around an update of the batch's private maps. -/
def batchCode (b : Nat) : List Instr := [.lock (.batch b), .unlock (.batch b)]

def commitWrites (r : Bytes) : List Write → List Instr
  | [] => []
  | w :: ws => .lock .map :: .eff (writeOp r w) :: .unlock .map :: commitWrites r ws

def compile : COp → List Instr
  | .get v r k => readCode v (.get (r ++ k))
  | .has v r k => readCode v (.has (r ++ k))
  | .set v r k x => writeCode v (.set (r ++ k) x)
  | .del v r k => writeCode v (.del (r ++ k))
  | .delp v r p => writeCode v (.delp (r ++ p))
  | .clear v r => writeCode v (.delp r)
  | .iter r p d stop => iterCode (.iter (r ++ p) r.length d stop)
  | .iterk r p d stop => iterCode (.iterk (r ++ p) r.length d stop)
  | .commit b v r ws =>
    .check :: .lock (.batch b) :: .lock (.view v) :: (commitWrites r ws ++ [.unlock (.batch b), .unlock (.view v)])
  | .close => [.swapClosed]
  | .withRealm _ => flagCode
  | .batched => flagCode
  | .flush => flagCode
  | .batchOp b => batchCode b
  | .fset v r k x => fwriteCode v (.set (r ++ k) x)
  | .fdel v r k => fwriteCode v (.del (r ++ k))
  | .fdelp v r p => fwriteCode v (.delp (r ++ p))
  | .fclear v r => fwriteCode v (.delp r)
  | .fcommit b v r ws =>
    .check :: .lock (.batch b) :: .lock (.view v) :: (commitWrites r ws ++ [.unlock (.batch b), .unlock (.view v), .load])
  | .callback => []

/-! ## ghost events -/

inductive LinAct
  | eff (a : DOp)     -- an access to the map took effect
  | failClosed        -- the call saw the closed flag set
  | close             -- the flag was set
deriving DecidableEq, Repr

inductive Ev
  | inv (tid idx : Nat) (op : COp)
  | lin (tid idx : Nat) (a : LinAct) (out : Out)
  | ret (tid idx : Nat) (out : Out)
deriving DecidableEq, Repr

def Ev.tid : Ev → Nat
  | .inv t .. | .lin t .. | .ret t .. => t

/-! ## the system -/

structure Shared where
  m : AList
  closed : Bool
  locks : LockId → RW
  tr : List Ev            -- ghost, oldest first

structure Thread where
  tid : Nat
  script : List COp                 -- calls not yet invoked
  cur : Option COp                  -- the call in progress
  idx : Nat                         -- ghost: number of calls completed so far = index of the call in progress
  code : List Instr                 -- remaining instructions of the call in progress
  waiting : Bool                    -- inside `Lock()`: announced, waiting
  held : List (LockId × Bool)       -- locks held (`true` = write mode)
  res : Option Out                  -- answer of the call in progress, as far as known

def setLock (ls : LockId → RW) (l : LockId) (x : RW) : LockId → RW :=
  fun l' => if l' = l then x else ls l'

def Shared.log (s : Shared) (e : Ev) : Shared := { s with tr := s.tr ++ [e] }

/-- The answer a call returns: the answer of its (last) access; `ok` for a call without access. -/
def Thread.answer (t : Thread) : Out := t.res.getD .ok

/-- The successors of thread `t` in shared state `s` (at most one; `[]` = blocked or finished). -/
def step (s : Shared) (t : Thread) : List (Shared × Thread) :=
  match t.cur with
  | none =>
    match t.script with
    | [] => []     -- finished
    | op :: rest =>  -- invocation
      [(s.log (.inv t.tid t.idx op),
        { t with script := rest, cur := some op, code := compile op, res := none })]
  | some _ =>
    match t.code with
    | [] =>        -- response
      [(s.log (.ret t.tid t.idx t.answer), { t with cur := none, idx := t.idx + 1, res := none })]
    | .check :: rest =>
      if s.closed then
        [(s.log (.lin t.tid t.idx .failClosed .closed), { t with code := [], res := some .closed })]
      else [(s, { t with code := rest })]
    | .lock l :: rest =>
      if t.waiting then
        if (s.locks l).writer = false ∧ (s.locks l).readers = 0 then
          [({ s with locks := setLock s.locks l { (s.locks l) with writer := true, pending := (s.locks l).pending - 1 } },
            { t with code := rest, waiting := false, held := (l, true) :: t.held })]
        else []
      else
        [({ s with locks := setLock s.locks l { (s.locks l) with pending := (s.locks l).pending + 1 } },
          { t with waiting := true })]
    | .rlock l :: rest =>
      if (s.locks l).writer = false ∧ (s.locks l).pending = 0 then
        [({ s with locks := setLock s.locks l { (s.locks l) with readers := (s.locks l).readers + 1 } },
          { t with code := rest, held := (l, false) :: t.held })]
      else []
    | .unlock l :: rest =>
      [({ s with locks := setLock s.locks l { (s.locks l) with writer := false } },
        { t with code := rest, held := t.held.erase (l, true) })]
    | .runlock l :: rest =>
      [({ s with locks := setLock s.locks l { (s.locks l) with readers := (s.locks l).readers - 1 } },
        { t with code := rest, held := t.held.erase (l, false) })]
    | .eff a :: rest =>
      let r := a.apply s.m
      [(({ s with m := r.1 } : Shared).log (.lin t.tid t.idx (.eff a) r.2), { t with code := rest, res := some r.2 })]
    | .swapClosed :: rest =>
      [(({ s with closed := true } : Shared).log (.lin t.tid t.idx .close .ok), { t with code := rest, res := some .ok })]
    | .load :: rest => [(s, { t with code := rest })]   -- the flag is read, the outcome dropped: nothing depends on it

def sys : Sys Shared Thread := { step := step }

def initShared : Shared := { m := [], closed := false, locks := fun _ => RW.free, tr := [] }

def initThread (tid : Nat) (script : List COp) : Thread :=
  { tid := tid, script := script, cur := none, idx := 0, code := [], waiting := false, held := [], res := none }

/-- Goroutine `i` runs `scripts[i]`. -/
def initThreads : Nat → List (List COp) → List Thread
  | _, [] => []
  | n, sc :: rest => initThread n sc :: initThreads (n + 1) rest

def initCfg (scripts : List (List COp)) : Cfg Shared Thread := (initShared, initThreads 0 scripts)

/-- A goroutine is finished when it has returned from its last call. -/
def Thread.finished (t : Thread) : Prop := t.cur = none ∧ t.script = []

/-! ## the sequential reading of the linearisation points -/

structure SeqSt where
  m : AList
  closed : Bool
deriving DecidableEq, Repr, Hashable

def seqInit : SeqSt := { m := [], closed := false }

/-- The state after one event: only linearisation points change it. -/
def applyEv (st : SeqSt) : Ev → SeqSt
  | .lin _ _ (.eff a) _ => { st with m := (a.apply st.m).1 }
  | .lin _ _ .close _ => { st with closed := true }
  | _ => st

/-- The sequential state after a trace. -/
def replay (tr : List Ev) : SeqSt := tr.foldl applyEv seqInit

/-- Is the recorded answer of a linearisation point the one the sequential specification gives in
the state reached so far?  (An access answers what the ordered map answers; a call fails with
ErrStoreClosed only if `Close` was linearised before.) -/
def evOk (st : SeqSt) : Ev → Bool
  | .lin _ _ (.eff a) out => out == (a.apply st.m).2
  | .lin _ _ .failClosed out => st.closed && out == .closed
  | .lin _ _ .close out => out == .ok
  | _ => true

/-- Every linearisation point of the trace answers as the sequential specification does. -/
def seqOkFrom (st : SeqSt) : List Ev → Bool
  | [] => true
  | e :: rest => evOk st e && seqOkFrom (applyEv st e) rest

def seqOk (tr : List Ev) : Bool := seqOkFrom seqInit tr

/-! ## per-goroutine nesting of the events -/

/-- The accesses a call makes, in order. -/
def effsOf : List Instr → List DOp
  | [] => []
  | .eff a :: rest => a :: effsOf rest
  | _ :: rest => effsOf rest

/-- Where a goroutine stands, as far as its own events tell. -/
inductive PSt
  | idle (n : Nat)                                   -- `n` calls completed, none in progress
  | busy (n : Nat) (op : COp) (todo : List DOp) (res : Option Out)  -- call `n` in progress: accesses still to come, answer so far
  | bad
deriving DecidableEq, Repr

/-- One event of a goroutine, checked against where it stands: an invocation starts call `n`; each
linearisation point is the next access of that call, or its closed-flag failure (before any access;
no access follows), or the flag swap of a `Close` call; the response comes after all accesses and
carries the answer of the last linearisation point (`ok` if there was none). -/
def pstep : PSt → Ev → PSt
  | .idle n, .inv _ idx op => if idx = n then .busy n op (effsOf (compile op)) none else .bad
  | .busy n op (a :: todo) _, .lin _ idx (.eff a') out =>
    if idx = n ∧ a' = a then .busy n op todo (some out) else .bad
  | .busy n op _ none, .lin _ idx .failClosed out => if idx = n then .busy n op [] (some out) else .bad
  | .busy n .close [] none, .lin _ idx .close out => if idx = n then .busy n .close [] (some out) else .bad
  | .busy n _ [] res, .ret _ idx out => if idx = n ∧ out = res.getD .ok then .idle (n + 1) else .bad
  | _, _ => .bad

def prun (tr : List Ev) : PSt := tr.foldl pstep (.idle 0)

/-- The events of goroutine `tid`, in trace order. -/
def evsOf (tid : Nat) (tr : List Ev) : List Ev := tr.filter (fun e => e.tid == tid)

end Hive.KV.Conc
