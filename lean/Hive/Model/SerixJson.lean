import Hive.Model.SerixJsonText
/-!
# Model of the JSON/map form of serix (serializer/serix/map_encode.go, map_decode.go)

`mapEncode : JTy → Val → Except Err Json` and `mapDecode : JTy → Json → Except Err Val` follow the
control flow of `mapEncodeBasedOnType` / `mapDecodeBasedOnType` and their helpers, as the code is
after the `fix:` commits listed in `design/C01b.md`.

* `Json` is what travels between the two: the tree `json.Marshal` prints and `json.Unmarshal`
  rebuilds as `map[string]any` (numbers are the integers the encoder emits; an object is an ordered
  member list, the decoder only ever looks members up by key or, for Go maps, walks all of them).
* `JTy` mirrors everything that decides the map form of a Go type: kind, width, registered object
  code and field key of byte arrays, struct field keys (`serix:"key"` / camel-cased name, resolved by
  the harness), `optional`, `omitempty`, embedded (flattened) and `inlined` fields, pointers,
  interface alternatives with their codes, min/max length bounds (checked with validation on).
* `Val` mirrors Go values, including the nil/non-nil distinction of slices, maps and pointers
  (`reflect.Value.IsZero` looks at it for `omitempty`).

Float text is `strconv.FormatFloat(v, 'g', -1, 64)` / `strconv.ParseFloat(s, bits)`: the model is
parametric in a `FloatCodec` (Go's strconv is trusted for it, the harness supplies the text).

Not modelled: `SerializableJSON` / `DeserializableJSON` implementations and syntactic validators
(user callbacks), `ArrayRules.MustOccur`, object codes on non-byte slice/array types (the encoder
panics in `reflect.Value.Bytes`), inlined interfaces / inlined pointers, `optional`/`omitempty` on
inlined fields, an explicit field key on a by-value typed byte array, strings that are not valid
UTF-8 (Lean strings are sequences of Unicode scalars), JSON numbers with a fraction or exponent.
Times of every range are modelled (instants are integers, `TimeToUint64` saturates on both sides).
Core Lean only.
-/
namespace Hive.SerixJson

inductive Json
  | null
  | bool (b : Bool)
  | num (n : Int)
  | str (s : String)
  | arr (xs : List Json)
  | obj (ms : List (String × Json))
deriving Repr, Inhabited

inductive Val
  | nil                               -- nil slice / map / pointer / interface / *big.Int, zero time.Time
  | bool (b : Bool)
  | num (n : Int)                     -- every integer kind, big.Int, time (ns since the epoch)
  | float (bits : Nat)                -- IEEE bits of a float32 / float64
  | str (s : String)
  | bytes (bs : List UInt8)           -- []byte and [n]byte
  | list (xs : List Val)              -- slices and arrays of non-byte elements
  | map (es : List (Val × Val))       -- Go map, entries in (one possible) iteration order
  | struct (fs : List Val)            -- one entry per serix field, in serix position order
  | some (v : Val)                    -- non-nil pointer
  | iface (code : Nat) (v : Val)      -- non-nil interface holding the alternative registered under `code`
deriving Repr, Inhabited

/-- min/max length of the type settings; 0 = unbounded (`TypeSettings.MinLen/MaxLen`). -/
structure Bounds where
  min : Nat
  max : Nat
deriving Repr, DecidableEq, Inhabited

mutual
inductive JTy
  | bool
  | uint (w : Nat)                    -- 8/16/32: JSON number, 64: base-10 string
  | int (w : Nat)
  | float (w : Nat)                   -- 32/64: string
  | str (b : Bounds)
  | bytes (b : Bounds)                -- []byte (assignable to []byte), no object code
  | byteArr (viaPtr : Bool) (n : Nat) -- [n]byte / *[n]byte without object code
  /-- named `[n]byte` (`some n`) or `[]byte` (`none`) with a registered object code and field key
  (`keyDefaultSliceArray = "data"` when none is registered), held by value or through a pointer. -/
  | typedBytes (viaPtr : Bool) (n : Option Nat) (code : Nat) (key : String)
  | u256                              -- *big.Int
  | time                              -- time.Time
  | slice (b : Bounds) (e : JTy)
  | array (n : Nat) (e : JTy)         -- [n]T, T not a byte
  | map (b : Bounds) (k v : JTy)
  | struct (code : Option Nat) (fs : Fields)
  | ptr (t : JTy)                     -- *T for T a struct, time.Time, array, interface
  | iface (alts : Alts)
inductive Fields
  | nil
  /-- ordinary field under `key`; `opt` = `optional`, `omt` = `omitempty`. -/
  | named (key : String) (opt omt : Bool) (t : JTy) (rest : Fields)
  /-- anonymous struct field (by value or by pointer) without `inlined`: its fields are written
  into / read from the parent object. -/
  | embedded (viaPtr : Bool) (fs : Fields) (rest : Fields)
  /-- struct field tagged `inlined`: encoded as an object of its own (with its own `type` member if
  it has a code), whose members are then copied into the parent object. -/
  | inlined (code : Option Nat) (fs : Fields) (rest : Fields)
inductive Alts
  | nil
  | cons (code : Nat) (t : JTy) (rest : Alts)
end

instance : Inhabited JTy := ⟨.bool⟩

inductive Err
  | err        -- the call returns an error
  | panic      -- the call panics
  | illTyped   -- the value is not a value of the type (cannot happen in Go)
deriving Repr, DecidableEq, Inhabited

structure Opts where
  validate : Bool
deriving Repr, DecidableEq, Inhabited

/-- `strconv.FormatFloat(v, 'g', -1, 64)` and `strconv.ParseFloat(s, w)` on IEEE bit patterns. -/
structure FloatCodec where
  fmt : Nat → Nat → String
  parse : Nat → String → Option Nat

/-! ## objects -/

def jlookup (k : String) : List (String × Json) → Option Json
  | [] => none
  | (k', j) :: ms => if k' = k then some j else jlookup k ms

def keys (ms : List (String × Json)) : List String := ms.map (·.1)

/-- `orderedmap.Set`: an existing key keeps its position and gets the new value, a new key is
appended. -/
def objSet : List (String × Json) → String → Json → List (String × Json)
  | [], k, j => [(k, j)]
  | (k', j') :: ms, k, j => if k' = k then (k, j) :: ms else (k', j') :: objSet ms k j

def objSetAll (acc : List (String × Json)) (ms : List (String × Json)) : List (String × Json) :=
  ms.foldl (fun a p => objSet a p.1 p.2) acc

def typeMember : Option Nat → List (String × Json)
  | none => []
  | some c => [("type", .num c)]

def typeKeys : Option Nat → List String
  | none => []
  | some _ => ["type"]

/-! ## small helpers -/

def Val.isNil : Val → Bool
  | .nil => true
  | _ => false

def pow2 (w : Nat) : Int := (2 ^ w : Nat)

/-- `CVTTSD2SL` / `CVTTSD2SQ`: a float that does not fit the signed `bits`-bit integer converts to the
"integer indefinite" value `-2^(bits-1)`. -/
def cvt (bits : Nat) (c : Int) : Int :=
  if - pow2 (bits - 1) ≤ c ∧ c < pow2 (bits - 1) then c else - pow2 (bits - 1)

/-- `uintN(float64)` as compiled for amd64: `uint32` goes through the 64-bit conversion, the narrower
kinds through the 32-bit one; then the low `w` bits.  (Only out-of-range numbers, which the encoder
never emits, see the difference from plain truncation.) -/
def wrapU (w : Nat) (c : Int) : Int := cvt (if w = 32 then 64 else 32) c % pow2 w

/-- `intN(float64)` on amd64: 32-bit conversion, then the low `w` bits as a signed number. -/
def wrapS (w : Nat) (c : Int) : Int := (cvt 32 c + pow2 (w - 1)) % pow2 w - pow2 (w - 1)

def inU (w : Nat) (n : Int) : Bool := 0 ≤ n && n < pow2 w
def inS (w : Nat) (n : Int) : Bool := - pow2 (w - 1) ≤ n && n < pow2 (w - 1)

/-- `TypeSettings.checkMinMaxBoundsLength`, only with validation on. -/
def checkLen (o : Opts) (b : Bounds) (n : Nat) : Except Err Unit :=
  if o.validate && ((b.min != 0 && n < b.min) || (b.max != 0 && n > b.max)) then .error .err else .ok ()

/-- `copy(array[:], bytes)`: too short is padded with the zero bytes already there, too long is cut. -/
def fit (n : Nat) (bs : List UInt8) : List UInt8 := (bs ++ List.replicate n 0).take n

def zeroBytes (n : Nat) : List UInt8 := List.replicate n 0

/-- equality of decoded map keys (`reflect.Value.MapIndex`): keys are atoms. -/
def Val.keyEq : Val → Val → Bool
  | .num a, .num b => a == b
  | .str a, .str b => a == b
  | .bytes a, .bytes b => a == b
  | .bool a, .bool b => a == b
  | .float a, .float b => a == b
  | _, _ => false

/-! ## `reflect.Value.IsZero`, Go zero values -/

mutual
/-- `reflect.Value.IsZero` of a value of the given type. -/
def isZero : JTy → Val → Bool
  | .bool, .bool b => !b
  | .uint _, .num n => n == 0
  | .int _, .num n => n == 0
  | .float w, .float b => b == 0 || b == 2 ^ (w - 1)     -- `v.Float() == 0`: both zeros
  | .str _, .str s => s == ""
  | .bytes _, v => v.isNil
  | .byteArr false _, .bytes bs => bs.all (· == 0)
  | .byteArr true _, v => v.isNil
  | .typedBytes false (some _) _ _, .bytes bs => bs.all (· == 0)
  | .typedBytes false none _ _, v => v.isNil
  | .typedBytes true _ _ _, v => v.isNil
  | .u256, v => v.isNil
  | .time, v => v.isNil
  | .slice _ _, v => v.isNil
  | .array _ e, .list xs => xs.all (isZero e)
  | .map _ _ _, v => v.isNil
  | .struct _ fs, .struct vs => zeroFields fs vs
  | .ptr _, v => v.isNil
  | .iface _, v => v.isNil
  | _, _ => false
def zeroFields : Fields → List Val → Bool
  | .nil, _ => true
  | .named _ _ _ t rest, v :: vs => isZero t v && zeroFields rest vs
  | .embedded false fs rest, .struct xs :: vs => zeroFields fs xs && zeroFields rest vs
  | .embedded true _ rest, v :: vs => v.isNil && zeroFields rest vs
  | .inlined _ fs rest, .struct xs :: vs => zeroFields fs xs && zeroFields rest vs
  | _, _ => false
end

/-- `API.isValueEmpty`: `IsZero`, or a slice of length 0. -/
def isEmpty (t : JTy) (v : Val) : Bool :=
  isZero t v ||
    match t, v with
    | .slice _ _, .list [] => true
    | .bytes _, .bytes [] => true
    | .typedBytes false none _ _, .bytes [] => true
    | _, _ => false

mutual
/-- the Go zero value. -/
def goZero : JTy → Val
  | .bool => .bool false
  | .uint _ => .num 0
  | .int _ => .num 0
  | .float _ => .float 0
  | .str _ => .str ""
  | .bytes _ => .nil
  | .byteArr false n => .bytes (zeroBytes n)
  | .byteArr true _ => .nil
  | .typedBytes false (some n) _ _ => .bytes (zeroBytes n)
  | .typedBytes false none _ _ => .nil
  | .typedBytes true _ _ _ => .nil
  | .u256 => .nil
  | .time => .nil
  | .slice _ _ => .nil
  | .array n e => .list (List.replicate n (goZero e))
  | .map _ _ _ => .nil
  | .struct _ fs => .struct (zeroVals fs)
  | .ptr _ => .nil
  | .iface _ => .nil
def zeroVals : Fields → List Val
  | .nil => []
  | .named _ _ _ t rest => goZero t :: zeroVals rest
  | .embedded false fs rest => .struct (zeroVals fs) :: zeroVals rest
  | .embedded true _ rest => .nil :: zeroVals rest
  | .inlined _ fs rest => .struct (zeroVals fs) :: zeroVals rest
end

/-- what a fresh decode target holds in an `optional`/`omitempty` field whose key is missing: the
zero value, except that a nil slice is replaced by an empty one. -/
def missingVal : JTy → Val
  | .slice _ _ => .list []
  | .bytes _ => .bytes []
  | .typedBytes false none _ _ => .bytes []
  | t => goZero t

/-! ## pointers -/

/-- targets for which `mapEncodeBasedOnType` has a `reflect.Ptr` branch (struct and array kinds). -/
def JTy.ptrEncodable : JTy → Bool
  | .struct _ _ => true
  | .time => true
  | .array _ _ => true
  | _ => false

/-- targets for which `mapDecodeBasedOnType` has a `reflect.Ptr` branch. -/
def JTy.ptrDecodable : JTy → Bool
  | .struct _ _ => true
  | .time => true
  | .array _ _ => true
  | .iface _ => true
  | _ => false

/-- a byte array / `[]byte` type with an object code held by value: its length and code. -/
def JTy.byValueTyped : JTy → Option (Option Nat × Nat)
  | .typedBytes false n code _ => some (n, code)
  | _ => none

/-! ## the encoder -/

/-- `math.MaxInt64`: what `serializer.TimeToUint64` answers for every instant whose nanosecond count
does not fit an `int64` (seconds beyond `MaxNanoTimestampInt64Seconds`, or the last representable
second with an overflowed `UnixNano`). -/
def maxNano : Nat := 2 ^ 63 - 1

/-- `strconv.FormatUint(serializer.TimeToUint64(t), 10)` of the instant `n` ns after the epoch (any
`time.Time`: `n` is not limited to the `int64` range): instants before the epoch are truncated to
the epoch, instants from 2^63 ns on saturate at `math.MaxInt64`. -/
def encTime (n : Int) : Except Err Json :=
  if n < 0 then .ok (.str (decStr 0))          -- serializer.TimeToUint64 truncates to the epoch
  else if n < pow2 63 then .ok (.str (decStr n.toNat))
  else .ok (.str (decStr maxNano))

def keyString : Json → Except Err String
  | .str s => .ok s
  | _ => .error .err                            -- the key's map form is not a string (`k.(string)` in mapEncodeMapKVPair, an error since the fix of the unchecked assertion)

def encList (f : Val → Except Err Json) (xs : List Val) : Except Err Json :=
  (xs.mapM f).map Json.arr

def encEntries (fk fv : Val → Except Err Json) (es : List (Val × Val)) : Except Err Json :=
  (es.mapM (fun (p : Val × Val) => do
    let kj ← fk p.1
    let vj ← fv p.2
    let ks ← keyString kj
    pure (ks, vj))).map (fun ps => Json.obj (objSetAll [] ps))

/-- `mapEncodeSlice` for a type with an object code: `{"type": code, key: hex}`. -/
def encTypedBytes (viaPtr : Bool) (n : Option Nat) (code : Nat) (key : String) : Val → Except Err Json
  | .bytes bs =>
    if n = none ∧ viaPtr then .error .illTyped
    else if n.all (bs.length = ·) then .ok (.obj (objSet [("type", .num code)] key (.str (encodeHex bs))))
    else .error .illTyped
  | .nil =>
    if viaPtr then .error .err                   -- "unexpected nil pointer"
    else if n = none then .ok (.obj (objSet [("type", .num code)] key (.str (encodeHex []))))
    else .error .illTyped
  | _ => .error .illTyped

variable (fc : FloatCodec) (o : Opts)

mutual
def mapEncode : JTy → Val → Except Err Json
  | .bool, .bool b => .ok (.bool b)
  | .uint w, .num n =>
    if inU w n then (if w = 64 then .ok (.str (decStr n.toNat)) else .ok (.num n)) else .error .illTyped
  | .int w, .num n =>
    if inS w n then (if w = 64 then .ok (.str (intStr n)) else .ok (.num n)) else .error .illTyped
  | .float w, .float b => .ok (.str (fc.fmt w b))
  | .str bnd, .str s => do
    checkLen o bnd s.utf8ByteSize
    pure (.str s)
  | .bytes bnd, .bytes bs => do
    checkLen o bnd bs.length
    pure (.str (encodeHex bs))
  | .bytes bnd, .nil => do
    checkLen o bnd 0
    pure (.str (encodeHex []))
  | .byteArr _ n, .bytes bs => if bs.length = n then .ok (.str (encodeHex bs)) else .error .illTyped
  | .byteArr true _, .nil => .error .err
  | .typedBytes viaPtr n code key, v => encTypedBytes viaPtr n code key v
  | .u256, .num n => .ok (.str (encodeBig n))
  | .u256, .nil => .error .panic               -- hexutil.EncodeBig(nil) dereferences the nil *big.Int
  | .time, .num n => encTime n
  | .time, .nil => .ok (.str (decStr 0))       -- time.Time{} lies before the epoch
  | .slice bnd e, .list xs => do
    checkLen o bnd xs.length
    encList (mapEncode e) xs
  | .slice bnd _, .nil => do
    checkLen o bnd 0
    pure (.arr [])
  | .array n e, .list xs => if xs.length = n then encList (mapEncode e) xs else .error .illTyped
  | .map bnd k v, .map es => do
    checkLen o bnd es.length
    encEntries (mapEncode k) (mapEncode v) es
  | .map bnd _ _, .nil => do
    checkLen o bnd 0
    pure (.obj [])
  | .struct code fs, .struct vs => (encFields fs vs (typeMember code)).map Json.obj
  | .ptr _, .nil => .error .err                -- "unexpected nil pointer"
  | .ptr t, .some v => if t.ptrEncodable then mapEncode t v else .error .err
  | .iface _, .nil => .error .err
  | .iface alts, .iface c v => encAlt alts c v
  | _, _ => .error .illTyped
/-- `mapEncodeStructFields`, writing into the accumulated object `acc`. -/
def encFields : Fields → List Val → List (String × Json) → Except Err (List (String × Json))
  | .nil, [], acc => .ok acc
  | .named key opt omt t rest, v :: vs, acc =>
    if omt && isEmpty t v then encFields rest vs acc
    else if opt && v.isNil then encFields rest vs acc
    else do
      -- a tag's field key takes precedence over the registered one in `ts.merge`: a typed byte array
      -- held by value is written under the *field's* key (the harness always writes that key into the tag)
      let j ← (match t.byValueTyped with
        | some (n, code) => encTypedBytes false n code key v
        | none => mapEncode t v)
      encFields rest vs (objSet acc key j)
  | .embedded false fs rest, .struct xs :: vs, acc => do
    let acc' ← encFields fs xs acc
    encFields rest vs acc'
  | .embedded true fs rest, .some (.struct xs) :: vs, acc => do
    let acc' ← encFields fs xs acc
    encFields rest vs acc'
  | .embedded true _ _, .nil :: _, _ => .error .err
  | .inlined code fs rest, .struct xs :: vs, acc => do
    let inner ← encFields fs xs (typeMember code)
    encFields rest vs (objSetAll acc inner)
  | _, _, _ => .error .illTyped
/-- `mapEncodeInterface`: the dynamic type must be registered for the interface. -/
def encAlt : Alts → Nat → Val → Except Err Json
  | .nil, _, _ => .error .err
  | .cons c t rest, code, v => if c = code then mapEncode t v else encAlt rest code v
end

/-! ## the decoder

Every failure is `Err.err`: which of them are panics today (wrong JSON kinds) is the subject of C02. -/

def asStr : Json → Except Err String
  | .str s => .ok s
  | _ => .error .err

def asObj : Json → Except Err (List (String × Json))
  | .obj m => .ok m
  | _ => .error .err

def asArr : Json → Except Err (List Json)
  | .arr xs => .ok xs
  | _ => .error .err

def ofOpt {α : Type} : Option α → Except Err α
  | some a => .ok a
  | none => .error .err

/-- `mapDecodeBytes` for type settings with an object code: the hex string sits under the field key
of the object `mapEncodeSlice` writes (the `type` member is not looked at). -/
def decTypedBytes (n : Option Nat) (key : String) (j : Json) : Except Err Val := do
  let m ← asObj j
  let s ← asStr (← ofOpt (jlookup key m))
  let bs ← ofOpt (decodeHex s)
  pure (.bytes (match n with
    | some n => fit n bs
    | none => bs))

/-- the `type` member compared with the registered object code (`uint32(float64)`). -/
def checkType (code : Option Nat) (m : List (String × Json)) : Except Err Unit :=
  match code with
  | none => .ok ()
  | some c =>
    match jlookup "type" m with
    | some (.num n) => if wrapU 32 n = (c : Int) then .ok () else .error .err
    | _ => .error .err

def decTime (s : String) : Except Err Val := do
  let n ← ofOpt (parseDec s)
  if n < 2 ^ 64 then
    pure (.num (if n < 2 ^ 63 then (n : Int) else (n : Int) - pow2 64))   -- time.Unix(0, int64(n))
  else .error .err

/-- `mapDecodeMap`: every member is decoded and inserted; a key that is already present is an
error. -/
def decEntries (fk fv : Json → Except Err Val) :
    List (String × Json) → List (Val × Val) → Except Err (List (Val × Val))
  | [], acc => .ok acc
  | (k, j) :: ms, acc => do
    let kv ← fk (.str k)
    if acc.any (fun p => p.1.keyEq kv) then .error .err
    else do
      let v ← fv j
      decEntries fk fv ms (acc ++ [(kv, v)])

mutual
def mapDecode : JTy → Json → Except Err Val
  | .bool, .bool b => .ok (.bool b)
  | .bool, _ => .error .err
  | .uint w, j =>
    if w = 64 then do
      let s ← asStr j
      let n ← ofOpt (parseDec s)
      if n < 2 ^ 64 then pure (.num n) else .error .err
    else
      match j with
      | .num c => .ok (.num (wrapU w c))
      | _ => .error .err
  | .int w, j =>
    if w = 64 then do
      let s ← asStr j
      let n ← ofOpt (parseInt s)
      if inS 64 n then pure (.num n) else .error .err
    else
      match j with
      | .num c => .ok (.num (wrapS w c))
      | _ => .error .err
  | .float w, j => do
    let s ← asStr j
    let b ← ofOpt (fc.parse w s)
    pure (.float b)
  | .str bnd, j => do
    let s ← asStr j
    checkLen o bnd s.utf8ByteSize
    pure (.str s)
  | .bytes bnd, j => do
    let s ← asStr j
    let bs ← ofOpt (decodeHex s)
    checkLen o bnd bs.length
    pure (.bytes bs)
  -- by value and through a pointer without registered object code: a bare hex string
  | .byteArr _ n, j => do
    let s ← asStr j
    let bs ← ofOpt (decodeHex s)
    pure (.bytes (fit n bs))
  | .typedBytes true none _ _, _ => .error .err   -- pointer to a slice: no branch
  | .typedBytes _ n _ key, j => decTypedBytes n key j
  | .u256, j => do
    let s ← asStr j
    let n ← ofOpt (decodeBig s)
    pure (.num n)
  | .time, j => do
    let s ← asStr j
    decTime s
  | .slice bnd e, j => do
    let xs ← asArr j
    let vs ← xs.mapM (mapDecode e)
    checkLen o bnd vs.length
    pure (.list vs)
  | .array n e, j => do
    let xs ← asArr j
    let vs ← xs.mapM (mapDecode e)
    if vs.length = n then pure (.list vs) else .error .err
  | .map bnd k v, j => do
    let m ← asObj j
    let es ← decEntries (mapDecode k) (mapDecode v) m []
    checkLen o bnd es.length
    pure (.map es)
  | .struct code fs, j => do
    let m ← asObj j
    checkType code m
    let vs ← decFields fs m
    pure (.struct vs)
  | .ptr t, j => if t.ptrDecodable then (mapDecode t j).map Val.some else .error .err
  | .iface alts, j => do
    let m ← asObj j
    match jlookup "type" m with
    | some (.num c) => decAlt alts (wrapU 32 c).toNat j
    | _ => .error .err
/-- `mapDecodeStructFields` over the parent object `m`. -/
def decFields : Fields → List (String × Json) → Except Err (List Val)
  | .nil, _ => .ok []
  | .named key opt omt t rest, m =>
    match jlookup key m with
    | none =>
      if opt || omt then (decFields rest m).map (missingVal t :: ·) else .error .err
    | some j => do
      -- as on the encoding side the field's key takes precedence over the registered one
      let v ← (match t.byValueTyped with
        | some (n, _) => decTypedBytes n key j
        | none => mapDecode t j)
      let vs ← decFields rest m
      pure (v :: vs)
  | .embedded viaPtr fs rest, m => do
    let xs ← decFields fs m
    let vs ← decFields rest m
    pure ((if viaPtr then Val.some (.struct xs) else .struct xs) :: vs)
  | .inlined code fs rest, m => do
    checkType code m
    let xs ← decFields fs m
    let vs ← decFields rest m
    pure (.struct xs :: vs)
/-- `mapDecodeInterface`: the object code selects the registered alternative, which is decoded
from the same object. -/
def decAlt : Alts → Nat → Json → Except Err Val
  | .nil, _, _ => .error .err
  | .cons c t rest, code, j =>
    if c = code then (mapDecode t j).map (Val.iface code) else decAlt rest code j
end

/-- `API.MapEncode`: the outermost element must be an object. -/
def apiEncode (t : JTy) (v : Val) : Except Err (List (String × Json)) := do
  match ← mapEncode fc o t v with
  | .obj ms => pure ms
  | _ => .error .err

/-- `API.MapDecode` / `JSONDecode`: the document is a `map[string]any`. -/
def apiDecode (t : JTy) (ms : List (String × Json)) : Except Err Val := mapDecode fc o t (.obj ms)

/-! ## what the form can express -/

def nodupB : List String → Bool
  | [] => true
  | k :: ks => !ks.contains k && nodupB ks

/-- key types whose map form is a JSON string and whose Go values are plain atoms. -/
def JTy.keyOk : JTy → Bool
  | .str _ => true
  | .uint w => w = 64
  | .int w => w = 64
  | .byteArr false _ => true
  | _ => false

/-- types whose Go values can be nil (`optional` is only accepted on pointers and interfaces). -/
def JTy.nilable : JTy → Bool
  | .ptr _ => true
  | .iface _ => true
  | .u256 => true
  | .byteArr true _ => true
  | .typedBytes true _ _ _ => true
  | _ => false

/-- every key a struct's fields may write into the parent object. -/
def allKeys : Fields → List String
  | .nil => []
  | .named key _ _ _ rest => key :: allKeys rest
  | .embedded _ fs rest => allKeys fs ++ allKeys rest
  | .inlined code fs rest => typeKeys code ++ (allKeys fs ++ allKeys rest)

/-- object codes are `uint8` or `uint32` numbers. -/
def codeOk : Option Nat → Bool
  | none => true
  | some c => c < 2 ^ 32

/-- an interface alternative is a (pointer to a) struct carrying exactly the registered code, or a
typed byte array / typed `[]byte` (by value or through a pointer) with that code. -/
def altShape (c : Nat) : JTy → Bool
  | .struct (some c') _ => c' = c
  | .ptr (.struct (some c') _) => c' = c
  | .typedBytes _ _ c' _ => c' = c
  | _ => false

/-- a typed byte array held by value in a named field is written under the field's key, next to its
`type` member. -/
def fieldKeyOk (key : String) (t : JTy) : Bool :=
  match t.byValueTyped with
  | some _ => key != "type"
  | none => true

mutual
/-- **`JsonExpressible`** as a Boolean function: the shapes whose map form can be decoded again.
Excluded, with the reason:
* a typed byte array whose key is `type` — the two members collide; a pointer to a typed `[]byte`
  (no pointer-to-slice branch);
* map keys other than string / 64-bit integer / untyped byte array — a JSON member name is a
  string, the encoder refuses anything else (checked `k.(string)`, an error since fix round 6); float, time, pointer and
  self-serialising keys are not modelled;
* structs whose flattened key list (own `type`, named keys, keys of embedded and inlined structs
  incl. their `type`) has duplicates — `orderedmap.Set` overwrites;
* `optional` on a type that cannot be nil (rejected by `parseStructFields` anyway);
* pointers to anything but struct / time / array (the encoder has no branch for them);
* interface alternatives that are not a (pointer to a) struct with exactly the registered code or
  typed bytes with that code, codes ≥ 2^32, duplicate codes;
* integer widths other than 8/16/32/64, float widths other than 32/64, object codes ≥ 2^32
  (they are `uint8`/`uint32` in Go). -/
def expressible : JTy → Bool
  | .bool => true
  | .uint w => w = 8 || w = 16 || w = 32 || w = 64
  | .int w => w = 8 || w = 16 || w = 32 || w = 64
  | .float w => w = 32 || w = 64
  | .str _ => true
  | .bytes _ => true
  | .byteArr _ _ => true
  | .typedBytes viaPtr n _ key => (!viaPtr || n.isSome) && key != "type"
  | .u256 => true
  | .time => true
  | .slice _ e => expressible e
  | .array _ e => expressible e
  | .map _ k v => k.keyOk && expressible k && expressible v
  | .struct code fs => codeOk code && nodupB (typeKeys code ++ allKeys fs) && fieldsExpressible fs
  | .ptr t => t.ptrEncodable && expressible t
  | .iface alts => altsExpressible alts []
def fieldsExpressible : Fields → Bool
  | .nil => true
  | .named key opt _ t rest =>
    (!opt || t.nilable) && fieldKeyOk key t && expressible t && fieldsExpressible rest
  | .embedded _ fs rest => fieldsExpressible fs && fieldsExpressible rest
  | .inlined code fs rest => codeOk code && fieldsExpressible fs && fieldsExpressible rest
def altsExpressible : Alts → List Nat → Bool
  | .nil, _ => true
  | .cons c t rest, seen =>
    !seen.contains c && c < 2 ^ 32 && altShape c t && expressible t && altsExpressible rest (c :: seen)
end

def JsonExpressible (t : JTy) : Prop := expressible t = true

instance (t : JTy) : Decidable (JsonExpressible t) := inferInstanceAs (Decidable (_ = true))

/-- pairwise distinct keys of a Go map value. -/
def distinctKeys : List (Val × Val) → Bool
  | [] => true
  | p :: ps => !ps.any (fun q => p.1.keyEq q.1) && distinctKeys ps

mutual
/-- **`ValExpressible`** as a Boolean function: `v` is a value of type `t` (integers in range,
arrays of the right length, map keys pairwise distinct) that the map form can tell apart from every
other value.  Excluded: nil slices and nil maps (JSON has one empty array/object; they come back
non-nil, exactly as from the binary codec), `big.Int` outside `0 ≤ n < 2^256` (the form is a
uint256 quantity: `DecodeUint256` rejects signs and more than 64 digits), times before the epoch
incl. `time.Time{}` (saturated by documented design), floats whose text does not parse back to the
same bits (NaN payloads) and the negative zero (under `omitempty` it is dropped, because
`reflect.Value.IsZero` compares with `== 0`, and comes back as `+0`: equal as Go floats, other bits). -/
def valOk : JTy → Val → Bool
  | .bool, .bool _ => true
  | .uint w, .num n => inU w n
  | .int w, .num n => inS w n
  | .float w, .float b => fc.parse w (fc.fmt w b) == some b && b != 2 ^ (w - 1)
  | .str _, .str _ => true
  | .bytes _, .bytes _ => true
  | .byteArr _ n, .bytes bs => bs.length = n
  | .byteArr true _, .nil => true
  | .typedBytes _ (some n) _ _, .bytes bs => bs.length = n
  | .typedBytes false none _ _, .bytes _ => true
  | .typedBytes true _ _ _, .nil => true
  | .u256, .num n => 0 ≤ n && n < pow2 256
  | .u256, .nil => true
  | .time, .num n => 0 ≤ n && n < pow2 63
  | .slice _ e, .list xs => xs.all (valOk e)
  | .array n e, .list xs => xs.length = n && xs.all (valOk e)
  | .map _ k v, .map es => distinctKeys es && es.all (fun p => valOk k p.1 && valOk v p.2)
  | .struct _ fs, .struct vs => valsOk fs vs
  | .ptr _, .nil => true
  | .ptr t, .some v => valOk t v
  | .iface _, .nil => true
  | .iface alts, .iface c v => altValOk alts c v
  | _, _ => false
def valsOk : Fields → List Val → Bool
  | .nil, [] => true
  | .named _ _ _ t rest, v :: vs => valOk t v && valsOk rest vs
  | .embedded false fs rest, .struct xs :: vs => valsOk fs xs && valsOk rest vs
  | .embedded true fs rest, .some (.struct xs) :: vs => valsOk fs xs && valsOk rest vs
  | .embedded true _ rest, .nil :: vs => valsOk rest vs
  | .inlined _ fs rest, .struct xs :: vs => valsOk fs xs && valsOk rest vs
  | _, _ => false
def altValOk : Alts → Nat → Val → Bool
  | .nil, _, _ => false
  | .cons c t rest, code, v => if c = code then valOk t v else altValOk rest code v
end

def ValExpressible (t : JTy) (v : Val) : Prop := valOk fc t v = true

instance (t : JTy) (v : Val) : Decidable (ValExpressible fc t v) := inferInstanceAs (Decidable (_ = true))

end Hive.SerixJson
