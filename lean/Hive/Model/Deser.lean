import Hive.Model.DeserBase
/-!
# Model of the `serializer.Deserializer` primitives (serializer/serializer.go:529-1258) — C02

A *read program* is a chain of Deserializer calls on one byte string, exactly as the callers write
them (`deseri.ReadNum(..).ReadVariableByteSlice(..)....Done()`): the first call that fails makes
every later call of the chain a no-op (the sticky `d.err`), `Done()` reports the offset.  The
callbacks of `ReadSequenceOfObjects` / `ReadObject` / `ReadSliceOfObjects` / `ReadPayload` are again
read programs, run on a fresh Deserializer over the remaining bytes — as `serix` and every
`Serializable.Deserialize` do.

`runPrim p b` gives the outcome class, the offset `Done()` reports (the bytes consumed when ok; next to
an error the offset the failing call left behind: `derr`), the values read and the cost of one call on
remaining input `b`.  The model is the code after `fix:` cc08572 (ReadVariableByteSlice: return on a
length violation, check the remaining length before `make`).  The helpers of the chain that read nothing
(RemainingBytes, GetObjectType, Do, AbortIf, WithValidation) are primitives too.
-/
namespace Hive.Deser
open Hive.Dec

/-- `serializer.TypeDenotationType` -/
inductive Den
  | none | byte | u32
deriving Repr, DecidableEq

mutual
inductive Prim
  | num (w : Nat)                                  -- ReadNum, dest of `w` bytes
  | bool                                           -- ReadBool
  | byte                                           -- ReadByte
  | u256                                           -- ReadUint256
  | time                                           -- ReadTime
  | fixed (n : Nat)                                -- ReadBytes(numBytes)
  | inplace (n : Nat)                              -- ReadBytesInPlace(slice of len n)
  | vbs (lp : LP) (min max : Nat)                  -- ReadVariableByteSlice
  | str (lp : LP) (min max : Nat)                  -- ReadString
  | skip (n : Nat)                                 -- Skip
  | tprefix (den : Den) (code : Nat)               -- CheckTypePrefix
  | plen                                           -- ReadPayloadLength (+ abort on its error)
  | all                                            -- ConsumedAll
  | seq (lp : LP) (val : Bool) (min max mode : Nat) (item : Prog)      -- ReadSequenceOfObjects
  | obj (den : Den) (alts : Alts)                  -- ReadObject
  | sobj (lp : LP) (den : Den) (val : Bool) (min max mode : Nat) (must : List Nat) (alts : Alts) -- ReadSliceOfObjects
  | payload (alts : Alts)                          -- ReadPayload
  | rem                                            -- RemainingBytes (observed, nothing consumed)
  | gtype (den : Den)                              -- GetObjectType as a call of its own (+ abort on its error)
  | doF                                            -- Do(f): f runs iff the chain has not failed
  | abort (flag : Bool)                            -- AbortIf(errProducer); the producer reports an error iff `flag`
  | wval (val flag : Bool)                         -- WithValidation(mode, errProducer)
inductive Prog
  | nil
  | cons (p : Prim) (rest : Prog)
inductive Alts
  | nil
  | cons (code : Nat) (p : Prog) (rest : Alts)
end

structure DOut where
  res : Res
  n : Nat
  vals : List Val
  cost : Cost
deriving Repr, DecidableEq

def dfail (c : Cost) : DOut := ⟨.err, 0, [], c⟩
/-- a failure after the offset was already advanced by `n` (what `Done()` reports next to the error) -/
def derr (n : Nat) (c : Cost) : DOut := ⟨.err, n, [], c⟩
def dpanic : DOut := ⟨.panic, 0, [], {}⟩
def dok (n : Nat) (vs : List Val) (c : Cost) : DOut := ⟨.ok, n, vs, c⟩

/-- `readSliceLength`: outcome, denoted length, width of the prefix -/
def readSliceLength (lp : LP) (b : Bytes) : Res × Nat × Nat :=
  match lp with
  | .u64 => (.panic, 0, 0)
  | _ => if b.length < lp.width then (.err, 0, 0) else (.ok, leNat (b.take lp.width), lp.width)

/-- `GetObjectType`: peeks, does not consume -/
def getType (den : Den) (b : Bytes) : Option Nat :=
  match den with
  | .none => some 0
  | .byte => match b with
    | [] => none
    | x :: _ => some x.toNat
  | .u32 => if b.length < 4 then none else some (leNat (b.take 4))

/-- `bytes.Compare` -/
def cmp : Bytes → Bytes → Ordering
  | [], [] => .eq
  | [], _ :: _ => .lt
  | _ :: _, [] => .gt
  | a :: as, b :: bs => if a < b then .lt else if b < a then .gt else cmp as bs

/-- state of the element validators built by `ArrayRules.ElementValidationFunc` -/
structure VS where
  seen : List Bytes := []
  prev : Option Bytes := none
  seen1 : List Nat := []
  seen4 : List Nat := []
deriving Repr

def hasBit (m b : Nat) : Bool := (m / b) % 2 == 1

def vUnique (vs : VS) (e : Bytes) : Option VS :=
  if vs.seen.contains e then none else some { vs with seen := e :: vs.seen }

def vLex (noDups : Bool) (vs : VS) (e : Bytes) : Option VS :=
  match vs.prev with
  | none => some { vs with prev := some e }
  | some p =>
    match cmp p e with
    | .gt => none
    | .eq => if noDups then none else some { vs with prev := some e }
    | .lt => some { vs with prev := some e }

def vType1 (vs : VS) (e : Bytes) : Option VS :=
  match e with
  | [] => none
  | x :: _ => if vs.seen1.contains x.toNat then none else some { vs with seen1 := x.toNat :: vs.seen1 }

def vType4 (vs : VS) (e : Bytes) : Option VS :=
  if e.length < 4 then none
  else if vs.seen4.contains (leNat (e.take 4)) then none
  else some { vs with seen4 := leNat (e.take 4) :: vs.seen4 }

/-- the composed element validator: bits 1 (no duplicates), 2 (lexical order), 4, 8 (at most one of
each type, byte / uint32 denotation), applied in this order; also the bytes copied by `string(next)` -/
def validate (mode : Nat) (vs : VS) (e : Bytes) : Option VS × Nat :=
  let uniq := hasBit mode 1 && !hasBit mode 2
  let r1 := if uniq then vUnique vs e else some vs
  let r2 := r1.bind fun vs => if hasBit mode 2 then vLex (hasBit mode 1) vs e else some vs
  let r3 := r2.bind fun vs => if hasBit mode 4 then vType1 vs e else some vs
  let r4 := r3.bind fun vs => if hasBit mode 8 then vType4 vs e else some vs
  (r4, if uniq then e.length else 0)

/-- `ArrayRules.CheckBounds` -/
def boundsViolated (min max cnt : Nat) : Bool := (min != 0 && cnt < min) || (max != 0 && max < cnt)

/-- the loop of `ReadSequenceOfObjects`: `item` is the callback on the remaining bytes, `tyOf` the type
prefix of an element (for `seenTypes`), `tick` what one callback invocation adds to `iters`. -/
def seqLoop (item : Bytes → DOut) (tyOf : Bytes → Nat) (tick : Nat) (val : Bool) (mode : Nat) :
    Nat → Bytes → VS → DOut × List Nat
  | 0, _, _ => (⟨.ok, 0, [], {}⟩, [])
  | k + 1, rest, vs =>
    let o := item rest
    match o.res with
    | .panic => (⟨.panic, 0, [], o.cost + ⟨0, tick⟩⟩, [])
    | .err => (⟨.err, 0, [], o.cost + ⟨0, tick⟩⟩, [])
    | .ok =>
      let v := if val then validate mode vs (rest.take o.n) else (some vs, 0)
      match v.1 with
      | none => (⟨.err, o.n, [], o.cost + ⟨v.2, tick⟩⟩, [])
      | some vs' =>
        let r := seqLoop item tyOf tick val mode k (rest.drop o.n) vs'
        (⟨r.1.res, o.n + r.1.n, o.vals ++ r.1.vals, o.cost + ⟨v.2, tick⟩ + r.1.cost⟩, tyOf rest :: r.2)

/-- `readObject` on the remaining bytes: peek the type, ask the guard (one `iters` tick when the guard
is the per-item guard of `ReadSliceOfObjects`), let the selected object deserialize itself. -/
def objItem (runAlt : Nat → Bytes → Option DOut) (den : Den) (tick : Nat) (b : Bytes) : DOut :=
  match getType den b with
  | none => dfail {}
  | some ty =>
    match runAlt ty b with
    | none => dfail ⟨0, tick⟩
    | some o =>
      -- the offset of a failed object parser is discarded by `readObject` (d.offset stays where it was)
      ⟨o.res, if o.res = .ok then o.n else 0, o.vals, o.cost + ⟨0, tick⟩⟩

/-- seconds that fit a nanosecond int64 timestamp -/
def maxNanoSeconds : Nat := 9223372036

mutual
def runPrim : Prim → Bytes → DOut
  | .num w, b => if b.length < w then dfail {} else dok w [.bytes (b.take w)] {}
  | .bool, b =>
    match b with
    | [] => dfail {}
    | x :: _ => if x = 0 ∨ x = 1 then dok 1 [.bytes [x]] {} else dfail {}
  | .byte, b =>
    match b with
    | [] => dfail {}
    | x :: _ => dok 1 [.bytes [x]] {}
  | .u256, b => if b.length < 32 then dfail {} else dok 32 [.bytes (b.take 32)] ⟨32, 0⟩
  | .time, b =>
    if b.length < 8 then dfail {}
    else
      let ns := leNat (b.take 8)
      dok 8 [.bytes (natLE 8 (if maxNanoSeconds < ns / 1000000000 then 2 ^ 63 - 1 else ns))] {}
  | .fixed n, b => if b.length < n then dfail {} else dok n [.bytes (b.take n)] ⟨n, 0⟩
  | .inplace n, b => if b.length < n then dfail {} else dok n [.bytes (b.take n)] {}
  | .vbs lp min max, b =>
    match readSliceLength lp b with
    | (.panic, _, _) => dpanic
    | (.err, _, _) => dfail {}
    | (.ok, len, w) =>
      if 0 < max ∧ max < len then derr w {}
      else if 0 < min ∧ len < min then derr w {}
      else if (b.drop w).length < len then derr w {}
      else dok (w + len) [.bytes ((b.drop w).take len)] ⟨len, 0⟩
  | .str lp min max, b =>
    match readSliceLength lp b with
    | (.panic, _, _) => dpanic
    | (.err, _, _) => dfail {}
    | (.ok, len, w) =>
      -- the length violation is recorded but the read goes on; the result is an error either way
      if (b.drop w).length < len then derr w {}
      else if (0 < max ∧ max < len) ∨ (0 < min ∧ len < min) then derr (w + len) ⟨len, 0⟩
      else dok (w + len) [.bytes ((b.drop w).take len)] ⟨len, 0⟩
  | .skip n, b => if b.length < n then dfail {} else dok n [] {}
  | .tprefix den code, b =>
    match den with
    | .none => dpanic
    | .byte =>
      match b with
      | [] => dfail {}
      | x :: _ => if x.toNat = code % 256 then dok 1 [] {} else dfail {}
    | .u32 => if b.length < 4 then dfail {} else if leNat (b.take 4) = code then dok 4 [] {} else dfail {}
  | .plen, b => if b.length < 4 then dfail {} else dok 4 [.bytes (b.take 4)] {}
  | .all, b => if b.isEmpty then dok 0 [] {} else dfail {}
  | .seq lp val min max mode item, b =>
    match readSliceLength lp b with
    | (.panic, _, _) => dpanic
    | (.err, _, _) => dfail {}
    | (.ok, cnt, w) =>
      if val && boundsViolated min max cnt then derr w {}
      else
        let r := (seqLoop (runProg item) (fun _ => 0) 1 val mode cnt (b.drop w) {}).1
        ⟨r.res, w + r.n, r.vals, r.cost⟩
  | .obj den alts, b => objItem (runAlts alts) den 0 b
  | .sobj lp den val min max mode must alts, b =>
    match readSliceLength lp b with
    | (.panic, _, _) => dpanic
    | (.err, _, _) => dfail {}
    | (.ok, cnt, w) =>
      if val && boundsViolated min max cnt then derr w {}
      else
        let r := seqLoop (objItem (runAlts alts) den 1) (fun e => (getType den e).getD 0) 0 val mode cnt (b.drop w) {}
        match r.1.res with
        | .ok =>
          if val && !(must.all fun m => r.2.contains m) then derr (w + r.1.n) r.1.cost
          else ⟨.ok, w + r.1.n, r.1.vals ++ (if cnt = 0 then [] else [.size cnt]), r.1.cost⟩
        | _ => ⟨r.1.res, w + r.1.n, [], r.1.cost⟩
  | .payload alts, b =>
    if b.length < 4 then dfail {}
    else
      let len := leNat (b.take 4)
      let b' := b.drop 4
      if len = 0 then dok 4 [] {}
      else if b'.length < 5 then derr 4 {}
      else if b'.length < len then derr 4 {}
      else
        match runAlts alts (leNat (b'.take 4)) b' with
        | none => derr 4 {}
        | some o =>
          match o.res with
          | .ok => if o.n = len then ⟨.ok, 4 + o.n, o.vals, o.cost⟩ else derr 4 o.cost
          | _ => ⟨o.res, 4, [], o.cost⟩
  | .rem, b => dok 0 [.bytes b] {}
  | .gtype den, b =>
    match getType den b with
    | none => dfail {}
    | some ty => dok 0 [.size ty] {}
  | .doF, _ => dok 0 [.size 0] {}
  | .abort flag, _ => if flag then dfail {} else dok 0 [] {}
  | .wval val flag, _ => if val then (if flag then dfail {} else dok 0 [.size 1] {}) else dok 0 [] {}
def runProg : Prog → Bytes → DOut
  | .nil, _ => ⟨.ok, 0, [], {}⟩
  | .cons p rest, b =>
    let o := runPrim p b
    match o.res with
    | .ok =>
      let o2 := runProg rest (b.drop o.n)
      ⟨o2.res, o.n + o2.n, o.vals ++ o2.vals, o.cost + o2.cost⟩
    | _ => ⟨o.res, o.n, [], o.cost⟩
/-- the read guard: the alternative registered for a type code deserializes itself -/
def runAlts : Alts → Nat → Bytes → Option DOut
  | .nil, _, _ => none
  | .cons code p rest, ty, b => if code = ty then some (runProg p b) else runAlts rest ty b
end

/-! ### `SerializableOrderedMap.Decode` and `typeutils` -/

/-- `for range mapSize { key; duplicate check; value }` with fixed-width unsigned keys and values
(serix.Decode of a uintN is `ReadNum`); `seen` = the keys decoded by this call so far (a key that occurs
twice in the serialized bytes is an error since `fix:` dde4606).  Result class, bytes read, rounds. -/
def omapLoop (kw vw : Nat) : Nat → Bytes → Nat → List Bytes → Res × Nat × Nat
  | 0, _, acc, _ => (.ok, acc, 0)
  | k + 1, b, acc, seen =>
    if b.length < kw then (.err, 0, 1)
    else if seen.contains (b.take kw) then (.err, 0, 1)
    else if (b.drop kw).length < vw then (.err, 0, 1)
    else
      let r := omapLoop kw vw k (b.drop (kw + vw)) (acc + kw + vw) (b.take kw :: seen)
      (r.1, r.2.1, r.2.2 + 1)

def omapDecode (kw vw : Nat) (b : Bytes) : Res × Nat × Nat :=
  if b.length < 4 then (.err, 0, 0) else omapLoop kw vw (leNat (b.take 4)) (b.drop 4) 4 []

/-- `typeutils.Uint64FromBytes` (n = 8) / `ByteArray32FromBytes` (n = 32) -/
def fromBytesFixed (n : Nat) (b : Bytes) : Option (Bytes × Nat) :=
  if b.length < n then none else some (b.take n, n)

/-! ### line protocol -/
open Hive.Proto

def parseDen : String → Option Den
  | "d0" => some .none
  | "d1" => some .byte
  | "d4" => some .u32
  | _ => none

def parseMust (s : String) : Option (List Nat) :=
  if s == "-" then some [] else (s.splitOn ",").mapM String.toNat?

mutual
/-- programs: tokens up to the matching `)` (fuel = number of tokens) -/
def parseD : Nat → List String → Option (Prog × List String)
  | 0, _ => none
  | _ + 1, [] => some (.nil, [])
  | _ + 1, ")" :: ts => some (.nil, ts)
  | f + 1, "n" :: w :: ts => do
    let (r, ts') ← parseD f ts
    pure (.cons (.num (← w.toNat?)) r, ts')
  | f + 1, "b" :: ts => do let (r, ts') ← parseD f ts; pure (.cons .bool r, ts')
  | f + 1, "y" :: ts => do let (r, ts') ← parseD f ts; pure (.cons .byte r, ts')
  | f + 1, "u" :: ts => do let (r, ts') ← parseD f ts; pure (.cons .u256 r, ts')
  | f + 1, "t" :: ts => do let (r, ts') ← parseD f ts; pure (.cons .time r, ts')
  | f + 1, "l" :: ts => do let (r, ts') ← parseD f ts; pure (.cons .plen r, ts')
  | f + 1, "a" :: ts => do let (r, ts') ← parseD f ts; pure (.cons .all r, ts')
  | f + 1, "R" :: ts => do let (r, ts') ← parseD f ts; pure (.cons .rem r, ts')
  | f + 1, "D" :: ts => do let (r, ts') ← parseD f ts; pure (.cons .doF r, ts')
  | f + 1, "g" :: d :: ts => do let (r, ts') ← parseD f ts; pure (.cons (.gtype (← parseDen d)) r, ts')
  | f + 1, "A" :: fl :: ts => do let (r, ts') ← parseD f ts; pure (.cons (.abort (fl == "1")) r, ts')
  | f + 1, "W" :: v :: fl :: ts => do let (r, ts') ← parseD f ts; pure (.cons (.wval (v == "1") (fl == "1")) r, ts')
  | f + 1, "f" :: n :: ts => do let (r, ts') ← parseD f ts; pure (.cons (.fixed (← n.toNat?)) r, ts')
  | f + 1, "i" :: n :: ts => do let (r, ts') ← parseD f ts; pure (.cons (.inplace (← n.toNat?)) r, ts')
  | f + 1, "k" :: n :: ts => do let (r, ts') ← parseD f ts; pure (.cons (.skip (← n.toNat?)) r, ts')
  | f + 1, "v" :: lp :: mn :: mx :: ts => do
    let (r, ts') ← parseD f ts
    pure (.cons (.vbs (← parseLP lp) (← mn.toNat?) (← mx.toNat?)) r, ts')
  | f + 1, "s" :: lp :: mn :: mx :: ts => do
    let (r, ts') ← parseD f ts
    pure (.cons (.str (← parseLP lp) (← mn.toNat?) (← mx.toNat?)) r, ts')
  | f + 1, "c" :: d :: code :: ts => do
    let (r, ts') ← parseD f ts
    pure (.cons (.tprefix (← parseDen d) (← code.toNat?)) r, ts')
  | f + 1, "q" :: lp :: v :: mn :: mx :: mode :: "(" :: ts => do
    let (item, ts1) ← parseD f ts
    let (r, ts2) ← parseD f ts1
    pure (.cons (.seq (← parseLP lp) (v == "1") (← mn.toNat?) (← mx.toNat?) (← mode.toNat?) item) r, ts2)
  | f + 1, "o" :: d :: "[" :: ts => do
    let (alts, ts1) ← parseAlts f ts
    let (r, ts2) ← parseD f ts1
    pure (.cons (.obj (← parseDen d) alts) r, ts2)
  | f + 1, "r" :: lp :: d :: v :: mn :: mx :: mode :: must :: "[" :: ts => do
    let (alts, ts1) ← parseAlts f ts
    let (r, ts2) ← parseD f ts1
    pure (.cons (.sobj (← parseLP lp) (← parseDen d) (v == "1") (← mn.toNat?) (← mx.toNat?) (← mode.toNat?)
      (← parseMust must) alts) r, ts2)
  | f + 1, "p" :: "[" :: ts => do
    let (alts, ts1) ← parseAlts f ts
    let (r, ts2) ← parseD f ts1
    pure (.cons (.payload alts) r, ts2)
  | _ + 1, _ => none
def parseAlts : Nat → List String → Option (Alts × List String)
  | 0, _ => none
  | _ + 1, "]" :: ts => some (.nil, ts)
  | f + 1, "(" :: code :: ts => do
    let (p, ts1) ← parseD f ts
    let (r, ts2) ← parseAlts f ts1
    pure (.cons (← code.toNat?) p r, ts2)
  | _ + 1, _ => none
end

def showOut (o : DOut) : String :=
  match o.res with
  | .ok => s!"ok {o.n} {o.cost.iters} {showVals o.vals}"
  | .err => s!"err {o.n} {o.cost.iters}"
  | .panic => "panic"

/-- `d HEX prog…`, `m KW VW HEX`, `tu u64|a32 HEX` -/
def stepLine (toks : List String) : String :=
  match toks with
  | "d" :: d :: ps =>
    match unhex d, parseD (ps.length + 1) ps with
    | some d, some (p, _) => showOut (runProg p d)
    | _, _ => "bad-op"
  | ["m", kw, vw, d] =>
    match kw.toNat?, vw.toNat?, unhex d with
    | some kw, some vw, some d =>
      match omapDecode kw vw d with
      | (.ok, n, _) => s!"ok {n}"
      | _ => "err"
    | _, _, _ => "bad-op"
  | ["tu", k, d] =>
    match unhex d with
    | some d =>
      match fromBytesFixed (if k == "u64" then 8 else 32) d with
      | some (v, n) => s!"ok {n} {hex v}"
      | none => "err"
    | none => "bad-op"
  | _ => "bad-op"

end Hive.Deser
