/-!
# A small imperative language for kvstore/sequence.go and its interpreter (C07)

`harness/c07/srcgen` translates the four functions of kvstore/sequence.go (go/ast) into terms of `S` on every run
(`Hive/Gen/C07_Ast.lean`).  This file gives those terms their meaning: `uint64` arithmetic wraps at 2^64, `return` leaves the
function from any depth, the tagless `switch` takes its first true case, a store call can fail (flags `getFail` / `setFail` of the
machine: the I/O error of `failNext get|set` / `failRelease`), `seq.update()` runs the translated `update` with its own locals.
`Hive/Props/C07d.lean` proves that the interpreted functions compute exactly the steps of the hand-written model
`Hive.Seq.step` — so the model is no longer only *tested* against the code, the sequential part of it is *derived* from the
source text the check runs on.

Simplifications (stated, not hidden): local variables are numbered per function (scopes are flattened; the generated terms
never shadow), the 8-byte buffer holds the number it encodes (`binary.BigEndian.PutUint64` / `Uint64` are inverse on 64-bit
values: `C07_mark_encoding_roundtrip`), `seq.Lock()` / `defer seq.Unlock()` have no sequential effect (their place is pinned
by `C07_skeleton_*` and used by the protocol model), error values are `0` = nil, `1` = `ErrKeyNotFound`, `2` = an I/O error of
the store, `3` = `ErrSequenceExhausted`.
-/
namespace Hive.Seq.Go

inductive Fld
  | interval | next | reserved
deriving Repr, DecidableEq

inductive E
  | fld (f : Fld)
  | loc (i : Nat)
  | lit (n : Nat)
  | maxU64
  | nilE
  | errExhausted
  | self                      -- the receiver / the constructed object (only in `return seq, nil`)
  | add (a b : E)
  | sub (a b : E)
  | unsupported (text : String)
deriving Repr

inductive C
  | ge (a b : E) | gt (a b : E) | lt (a b : E) | le (a b : E) | eq (a b : E) | ne (a b : E)
  | isNil (i : Nat) | notNil (i : Nat)
  | isNotFound (i : Nat)      -- `ierrors.Is(x, ErrKeyNotFound)`
  | tt                        -- `default:`
  | unsupported (text : String)
deriving Repr

inductive S
  | lock
  | deferUnlock
  | panic
  | varBuf (i : Nat)                      -- `var buf [8]byte`
  | setLoc (i : Nat) (e : E)              -- `x := e` / `x = e`
  | setFld (f : Fld) (e : E)              -- `seq.f = e`
  | incFld (f : Fld)                      -- `seq.f++`
  | get (iv ie : Nat)                     -- `value, err := seq.store.Get(seq.key)`
  | put (ib : Nat) (e : E)                -- `binary.BigEndian.PutUint64(buf[:], e)`
  | set (ie ib : Nat)                     -- `err = seq.store.Set(seq.key, buf[:])`
  | decode (i iv : Nat)                   -- `num := binary.BigEndian.Uint64(value)`
  | update (ie : Nat)                     -- `err := seq.update()`
  | ite (pre : List S) (c : C) (thn els : List S)
  | sw (cases : List (C × List S))
  | ret (es : List E)
  | unsupported (text : String)
deriving Repr

def two64 : Nat := 18446744073709551616

/-! `uint64` arithmetic: wraps at 2^64. -/
def u64 (n : Nat) : Nat := n % two64
def u64add (a b : Nat) : Nat := (a + b) % two64
def u64sub (a b : Nat) : Nat := (a + two64 - b) % two64
/-- `math.MaxUint64` -/
def maxU : Nat := two64 - 1

/-- The machine: the store cell, the object's fields, the locals of the running function, the fault flags. -/
structure M where
  store : Option Nat
  interval : Nat
  next : Nat
  reserved : Nat
  locals : Nat → Nat
  getFail : Bool
  setFail : Bool
  /-- ghost: the store calls made so far, oldest first: (`true` = `Set`, `false` = `Get`; did it fail; the store cell after it) —
  the boundaries at which the process can stop (the crash points of the model) -/
  trace : List (Bool × Bool × Option Nat)

def M.setLocal (m : M) (i v : Nat) : M := { m with locals := fun j => if j = i then v else m.locals j }

def M.fld (m : M) : Fld → Nat
  | .interval => m.interval
  | .next => m.next
  | .reserved => m.reserved

def M.setFld (m : M) (f : Fld) (v : Nat) : M :=
  match f with
  | .interval => { m with interval := v }
  | .next => { m with next := v }
  | .reserved => { m with reserved := v }

def evalE (m : M) : E → Nat
  | .fld f => m.fld f
  | .loc i => m.locals i
  | .lit n => u64 n
  | .maxU64 => maxU
  | .nilE => 0
  | .errExhausted => 3
  | .self => 0
  | .add a b => u64add (evalE m a) (evalE m b)
  | .sub a b => u64sub (evalE m a) (evalE m b)
  | .unsupported _ => 0

def evalC (m : M) : C → Bool
  | .ge a b => evalE m a ≥ evalE m b
  | .gt a b => evalE m a > evalE m b
  | .lt a b => evalE m a < evalE m b
  | .le a b => evalE m a ≤ evalE m b
  | .eq a b => evalE m a = evalE m b
  | .ne a b => evalE m a ≠ evalE m b
  | .isNil i => m.locals i = 0
  | .notNil i => m.locals i ≠ 0
  | .isNotFound i => m.locals i = 1
  | .tt => true
  | .unsupported _ => false

/-- Result of running statements: the machine, and the returned values if a `return` was reached. -/
abbrev R := M × Option (List Nat)

mutual
/-- `u` is the meaning of `seq.update()`: the machine after it and the error it returned. -/
def execS (u : M → M × Nat) : S → M → R
  | .lock, m => (m, none)
  | .deferUnlock, m => (m, none)
  | .panic, m => (m, some [])
  | .varBuf i, m => (m.setLocal i 0, none)
  | .setLoc i e, m => (m.setLocal i (evalE m e), none)
  | .setFld f e, m => (m.setFld f (evalE m e), none)
  | .incFld f, m => (m.setFld f (u64add (m.fld f) 1), none)
  | .get iv ie, m =>
    if m.getFail then (({ m with trace := m.trace ++ [(false, true, m.store)] }.setLocal iv 0).setLocal ie 2, none)
    else match m.store with
      | none => (({ m with trace := m.trace ++ [(false, false, m.store)] }.setLocal iv 0).setLocal ie 1, none)
      | some v => (({ m with trace := m.trace ++ [(false, false, m.store)] }.setLocal iv v).setLocal ie 0, none)
  | .put ib e, m => (m.setLocal ib (evalE m e), none)
  | .set ie ib, m =>
    if m.setFail then ({ m with trace := m.trace ++ [(true, true, m.store)] }.setLocal ie 2, none)
    else ({ m with store := some (m.locals ib), trace := m.trace ++ [(true, false, some (m.locals ib))] }.setLocal ie 0, none)
  | .decode i iv, m => (m.setLocal i (m.locals iv), none)
  | .update ie, m =>
    let r := u { m with locals := fun _ => 0 }
    ({ r.1 with locals := m.locals }.setLocal ie r.2, none)
  | .ite pre c t e, m =>
    match execL u pre m with
    | (m', some r) => (m', some r)
    | (m', none) => if evalC m' c then execL u t m' else execL u e m'
  | .sw cs, m => execC u cs m
  | .ret es, m => (m, some (es.map (evalE m)))
  | .unsupported _, m => (m, some [])
def execL (u : M → M × Nat) : List S → M → R
  | [], m => (m, none)
  | s :: rest, m =>
    match execS u s m with
    | (m', none) => execL u rest m'
    | (m', some r) => (m', some r)
def execC (u : M → M × Nat) : List (C × List S) → M → R
  | [], m => (m, none)
  | (c, b) :: rest, m => if evalC m c then execL u b m else execC u rest m
end

/-- `seq.update()` given the translated body: its single result is the error. -/
def runUpdate (upd : List S) (m : M) : M × Nat :=
  let r := execL (fun m => (m, 0)) upd m
  (r.1, (r.2.getD []).headD 0)

/-- A method whose body may call `seq.update()`. -/
def runMethod (body upd : List S) (m : M) : R := execL (runUpdate upd) body m

/-! ### Is every construct understood?  (decidable on the generated terms) -/

def okE : E → Bool
  | .unsupported _ => false
  | .add a b => okE a && okE b
  | .sub a b => okE a && okE b
  | _ => true

def okC : C → Bool
  | .ge a b | .gt a b | .lt a b | .le a b | .eq a b | .ne a b => okE a && okE b
  | .unsupported _ => false
  | _ => true

mutual
def okS : S → Bool
  | .unsupported _ => false
  | .setLoc _ e => okE e
  | .setFld _ e => okE e
  | .put _ e => okE e
  | .ite pre c t e => okL pre && okC c && okL t && okL e
  | .sw cs => okCs cs
  | .ret es => es.all okE
  | _ => true
def okL : List S → Bool
  | [] => true
  | s :: rest => okS s && okL rest
def okCs : List (C × List S) → Bool
  | [] => true
  | (c, b) :: rest => okC c && okL b && okCs rest
end

end Hive.Seq.Go
