import Hive.Model.WorkerPoolVar
/-!
# Schedules of the VARIANT WorkerPool model (witnesses only)

Schedules are written as readable moves (`cl i` = client thread `i`, `disp` = the dispatcher,
`wk k j` = worker `k`'s `j`-th enabled alternative) and translated to the `(thread, successor)` index
pairs that `Hive.Conc.runSched` executes.  The driver replays them for the `sched` requests; the
`_witness` theorems of `Hive/Props/C16.lean` are about the resulting literal index lists.
-/
namespace Hive.WPVar
open Hive.Conc
open Hive.WP

inductive Mv
  | cl (i : Nat) | clj (i j : Nat) | disp (j : Nat := 0) | wk (k : Nat) (j : Nat := 0)
deriving Repr

/-- Index of the move among the successors of its thread (the runner is the last thread). -/
def mvIndex (p : Params) (c : Cfg St Thr) : Mv → Nat × Nat
  | .cl i => (i, 0)
  | .clj i j => (i, j)
  | .disp j => (c.2.length - 1, j)
  | .wk k j =>
    (c.2.length - 1,
     (dispStep p c.1).length +
       ((List.range k).map (fun i => match c.1.workers[i]? with
          | some w => (wStep p c.1 w).length
          | none => 0)).sum + j)

def schedOf (p : Params) : Cfg St Thr → List Mv → List (Nat × Nat)
  | _, [] => []
  | c, m :: ms => mvIndex p c m :: schedOf p (runSched (sys p) c [mvIndex p c m]) ms

def stuckB (p : Params) (c : Cfg St Thr) : Bool := c.2.all (fun t => ((sys p).step c.1 t).isEmpty)

def countPhase (s : St) (f : Phase → Bool) : Nat := s.tasks.countP (fun x => f x.phase)

/-- Canonical outcome of a finished scenario, printed identically by the Go harness. -/
def outcome (c : Cfg St Thr) : String :=
  let s := c.1
  s!"running={s.running} pending={s.pending} queued={(queuedIds s).length} " ++
  s!"accepted={s.tasks.countP (fun x => x.returned && x.phase != .rejected)} " ++
  s!"rejected={countPhase s (· == .rejected)} runs={countPhase s (· == .done)} " ++
  s!"complete={if wg s = 0 then "yes" else "hang"} zero={if s.pending = 0 then "yes" else "hang"}"

def leaf : Body := .node []

structure Scenario where
  name : String
  p : Params
  scripts : List (List Op)
  moves : List Mv

def Scenario.init (sc : Scenario) : Cfg St Thr := (St.init, mkClients sc.scripts)
def Scenario.sched (sc : Scenario) : List (Nat × Nat) := schedOf sc.p sc.init sc.moves
def Scenario.final (sc : Scenario) : Cfg St Thr := runSched (sys sc.p) sc.init sc.sched

/-- `hasWork` reads the counter first: the dispatcher's first look sees `pending = 0`; then a `Submit` is accepted and
pushed and a `Shutdown` switches the pool off; the dispatcher reads "not running", leaves its loop and closes the
dispatch channel.  The accepted task sits in a queue nobody serves. -/
def scHasWorkSwapped : Scenario where
  name := "haswork-swapped"
  p := { W := 1, cancel := false, swapHasWork := true }
  scripts := [[.start], [.submit leaf], [.shutdown, .waitComplete]]
  moves := [.cl 0, .cl 0, .disp] ++ [.cl 1, .cl 1, .cl 1, .cl 1] ++ List.replicate 6 (.cl 2) ++
    [.disp, .disp, .wk 0, .wk 0, .cl 2, .cl 2]

/-- `SignalShutdown` signals ONE waiter: a foreign goroutine sleeps in `Queue.WaitSizeIsAbove`; `Shutdown`'s signal
reaches it instead of the dispatcher, which sleeps for ever; `ShutdownComplete.Wait()` never returns. -/
def scSignalOne : Scenario where
  name := "signal-one"
  p := { W := 1, cancel := false, signalOne := true }
  scripts := [[.start], [.waitAbove 5], [.shutdown, .waitComplete]]
  moves := [.cl 0, .cl 0, .disp, .disp, .disp, .disp] ++ [.cl 1, .cl 1] ++
    [.cl 2, .cl 2, .cl 2, .cl 2, .cl 2] ++ [.clj 2 1] ++ [.cl 1, .cl 1, .wk 0, .cl 2]

def scenarios : List Scenario := [scHasWorkSwapped, scSignalOne]

end Hive.WPVar
