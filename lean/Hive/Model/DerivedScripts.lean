import Hive.Model.DerivedLockSys
import Hive.Gen.C14_Skel
/-!
# Lock scripts derived from the regenerated skeletons

The scripts of `C14_deadlock_free` are no longer written by hand: they are *computed* from the token
lists of `Hive/Gen/C14_Skel.lean` (regenerated from the working tree on every run) by a small
interpreter.  What stays hand-written is the glue that no single function shows:

* the meaning of a token in the context of a function (`Env`): which lock role a `lock X` token
  stands for, which sub-template a `call`/`helper` token expands to (e.g. `helper updateValue` ↦ the
  template derived from `skel_variable_updateValue`, `call registeredCallback.Invoke` ↦ the template
  derived from the closure that was registered), and that the generator passed to `updateValue` runs
  inside the condition of its `if`;
* which token lists are closures (`nthFunc`) and that closure literals are not executed where they are
  written.

Every token must be known to the environment (`none` = derivation failure, the template is then not
ranked), so a new lock / call in the code cannot be ignored silently.  Control-flow tokens are
flattened: both branches of an `if` and one iteration of a `for` are laid out in source order.
-/
namespace Hive.Derived.Scr
open Hive.Derived

inductive Item
  | acts (l : List TAct)            -- effect of the token, in place
  | deferred (l : List TAct)        -- effect at function exit (LIFO)
  | skip                            -- known and irrelevant (control flow, lock-free calls)
  | func                            -- `func{`: closure literal, not executed here (skipped up to its `}func`)
  | deferFunc (l : List TAct)       -- `defer func{`: literal skipped, its effect `l` runs at function exit
deriving Repr

abbrev Env := List (String × Item)

def Env.find (env : Env) (t : String) : Option Item :=
  match env with
  | [] => none
  | (k, v) :: rest => if t = k then some v else Env.find rest t

/-- Drop tokens up to and including the `}func` matching an already consumed `func{`. -/
def dropFunc : Nat → List String → List String
  | _, [] => []
  | d, t :: ts =>
    if t = "func{" ∨ t = "defer func{" then dropFunc (d + 1) ts
    else if t = "}func" then (match d with | 0 => ts | d' + 1 => dropFunc d' ts)
    else dropFunc d ts

/-- The tokens of the body of an already opened closure literal. -/
def takeFunc : Nat → List String → List String
  | _, [] => []
  | d, t :: ts =>
    if t = "func{" ∨ t = "defer func{" then t :: takeFunc (d + 1) ts
    else if t = "}func" then (match d with | 0 => [] | d' + 1 => t :: takeFunc d' ts)
    else t :: takeFunc d ts

/-- Body of the `n`-th closure literal at nesting depth 0 of `toks`. -/
def nthFunc : Nat → Nat → List String → List String
  | 0, _, _ => []
  | _, _, [] => []
  | fuel + 1, n, t :: ts =>
    if t = "func{" ∨ t = "defer func{" then
      (match n with
       | 0 => takeFunc 0 ts
       | n' + 1 => nthFunc fuel n' (dropFunc 0 ts))
    else nthFunc fuel n ts

/-- Control-flow tokens, known in every context. -/
def control : Env :=
  [("if{", .skip), ("}if", .skip), ("}else{", .skip), ("for{", .skip), ("}for", .skip), ("return", .skip), ("break", .skip),
   ("func{", .func)]

/-- The interpreter: `none` if a token is unknown. -/
def interp (env : Env) : Nat → List String → List TAct → Option (List TAct)
  | 0, _, _ => none
  | _, [], defers => some defers
  | fuel + 1, t :: ts, defers =>
    match (env ++ control).find t with
    | none => none
    | some (.acts l) => (interp env fuel ts defers).map (l ++ ·)
    | some (.deferred l) => interp env fuel ts (l ++ defers)
    | some .skip => interp env fuel ts defers
    | some .func => interp env fuel (dropFunc 0 ts) defers
    | some (.deferFunc l) => interp env fuel (dropFunc 0 ts) (l ++ defers)

def template (env : Env) (toks : List String) : List TAct := (interp env (toks.length + 1) toks []).getD [.rel ⟨.inValue, 999⟩]

end Hive.Derived.Scr
