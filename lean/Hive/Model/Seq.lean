import Hive.Base.Proto
/-!
# Model of `kvstore.Sequence` (kvstore/sequence.go) for C07

The backing store holds one high-water mark under the sequence's key.  At most one `Sequence`
object is live at a time; a crash abandons it at a store-operation boundary (between calls, after
the store read of `update`, after the store write of `update`, after the store write of `Release`)
and it is never used again.  Numbers are `Nat`s; the code's are `uint64`: `update` caps a lease at
`cap` = 2^64-1 (`math.MaxUint64`) and reports exhaustion when nothing is left, and `C07_no_wrap` shows that no
value of the model ever exceeds `cap`, so the two arithmetics coincide.
-/
namespace Hive.Seq

structure Obj where
  interval : Nat
  next : Nat
  reserved : Nat
deriving Repr, DecidableEq

/-- Where a crash hits the live object. -/
inductive CrashAt
  | idle        -- between two calls
  | nextRead    -- inside Next/update: after the store read, before the store write
  | nextWrite   -- inside Next/update: after the store write, before the number is handed out
  | relWrite    -- inside Release: after the store write
deriving Repr, DecidableEq

/-- Which store call of a `Next` fails with an I/O error (the call returns the error to its caller). -/
inductive FailAt
  | get   -- the store read of `update`
  | set   -- the store write of `update`
deriving Repr, DecidableEq

inductive Op
  | new (interval : Nat)   -- NewSequence over the same store and key (abandons a live object)
  | next
  | release
  | crash (pt : CrashAt)
  | failNext (f : FailAt)  -- Next whose store read / write returns an error
  | failRelease            -- Release whose store write returns an error
deriving Repr, DecidableEq

inductive Out
  | ok
  | num (n : Nat)
  | crashed
  | noobj
  | err
deriving Repr, DecidableEq

structure St where
  store : Option Nat        -- value stored under the key
  obj : Option Obj          -- the live Sequence object
  returned : List Nat       -- ghost: every number ever handed out, newest first
  budget : Nat              -- ghost: sum of the intervals of all abandoned objects
deriving Repr

def init : St := { store := none, obj := none, returned := [], budget := 0 }

def mark (s : St) : Nat := s.store.getD 0

/-- `math.MaxUint64`: the end of the number space. -/
def cap : Nat := 18446744073709551615

/-- The lease `update()` takes at mark `m` with interval `i`: the interval, cut off at the end of the number
space (`lease := interval; if remaining := MaxUint64 - next; lease > remaining { lease = remaining }`). -/
def lease (m i : Nat) : Nat := min i (cap - m)

/-- `update()` with a non-empty lease: read the mark (0 if absent), reserve the lease, write it back. -/
def update (m : Nat) (o : Obj) : Obj × Nat :=
  ({ o with next := m, reserved := m + lease m o.interval }, m + lease m o.interval)

/-- A lease is held iff numbers remain that can be served from memory. -/
def hasLease (o : Obj) : Bool := o.next < o.reserved

def abandon (s : St) : St :=
  match s.obj with
  | none => s
  | some o => { s with obj := none, budget := s.budget + o.interval }

def step (s : St) : Op → St × Out
  | .new i => ({ abandon s with obj := some { interval := i, next := 0, reserved := 0 } }, .ok)
  | .next =>
    match s.obj with
    | none => (s, .noobj)
    | some o =>
      if hasLease o then
        ({ s with obj := some { o with next := o.next + 1 }, returned := o.next :: s.returned }, .num o.next)
      else if lease (mark s) o.interval = 0 then
        -- `return ErrSequenceExhausted`: `seq.next = num` happened, nothing was written
        ({ s with obj := some { o with next := mark s } }, .err)
      else
        let (o', m') := update (mark s) o
        ({ s with store := some m', obj := some { o' with next := o'.next + 1 },
                  returned := o'.next :: s.returned }, .num o'.next)
  | .release =>
    match s.obj with
    | none => (s, .noobj)
    | some o =>
      -- repaired code: nothing is written unless a lease is held
      if hasLease o then ({ s with store := some o.next, obj := some { o with reserved := o.next } }, .ok)
      else (s, .ok)
  | .crash pt =>
    match s.obj with
    | none => (s, .noobj)
    | some o =>
      match pt with
      | .idle => (abandon s, .crashed)
      | .nextRead =>
        if hasLease o then
          -- Next makes no store call: it completes, then the object is abandoned
          (abandon { s with returned := o.next :: s.returned }, .num o.next)
        else (abandon s, .crashed)
      | .nextWrite =>
        if hasLease o then
          (abandon { s with returned := o.next :: s.returned }, .num o.next)
        else if lease (mark s) o.interval = 0 then
          -- exhausted: no store write is made, the call returns its error and the object lives on
          ({ s with obj := some { o with next := mark s } }, .err)
        else (abandon { s with store := some (mark s + lease (mark s) o.interval) }, .crashed)
      | .relWrite =>
        if hasLease o then (abandon { s with store := some o.next }, .crashed)
        else (abandon s, .ok)   -- Release makes no store call and returns

  | .failNext f =>
    match s.obj with
    | none => (s, .noobj)
    | some o =>
      if hasLease o then
        -- served from memory: no store call is made, nothing can fail
        ({ s with obj := some { o with next := o.next + 1 }, returned := o.next :: s.returned }, .num o.next)
      else
        match f with
        | .get => (s, .err)                                   -- `update` returns before touching the object
        | .set => ({ s with obj := some { o with next := mark s } }, .err)   -- `seq.next = num` happened, reserved did not
  | .failRelease =>
    match s.obj with
    | none => (s, .noobj)
    | some o =>
      if hasLease o then (s, .err)      -- the write failed: `reserved` is not touched
      else (s, .ok)                     -- nothing leased: no store call, returns nil

def run (s : St) : List Op → St × List Out
  | [] => (s, [])
  | op :: ops =>
    let (s', o) := step s op
    let (s'', os) := run s' ops
    (s'', o :: os)

def final (s : St) (ops : List Op) : St := ops.foldl (fun s op => (step s op).1) s

/-- Intervals are positive (`NewSequence` panics on 0). -/
def Op.wf : Op → Prop
  | .new i => 0 < i
  | _ => True

/-! ## line protocol -/
open Hive.Proto

def parseOp : List String → Option Op
  | ["new", i] => i.toNat?.map .new
  | ["next"] => some .next
  | ["release"] => some .release
  | ["crash", "idle"] => some (.crash .idle)
  | ["crash", "read"] => some (.crash .nextRead)
  | ["crash", "write"] => some (.crash .nextWrite)
  | ["crash", "relwrite"] => some (.crash .relWrite)
  | ["fnext", "get"] => some (.failNext .get)
  | ["fnext", "set"] => some (.failNext .set)
  | ["frelease"] => some .failRelease
  -- the database is shut down right AFTER it took the write of this call (and opened again after the call): the call is an
  -- ordinary successful Next / Release - the write happened before the shutdown
  | ["cnext"] => some .next
  | ["crelease"] => some .release
  | _ => none

def showOut : Out → String
  | .ok => "ok"
  | .num n => s!"num {n}"
  | .crashed => "crashed"
  | .noobj => "noobj"
  | .err => "err"

/-- `n` consecutive `next` steps (the sequential meaning of `n` concurrent, mutex-serialised calls). -/
def nexts : Nat → St → List Nat → St × List Nat
  | 0, s, acc => (s, acc.reverse)
  | n + 1, s, acc =>
    match step s .next with
    | (s', .num k) => nexts n s' (k :: acc)
    | (s', _) => nexts n s' acc

/-- Sequential request lines without the state observation. -/
def stepLineCore (s : St) (toks : List String) : St × String :=
  match toks with
  | ["mark"] => (s, showOptNat s.store)
  | "parrel" :: _ => (s, "ok")   -- concurrent Next vs Release: last request of a case, judged by the Go oracle only
  | ["sibling", _] => (s, "ok")  -- a sibling view of the store is opened and written: invisible to the sequence
  | "foreign" :: _ => (s, "ok")  -- other users of the store write / delete / delete by prefix / clear / batch / iterate OTHER keys and realms
  | "cfg" :: _ => (s, "ok")      -- harness configuration (key, backend, wrapped not-found errors): invisible
  | [p, g, k] =>
    -- `par`: g×k concurrent Next calls; `parfr`: the same with foreign readers of another key on the same handle
    if p != "par" && p != "parfr" then (s, "bad-op") else
    match g.toNat?, k.toNat?, s.obj with
    | some g, some k, some _ =>
      let (s', ns) := nexts (g * k) s []
      match ns.head?, ns.getLast? with
      | some a, some b => (s', s!"range {a} {b}")
      | _, _ => (s', "range-empty")
    | some _, some _, none => (s, "noobj")
    | _, _, _ => (s, "bad-op")
  | _ =>
    match parseOp toks with
    | some (.new 0) => (s, "bad-op")
    | some op => let (s', o) := step s op; (s', showOut o)
    | none => (s, "bad-op")

/-! ### What the harness observes after every request, besides the answer

The private fields of the live object (`interval/next/reserved`, read by reflection), the raw bytes stored
under the key (8 bytes, big endian) and the store calls the request made (`G`/`S` = `store.Get`/`store.Set`
returned, `g`/`s` = the call failed with the injected I/O error). -/

/-- `binary.BigEndian.PutUint64`: the 8 bytes of `n` (< 2^64), most significant first. -/
def be8 (n : Nat) : List Nat :=
  [n / 72057594037927936 % 256, n / 281474976710656 % 256, n / 1099511627776 % 256, n / 4294967296 % 256,
   n / 16777216 % 256, n / 65536 % 256, n / 256 % 256, n % 256]

/-- `binary.BigEndian.Uint64` of (the first 8 of) the given bytes. -/
def unbe8 (l : List Nat) : Nat := (l.take 8).foldl (fun a b => a * 256 + b) 0

def hex2 (b : Nat) : String := String.ofList [hexDigit (b / 16), hexDigit (b % 16)]

def showObj : Option Obj → String
  | none => "-"
  | some o => s!"{o.interval}/{o.next}/{o.reserved}"

def showStore : Option Nat → String
  | none => "none"
  | some n => String.join ((be8 n).map hex2)

/-- The store calls of one operation, from the state before it. -/
def calls (s : St) (op : Op) : String :=
  match s.obj with
  | none => ""
  | some o =>
    let upd := if lease (mark s) o.interval = 0 then "G" else "GS"
    match op with
    | .new _ => ""
    | .next => if hasLease o then "" else upd
    | .release => if hasLease o then "S" else ""
    | .crash .idle => ""
    | .crash .nextRead => if hasLease o then "" else "G"
    | .crash .nextWrite => if hasLease o then "" else upd
    | .crash .relWrite => if hasLease o then "S" else ""
    | .failNext .get => if hasLease o then "" else "g"
    | .failNext .set => if hasLease o then "" else if lease (mark s) o.interval = 0 then "G" else "Gs"
    | .failRelease => if hasLease o then "s" else ""

def obs (s : St) : String := s!"o={showObj s.obj} m={showStore s.store}"

def stepLine (s : St) (toks : List String) : St × String :=
  match toks with
  | "parrel" :: _ => stepLineCore s toks
  | _ =>
    let (s', a) := stepLineCore s toks
    match parseOp toks with
    | some op => (s', s!"{a} | {obs s'} c={calls s op}")
    | none => (s', s!"{a} | {obs s'}")

end Hive.Seq
