import Hive.Model.C12aMap
/-!
# Model of `generalheap.Heap` + `container/heap` + `priorityqueue.PriorityQueue` +
`timed.PriorityQueue` for C12

`arr` is the slice of element pointers; an element is identified by `id` (its allocation number:
the `id`-th `Push` created it), carries the immutable `key` (priority) and `val`, and its mutable
`index` field lives in the table `idx` (`idx[id]`; `-1` once the element left the heap).  `swap`,
`pushLast`, `popLast` are `Heap.Swap/Push/Pop` of generalheap.go with their index maintenance,
`up`/`down`/`heapPush`/`heapPop`/`heapRemove` are `container/heap`'s algorithms verbatim.

The comparison is **abstract**: `cmp : Cmp` is the key type's `CompareTo(other) int`, any function
whose *sign* is a total preorder (`generalheap.Comparable` promises nothing about magnitudes:
`-1/0/1`, `a - b`, `MinInt/MaxInt` are all legal).  `Less(i,j)` is `CompareTo < 0`, `PopUntil` tests
`CompareTo <= 0`; nothing else of the result is looked at, and every theorem about the heap holds for
every `Cmp`.  `Cmp.ofSign`, `Cmp.diff`, `Cmp.flip` are the comparators the tie instantiates the Go
type parameter with.
-/
namespace Hive.C12a.Heap

structure Elem where
  id : Nat
  key : Int
  val : Nat
deriving Repr, DecidableEq

instance : Inhabited Elem := ⟨⟨0, 0, 0⟩⟩

/-- A legal `CompareTo`: `f a b` is `a.CompareTo(b)`.  Only its sign carries meaning: `anti` says
the sign flips when the arguments are swapped (so `f a a = 0`), `trans` that `≤ 0` is transitive —
together: "`f a b ≤ 0`" is a total preorder. -/
structure Cmp where
  f : Int → Int → Int
  anti : ∀ a b, f a b < 0 ↔ 0 < f b a
  trans : ∀ a b c, f a b ≤ 0 → f b c ≤ 0 → f a c ≤ 0

/-- The comparator that answers `neg` for smaller, `pos` for larger, `0` for equal integer keys
(`-1/1`: the repository's own comparators; `MinInt64/MaxInt64`, `-3/5`, … are just as legal). -/
def Cmp.ofSign (neg pos : Int) (hn : neg < 0) (hp : 0 < pos) : Cmp where
  f a b := if a < b then neg else if b < a then pos else 0
  anti a b := by
    by_cases h1 : a < b <;> by_cases h2 : b < a <;> simp [h1, h2] <;> omega
  trans a b c := by
    by_cases h1 : a < b <;> by_cases h2 : b < a <;> by_cases h3 : b < c <;> by_cases h4 : c < b <;>
      by_cases h5 : a < c <;> by_cases h6 : c < a <;> simp [h1, h2, h3, h4, h5, h6] <;> omega

/-- The `return a - b` comparator (exact integers; the tie keeps its keys where Go's `int` is exact). -/
def Cmp.diff : Cmp where
  f a b := a - b
  anti a b := by omega
  trans a b c := by omega

/-- The reversed comparator: `a.CompareTo(b)` answers what `b.CompareTo(a)` answered. -/
def Cmp.flip (c : Cmp) : Cmp where
  f a b := c.f b a
  anti a b := c.anti b a
  trans a b d h1 h2 := c.trans d b a h2 h1

/-- Ascending `-1/0/1` (`timeAscending`, an ascending priority type). -/
def Cmp.asc : Cmp := Cmp.ofSign (-1) 1 (by decide) (by decide)
/-- Descending `-1/0/1` (`timeDescending`). -/
def Cmp.dsc : Cmp := Cmp.asc.flip

structure St where
  cmp : Cmp
  arr : List Elem
  idx : List Int

def init (cmp : Cmp) : St := { cmp := cmp, arr := [], idx := [] }

/-- `a.Key.CompareTo(b.Key) < 0`. -/
def lessK (c : Cmp) (a b : Int) : Bool := decide (c.f a b < 0)

/-- `a.Key.CompareTo(b.Key) <= 0`. -/
def leK (c : Cmp) (a b : Int) : Bool := decide (c.f a b ≤ 0)

def St.at (s : St) (i : Nat) : Elem := s.arr.getD i default

/-- `Less(i, j)`. -/
def less (s : St) (i j : Nat) : Bool := lessK s.cmp (s.at i).key (s.at j).key

/-- `Swap(i, j)`: `h[i], h[j] = h[j], h[i]; h[i].index, h[j].index = i, j`. -/
def swap (s : St) (i j : Nat) : St :=
  let a := s.at i
  let b := s.at j
  { s with arr := (s.arr.set i b).set j a, idx := (s.idx.set b.id i).set a.id j }

/-- `container/heap.up`. -/
def up (s : St) (j : Nat) : St :=
  if _h : j = 0 then s   -- i = (j-1)/2 = j (Go truncates (0-1)/2 to 0)
  else
    if less s j ((j - 1) / 2) then up (swap s ((j - 1) / 2) j) ((j - 1) / 2) else s
termination_by j
decreasing_by omega

/-- The child `down` compares with: the right one if it exists and is smaller, else the left. -/
def child (s : St) (i n : Nat) : Nat :=
  if 2 * i + 2 < n ∧ less s (2 * i + 2) (2 * i + 1) = true then 2 * i + 2 else 2 * i + 1

theorem child_gt (s : St) (i n : Nat) : i < child s i n := by
  unfold child; split <;> omega

theorem child_lt (s : St) (i n : Nat) (h : 2 * i + 1 < n) : child s i n < n := by
  unfold child; split <;> omega

/-- `container/heap.down`; returns the state and the final position `i` (`down` reports `i > i0`). -/
def down (s : St) (i n : Nat) : St × Nat :=
  if h : 2 * i + 1 < n then
    if less s (child s i n) i then down (swap s i (child s i n)) (child s i n) n else (s, i)
  else (s, i)
termination_by n - i
decreasing_by
  have := child_gt s i n
  have := child_lt s i n h
  omega

/-- `Heap.Push`: append, set the index. -/
def pushLast (s : St) (e : Elem) : St :=
  { s with arr := s.arr ++ [e], idx := s.idx.set e.id (s.arr.length : Nat) }

/-- `Heap.Pop`: cut the last element off, set its index to -1. -/
def popLast (s : St) : St × Elem :=
  let e := s.at (s.arr.length - 1)
  ({ s with arr := s.arr.take (s.arr.length - 1), idx := s.idx.set e.id (-1) }, e)

/-- `heap.Push`. -/
def heapPush (s : St) (e : Elem) : St :=
  let s1 := pushLast s e
  up s1 (s1.arr.length - 1)

/-- `heap.Pop` (callers guard against the empty heap). -/
def heapPop (s : St) : St × Elem :=
  let n := s.arr.length - 1
  let s1 := swap s 0 n
  let s2 := (down s1 0 n).1
  popLast s2

/-- `heap.Remove(i)`. -/
def heapRemove (s : St) (i : Nat) : St × Elem :=
  let n := s.arr.length - 1
  let s1 :=
    if n ≠ i then
      let s' := swap s i n
      let r := down s' i n
      if ¬ (r.2 > i) then up r.1 i else r.1
    else s
  popLast s1

/-- A new element: the next allocation number; its `index` field starts as 0 and is set by `Push`. -/
def alloc (s : St) (p : Int) (v : Nat) : St × Elem :=
  ({ s with idx := s.idx ++ [0] }, { id := s.idx.length, key := p, val := v })

/-- `PriorityQueue.Push` (the returned handle is the element's id). -/
def push (s : St) (v : Nat) (p : Int) : St × Nat :=
  let r := alloc s p v
  (heapPush r.1 r.2, r.2.id)

/-- The `remove` closure returned by `Push`. -/
def removeHandle (s : St) (h : Nat) : St :=
  if s.idx.getD h (-1) ≠ -1 then (heapRemove s (s.idx.getD h (-1)).toNat).1 else s

def peek (s : St) : Option Elem := if s.arr.length ≠ 0 then some (s.at 0) else none

def pop (s : St) : St × Option Elem :=
  if s.arr.length ≠ 0 then let r := heapPop s; (r.1, some r.2) else (s, none)

/-- `PopUntil`: `for Len() != 0 && h[0].Key.CompareTo(priority) <= 0 { pop }`; fuel = Len(). -/
def popUntilAux (p : Int) : Nat → St → List Elem → St × List Elem
  | 0, s, acc => (s, acc)
  | fuel + 1, s, acc =>
    if s.arr.length ≠ 0 ∧ leK s.cmp (s.at 0).key p = true then
      let r := heapPop s
      popUntilAux p fuel r.1 (acc ++ [r.2])
    else (s, acc)

def popUntil (s : St) (p : Int) : St × List Elem := popUntilAux p s.arr.length s []

def popAllAux : Nat → St → List Elem → St × List Elem
  | 0, s, acc => (s, acc)
  | fuel + 1, s, acc =>
    if s.arr.length ≠ 0 then
      let r := heapPop s
      popAllAux fuel r.1 (acc ++ [r.2])
    else (s, acc)

def popAll (s : St) : St × List Elem := popAllAux s.arr.length s []

inductive Op
  | push (v : Nat) (p : Int)
  | remove (h : Nat)          -- call the handle of the h-th push
  | peek | pop
  | popUntil (p : Int)
  | popAll | size | isEmpty
deriving Repr, DecidableEq

inductive Out
  | ok
  | handle (h : Nat)
  | elem (e : Option Elem)
  | elems (l : List Elem)
  | nat (n : Nat)
  | bool (b : Bool)
deriving Repr, DecidableEq

def step (s : St) : Op → St × Out
  | .push v p => let r := push s v p; (r.1, .handle r.2)
  | .remove h => (removeHandle s h, .ok)
  | .peek => (s, .elem (peek s))
  | .pop => let r := pop s; (r.1, .elem r.2)
  | .popUntil p => let r := popUntil s p; (r.1, .elems r.2)
  | .popAll => let r := popAll s; (r.1, .elems r.2)
  | .size => (s, .nat s.arr.length)
  | .isEmpty => (s, .bool (s.arr.length == 0))

def final (s : St) (ops : List Op) : St := ops.foldl (fun s op => (step s op).1) s

def run (s : St) : List Op → St × List Out
  | [] => (s, [])
  | op :: ops =>
    let r := step s op
    let r' := run r.1 ops
    (r'.1, r.2 :: r'.2)

/-! ## line protocol (`gh …` generalheap through container/heap, `pq …`, `tpq …`) -/
open Hive.Proto Hive.C12a

def showVals (l : List Elem) : String := showNatList (l.map (·.val))

def showElemV : Option Elem → String
  | none => "none"
  | some e => toString e.val

def showElemVP : Option Elem → String
  | none => "none"
  | some e => s!"{e.val} {e.key}"

def parseDesc : String → Option Bool
  | "asc" => some false
  | "desc" => some true
  | "default" => some true    -- timed.NewPriorityQueue() without argument is descending
  | "asc2" => some false      -- timed.NewPriorityQueue(true, false): only the first argument counts
  | "desc2" => some true      -- timed.NewPriorityQueue(false, true)
  | _ => none

/-- The comparator kinds of the tie (the harness has one Go priority type per kind). -/
def parseKind : String → Option Cmp
  | "unit" => some Cmp.asc
  | "diff" => some Cmp.diff
  | "big" => some (Cmp.ofSign (-1099511627776) 1099511627776 (by decide) (by decide))
  | "ext" => some (Cmp.ofSign (-9223372036854775808) 9223372036854775807 (by decide) (by decide))
  | "asym" => some (Cmp.ofSign (-3) 5 (by decide) (by decide))
  | "two" => some (Cmp.ofSign (-2) 1 (by decide) (by decide))
  | _ => none

/-- `new <asc|desc|default> [kind]`: descending = the same comparator with the arguments swapped. -/
def parseCmp (d kind : String) : Option Cmp :=
  match parseDesc d, parseKind kind with
  | some d, some c => some (if d then c.flip else c)
  | _, _ => none

/-- White-box state of the `gh` stream: the array and the index field of every element ever pushed. -/
def showStateGH (s : St) : String :=
  "[" ++ " ".intercalate (s.arr.map (fun e => s!"{e.val}:{e.key}")) ++ "] i" ++ showIntList s.idx

/-- White-box state of `pq` / `tpq`: the values of the heap array in slot order. -/
def showStatePQ (s : St) : String := showVals s.arr

/-- Requests common to `pq` and `tpq` (`timed`: `Push` returns no handle). -/
def stepPQ (timed : Bool) (s : St) (toks : List String) : St × String :=
  match toks with
  | ["new", d] => match parseCmp d "unit" with | some c => (init c, "ok") | none => (s, "bad-op")
  | ["new", d, k] => match parseCmp d k with | some c => (init c, "ok") | none => (s, "bad-op")
  | ["push", v, p] =>
    match v.toNat?, p.toInt? with
    | some v, some p => let r := push s v p; (r.1, if timed then "ok" else toString r.2)
    | _, _ => (s, "bad-op")
  | ["push", v, p, _rep] =>   -- timed queue: `_rep` names the time.Time representation of instant p
    match v.toNat?, p.toInt? with
    | some v, some p => let r := push s v p; (r.1, if timed then "ok" else toString r.2)
    | _, _ => (s, "bad-op")
  | ["popuntil", p, _rep] =>
    match p.toInt? with
    | some p => let r := popUntil s p; (r.1, showVals r.2)
    | none => (s, "bad-op")
  | ["remove", h] =>
    match h.toNat? with
    | some h => (if timed then s else removeHandle s h, "ok")
    | none => (s, "bad-op")
  | ["peek"] => (s, showElemV (peek s))
  | ["pop"] => let r := pop s; (r.1, showElemV r.2)
  | ["popuntil", p] =>
    match p.toInt? with
    | some p => let r := popUntil s p; (r.1, showVals r.2)
    | none => (s, "bad-op")
  | ["popall"] => let r := popAll s; (r.1, showVals r.2)
  | ["size"] => (s, toString s.arr.length)
  | ["isempty"] => (s, showBool (s.arr.length == 0))
  | _ => (s, "bad-op")

/-- Requests of the white-box stream on `generalheap.Heap` driven by `container/heap` directly. -/
def stepGH (s : St) (toks : List String) : St × String :=
  match toks with
  | ["new", d] => match parseCmp d "unit" with | some c => (init c, "ok") | none => (s, "bad-op")
  | ["new", d, k] => match parseCmp d k with | some c => (init c, "ok") | none => (s, "bad-op")
  | ["push", v, p] =>
    match v.toNat?, p.toInt? with
    | some v, some p => let r := push s v p; (r.1, toString r.2)
    | _, _ => (s, "bad-op")
  | ["pop"] => let r := pop s; (r.1, showElemVP r.2)
  | ["remove", h] =>     -- heap.Remove(&h, elem.Index()) unless the index is -1
    match h.toNat? with
    | some h =>
      if s.idx.getD h (-1) ≠ -1 then
        let r := heapRemove s (s.idx.getD h (-1)).toNat
        (r.1, showElemVP (some r.2))
      else (s, "gone")
    | none => (s, "bad-op")
  | ["index", h] => match h.toNat? with | some h => (s, toString (s.idx.getD h (-1))) | none => (s, "bad-op")
  | ["dump"] => (s, "[" ++ " ".intercalate (s.arr.map (fun e => s!"{e.val}:{e.key}")) ++ "]")
  | ["len"] => (s, toString s.arr.length)
  | _ => (s, "bad-op")

end Hive.C12a.Heap
