import Hive.Model.SeqStore
/-!
# The store the Sequence shares with other users: `mapdb` as a map from full keys to values (C07)

`plainLayer` (`Hive/Model/SeqStore.lean`) is `mapdb` seen through the one key the Sequence uses.  Here the database is the
whole map — full key (realm bytes ++ key bytes) ↦ value — and the *other users* of the store appear: through any view
(realm `r`) they `Set` and `Delete` keys, delete by prefix (`DeletePrefix`: every full key with prefix `r ++ p`), `Clear`
the view (every full key with prefix `r`) and commit batches (`Batched`: the sets, then the deletes).  This is the code of
kvstore/mapdb/mapdb.go + synced_map.go (`s.m.set(ConcatBytes(s.realm, key), value)`, `delete(s.m, string(key))`,
`strings.HasPrefix(key, prefix)`; pinned by `C07_source_store_mapdb` / `C07_source_store_map_ops`).

An operation *avoids* the cell `c` of the sequence (`c` = realm ++ key of the sequence) when it does not address it: a `Set` /
`Delete` of another full key, a `DeletePrefix` / `Clear` whose prefix is not a prefix of `c`.  `Hive/Props/C07j.lean`: any
number of such operations, at any time — between two calls of the Sequence and between the store read and the store write
of a lease renewal —, leave the cell alone (`C07_foreign_operations_frame`), the shared store is a faithful layer
(`C07_store_contract_shared`) and C07 holds over it (`C07_no_reuse_with_foreign_users`).
-/
namespace Hive.Seq.KV
open Hive.Seq Hive.Seq.Layered

abbrev Key := List Nat

/-- An operation of a user of the store, through a view with realm `r`. -/
inductive FOp
  | set (r k : Key) (v : Nat)
  | delete (r k : Key)
  | deletePrefix (r p : Key)
  | clear (r : Key)
  | batch (r : Key) (sets : List (Key × Nat)) (dels : List Key)
deriving Repr

def setAll (r : Key) (db : Key → Option Nat) : List (Key × Nat) → (Key → Option Nat)
  | [] => db
  | kv :: rest => setAll r (fun x => if x = r ++ kv.1 then some kv.2 else db x) rest

def delAll (r : Key) (db : Key → Option Nat) : List Key → (Key → Option Nat)
  | [] => db
  | k :: rest => delAll r (fun x => if x = r ++ k then none else db x) rest

/-- What the operation does to the map. -/
def apply (db : Key → Option Nat) : FOp → (Key → Option Nat)
  | .set r k v => fun x => if x = r ++ k then some v else db x
  | .delete r k => fun x => if x = r ++ k then none else db x
  | .deletePrefix r p => fun x => if (r ++ p).isPrefixOf x then none else db x
  | .clear r => fun x => if r.isPrefixOf x then none else db x
  | .batch r sets dels => delAll r (setAll r db sets) dels

/-- The operation does not address the full key `c`. -/
def avoids (c : Key) : FOp → Prop
  | .set r k _ => r ++ k ≠ c
  | .delete r k => r ++ k ≠ c
  | .deletePrefix r p => (r ++ p).isPrefixOf c = false
  | .clear r => r.isPrefixOf c = false
  | .batch r sets dels => (∀ kv ∈ sets, r ++ kv.1 ≠ c) ∧ (∀ k ∈ dels, r ++ k ≠ c)

/-- The shared database: the map, whether it is shut down, and what the other users will do (their `n`-th operation;
every one of them avoids the cell of the sequence). -/
structure Shared (c : Key) where
  db : Key → Option Nat
  closed : Bool
  sched : Nat → FOp
  polite : ∀ n, avoids c (sched n)

/-- The layer the Sequence with cell `c` sees: `mapdb` (a closed store answers `ErrStoreClosed` and does nothing), and as
environment events the shutdown / reopening of the database and the operations of the other users. -/
def sharedLayer (c : Key) : Layer (Shared c) :=
  { get := fun s => (s, if s.closed then none else some (s.db c))
    set := fun s v => if s.closed then (s, false) else ({ s with db := fun x => if x = c then some v else s.db x }, true)
    env := fun e s => match e with
      | .close => { s with closed := true }
      | .reopen => { s with closed := false }
      | .other n => if s.closed then s else { s with db := apply s.db (s.sched n) }   -- a closed store does nothing
    disk := fun s => s.db c }

end Hive.Seq.KV
