import Hive.Model.SerixC03Validators
/-!
# The `Serializable`-object calls of the two chains

`WriteObject`, `WritePayload`, `WriteSliceOfObjects` and `ReadObject`, `ReadPayload`, `ReadSliceOfObjects` of
serializer/serializer.go — the calls serix does not use (it hands byte slices and item readers to
`WriteSliceOfByteSlices` / `ReadSequenceOfObjects`), which carry the twins of three wire rules one layer below serix: the
uint32 **payload length marker** that must equal the bytes the payload consumed (`ReadPayload`), the **must-occur**
rule over the type codes seen (`ReadSliceOfObjects`: `MustOccur.Subset(seenTypes)`), and the guards.

The harness supplies the `Serializable`s: an object is `code ++ [len] ++ body` — a type code of the denotation's width
(1 byte, 4 bytes little-endian, or nothing), one length byte and that many body bytes; the read guard knows the codes
`allowed` and refuses every other one with the harness's `item` error; a write-side object either returns the bytes it was
made from or fails with `item`.

Lines (answers as for the other `w` / `r` lines: `<Written()> <class>` and `<value> <offset> <class>`):

* `w obj v|n g0|g1|gn HEX|fail` — `WriteObject` (guard accepts / refuses / is nil)
* `w payload g0|g1|gn HEX|nil|fail` — `WritePayload`
* `w objs LP v|n|vs|ns MIN MAX FLAGS g0|g1|gn (HEX|fail)*` — `WriteSliceOfObjects`; `w objsbad` — a source that is no slice of
  `Serializable`s (panics)
* `r obj u8|u32|none` — `ReadObject`
* `r payload` — `ReadPayload` (`nil` for the zero marker)
* `r objs LP v|n MIN MAX FLAGS u8|u32|none MUST` — `ReadSliceOfObjects` (`MUST`: comma separated codes or `-`)
-/
namespace Hive.Serix.VX
open Hive.Proto Hive.Serix

/-- The type codes the harness's read guard knows. -/
def allowed : List Nat := [0, 1, 2, 3, 64, 200, 70000]

/-- Error classes of this layer: the sentinels of `EK` plus `ErrArrayValidationTypesNotOccurred`. -/
inductive OE where
  | ek (e : EK)
  | typesNotOccurred
deriving Repr, DecidableEq

def OE.name : OE → String
  | .ek e => e.name
  | .typesNotOccurred => "types-not-occurred"

/-- Bytes an object occupies at the head of `rem` for a type code of `w` bytes (`Deserialize` of the harness's object). -/
def objLen (w : Nat) (rem : Bytes) : Option Nat :=
  if rem.length < w + 1 then none
  else
    let l := ((rem.drop w).headD 0).toNat
    if rem.length < w + 1 + l then none else some (w + 1 + l)

def denWidth : Option Den → Nat
  | none => 0
  | some d => d.width

/-- `readObject`: `GetObjectType`, the read guard, `Deserialize`: the bytes consumed and the type code. -/
def readObj (den : Option Den) (rem : Bytes) : Except EK (Nat × Nat) :=
  let w := denWidth den
  if rem.length < w then .error .notEnoughData
  else
    let ty := leNat (rem.take w)
    if !allowed.contains ty then .error .item
    else match objLen w rem with
      | none => .error .notEnoughData
      | some n => .ok (n, ty)

/-- `ReadObject` on the chain. -/
def deReadObject (d : De) (den : Option Den) : De × Option Bytes :=
  if d.err.isSome then (d, none)
  else
    let rem := d.src.drop d.off
    match readObj den rem with
    | .error e => ({ d with err := some e }, none)
    | .ok (n, _) => ({ d with off := d.off + n }, some (rem.take n))

/-- `ReadPayload`: the marker is consumed first; 0 = no payload; then at least `MinPayloadByteSize` and at least the
denoted number of bytes must be there, the guard sees the first four bytes as the type, and the payload must consume
exactly the denoted length. -/
def deReadPayload (d : De) : De × Option (Option Bytes) :=
  if d.err.isSome then (d, none)
  else
    let rem := d.src.drop d.off
    if rem.length < 4 then ({ d with err := some .notEnoughData }, none)
    else
      let len := leNat (rem.take 4)
      let d1 := { d with off := d.off + 4 }
      let rem1 := rem.drop 4
      if len == 0 then (d1, some none)
      else if rem1.length < 5 then ({ d1 with err := some .notEnoughData }, none)
      else if rem1.length < len then ({ d1 with err := some .notEnoughData }, none)
      else match readObj (some .u32) rem1 with
        | .error e => ({ d1 with err := some e }, none)
        | .ok (n, _) =>
          if n != len then ({ d1 with err := some .invalidBytes }, none)
          else ({ d1 with off := d1.off + n }, some (some (rem1.take n)))

/-- The item loop of `ReadSliceOfObjects` (through `ReadSequenceOfObjects`): objects read, offset advance, type codes seen
(recorded under validation, before the element validators run), error. -/
def oLoop (validation : Bool) (den : Option Den) :
    Nat → List (VKind × S) → Bytes → List Bytes × Nat × List Nat × Option EK
  | 0, _, _ => ([], 0, [], none)
  | k + 1, c, b =>
    match readObj den b with
    | .error e => ([], 0, [], some e)
    | .ok (n, ty) =>
      let seen := if validation then [ty] else []
      match (if validation then chainStep c (b.take n) else (c, none)) with
      | (_, some e) => ([b.take n], n, seen, some e)
      | (c', none) =>
        let (xs, m, tys, e) := oLoop validation den k c' (b.drop n)
        (b.take n :: xs, n + m, seen ++ tys, e)

/-- `ReadSliceOfObjects`. -/
def deReadObjs (d : De) (lp : LP) (r : Rules) (validation : Bool) (den : Option Den) (must : List Nat) :
    Option (De × Option (List Bytes) × Option OE) :=
  if d.err.isSome then some (d, none, d.err.map .ek)
  else
    let rem := d.src.drop d.off
    match lp.width with
    | none => none
    | some w =>
      if rem.length < w then some ({ d with err := some .notEnoughData }, none, some (.ek .notEnoughData)) else
      let count := leNat (rem.take w)
      let d1 := { d with off := d.off + w }
      match (if validation then boundsErr r count else none) with
      | some e => some ({ d1 with err := some e }, none, some (.ek e))
      | none =>
        let (xs, m, tys, e) := oLoop validation den count (chainInit r) (rem.drop w)
        let d2 := { d1 with off := d1.off + m }
        match e with
        | some e => some ({ d2 with err := some e }, none, some (.ek e))
        | none =>
          if validation && !subset must tys then
            -- the chain object stores the error; its class is outside `EK`: the stored error is rendered by the caller
            some ({ d2 with err := some .other }, none, some .typesNotOccurred)
          else some (d2, some xs, none)

/-! ## write side -/

inductive Guard where | accepts | refuses | absent
deriving Repr, DecidableEq

def parseGuard : String → Option Guard
  | "g0" => some .accepts
  | "g1" => some .refuses
  | "gn" => some .absent
  | _ => none

/-- `none`: the object's `Serialize` fails. -/
def parseObj (s : String) : Option (Option Bytes) :=
  if s == "fail" then some none else (unhex s).map some

/-- `WriteObject`: under validation the guard is called (a nil guard panics), then `Serialize`. -/
def serWriteObject (s : Ser) (validation : Bool) (g : Guard) (o : Option Bytes) : Option Ser :=
  if s.err.isSome then some s
  else if validation && g == .absent then none
  else if validation && g == .refuses then some { s with err := some .item }
  else match o with
    | none => some { s with err := some .item }
    | some bs => some { s with buf := s.buf ++ bs }

/-- `WritePayload` (`o = none`: a nil payload): the guard is called whenever there is one, whatever the mode. -/
def serWritePayload (s : Ser) (g : Guard) (o : Option (Option Bytes)) : Ser :=
  if s.err.isSome then s
  else match o with
    | none => { s with buf := s.buf ++ leBytes 4 0 }
    | some ob =>
      if g == .refuses then { s with err := some .item }
      else match ob with
        | none => { s with err := some .item }
        | some bs => { s with buf := s.buf ++ leBytes 4 bs.length ++ bs }

/-- The objects of `WriteSliceOfObjects` are serialized first, one by one behind the write guard (only under validation,
only when there is one); the first refusal / failure is the answer and nothing is written. -/
def gatherObjs (validation : Bool) (g : Guard) : List (Option Bytes) → Except EK (List Bytes)
  | [] => .ok []
  | o :: os =>
    if validation && g == .refuses then .error .item
    else match o with
      | none => .error .item
      | some bs => (gatherObjs validation g os).map (bs :: ·)

def serWriteObjs (s : Ser) (lp : LP) (r : Rules) (validation : Bool) (g : Guard) (os : List (Option Bytes)) : Option Ser :=
  if s.err.isSome then some s
  else match gatherObjs validation g os with
    | .error e => some { s with err := some e }
    | .ok items => s.step (.seq lp r validation items)

/-! ## lines -/

def parseObjs : List String → Option (List (Option Bytes))
  | [] => some []
  | h :: hs => do pure ((← parseObj h) :: (← parseObjs hs))

def parseDenO (s : String) : Option (Option Den) :=
  if s == "none" then some none else (parseDenS s).map some

def showDe (d : De) (v : String) (e : Option String := none) : String :=
  let cls := match e with | some c => c | none => showEK d.err
  s!"{if d.err.isSome then "-" else v} {d.off} {cls}"

def stepObj (p : PSt) : List String → Option (PSt × String)
  | ["w", "obj", mode, g, o] =>
    match parseMode mode, parseGuard g, parseObj o with
    | some (v, _), some g, some o =>
      match serWriteObject p.ser v g o with
      | some s => some ({ p with ser := s }, showSer s)
      | none => some (p, "panic")
    | _, _, _ => some (p, "bad-op")
  | ["w", "payload", g, o] =>
    match parseGuard g, (if o == "nil" then some none else (parseObj o).map some) with
    | some g, some o => let s := serWritePayload p.ser g o; some ({ p with ser := s }, showSer s)
    | _, _ => some (p, "bad-op")
  | ["w", "objsbad"] => some (p, if p.ser.err.isSome then showSer p.ser else "panic")
  | "w" :: "objs" :: lp :: mode :: mn :: mx :: fl :: g :: os =>
    match parseLPs lp, parseMode mode, parseGuard g, parseObjs os with
    | some lp, some (v, srt), some g, some os =>
      match parseRulesFlat mn mx fl srt with
      | some r =>
        match serWriteObjs p.ser lp r v g os with
        | some s => some ({ p with ser := s }, showSer s)
        | none => some (p, "panic")
      | none => some (p, "bad-op")
    | _, _, _, _ => some (p, "bad-op")
  | ["r", "obj", den] =>
    match parseDenO den with
    | some dn => let (d, v) := deReadObject p.de dn; some ({ p with de := d }, showDe d (match v with | some b => hex b | none => "-"))
    | none => some (p, "bad-op")
  | ["r", "payload"] =>
    let (d, v) := deReadPayload p.de
    some ({ p with de := d }, showDe d (match v with | some (some b) => hex b | some none => "nil" | none => "-"))
  | ["r", "objs", lp, mode, mn, mx, fl, den, must] =>
    match parseLPs lp, parseMode mode, parseDenO den, parseNatSet must with
    | some lp, some (v, srt), some dn, some must =>
      match parseRulesFlat mn mx fl srt with
      | some r =>
        match deReadObjs p.de lp r v dn must with
        | some (d, xs, e) =>
          some ({ p with de := d },
            showDe d (match xs with | some xs => "[" ++ ",".intercalate (xs.map hex) ++ "]" | none => "-") (e.map OE.name))
        | none => some (p, "panic")
      | none => some (p, "bad-op")
    | _, _, _, _ => some (p, "bad-op")
  | _ => none

/-- Lines of all protocols of `drv_c03`. -/
def stepLine5 (s : Option Ty × PSt) (toks : List String) : (Option Ty × PSt) × String :=
  match toks with
  -- `dec w HEX` (harness/c03/live): a validated `Decode` into the destination an earlier `Decode` of the same call site
  -- filled.  What `Decode` answers is a function of the bytes: the model's answer is that of `dec v HEX`.
  | ["dec", "w", h] => stepLine4 s ["dec", "v", h]
  | _ =>
    match stepObj s.2 toks with
    | some (p, o) => ((s.1, p), o)
    | none => stepLine4 s toks

end Hive.Serix.VX
