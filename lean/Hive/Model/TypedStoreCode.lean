import Hive.Model.TypedStore
/-!
# A small language for the point methods of `kvstore/typedstore.go`, with its semantics (C06)

`harness/c06/xlate_ts` (go/ast) translates the bodies of `TypedStore.Get/Has/Set/Delete` and the pass-through methods
`DeletePrefix/Clear` of the working tree into terms of `SStmt` on every run (`Hive/Gen/C06_StoreCode.lean`).  `sexec` is the
semantics over the same raw store (`Store`), fault vector (`SFaults`: the store call, the key / value encoder, decode calls
by position) and call trace as the hand-written model; `Hive/Proofs/TypedStoreCode.lean` proves the regenerated bodies equal
to `sget/shas/sset/sdelete/sdeletePrefix/sclear` for every store content, key, value, codec pair and fault vector, over a
store that reports its errors bare or wrapped.

What the language keeps of Go: statement order, the `if err != nil { return … }` guards with the variable they test,
which variable every call result lands in and which variable is handed to the next call (the key bytes vs the value
bytes), which store method is called (`Get/Set/Delete`, the tail calls `Has/DeletePrefix/Clear`), error wrapping, and which
value variable a `return` hands out (the zero-valued named result or the decoded value).
`Iterate` is translated too: the consumer closure is a statement of its own, run once per entry by `iterLoopC` (the underlying
store's iteration: entries in order, stops when the closure answers `false` or the store fails); the closure's write to the
captured `innerErr` is an ordinary assignment of an error variable.  `IterateKeys` is the same with a one-argument closure, run at `V := Unit`.
-/
namespace Hive.Typed.SCode

/-- Error values: nil, the store's `ErrKeyNotFound`, the error of a failed call, `ierrors.Wrap`. -/
inductive SEV
  | nil
  | keyNotFound
  | inj (e : SErr)
  | wrap (e : SEV)
deriving DecidableEq, Repr

def SEV.isNil : SEV → Bool
  | .nil => true
  | _ => false

/-- `errors.Is(e, ErrKeyNotFound)`: looks through wraps (how the harness classifies a returned error). -/
def SEV.isNotFound : SEV → Bool
  | .wrap e => e.isNotFound
  | .keyNotFound => true
  | _ => false

def SEV.kind : SEV → SErr
  | .wrap e => e.kind
  | .inj k => k
  | _ => .kv

inductive SEExp
  | nil
  | var (i : Nat)
  | wrap (e : SEExp) (msg : String)
deriving Repr

inductive SStmt
  | skip
  | seq (a b : SStmt)
  | ifErr (i : Nat) (a : SStmt)               -- `if e_i != nil { a }`
  | encKey (outY outE : Nat)                  -- `y, e = t.keyToBytes(key)`
  | encVal (outY outE : Nat)                  -- `y, e = t.valueToBytes(value)`
  | kvGet (inK outY outE : Nat)               -- `y, e = t.kv.Get(k)`
  | kvSet (inK inY outE : Nat)                -- `e = t.kv.Set(k, y)`
  | kvDel (inK outE : Nat)                    -- `e = t.kv.Delete(k)`
  | decVal (inY outV outE : Nat)              -- `v, _, e = t.bytesToValue(y)`
  | retV (v : Nat) (e : SEExp)                -- `return v_i, e`
  | retB (b : Bool) (e : SEExp)               -- `return false, e`
  | retE (e : SEExp)                          -- `return e`
  | retHas (inK : Nat)                        -- `return t.kv.Has(k)`
  | retDelPrefix                              -- `return t.kv.DeletePrefix(prefix)`
  | retClear                                  -- `return t.kv.Clear()`
  -- `Iterate`: the store's iteration with the consumer closure, and the statements of the closure
  | iter (keyP valP : Nat) (consumer : SStmt) (outE : Nat)
                                              -- `e = t.kv.Iterate(prefix, func(key, value) bool { consumer }, direction...)`
  | decKey (inY outK outE : Nat)              -- `k, _, e = t.bytesToKey(y)`
  | setE (i : Nat) (e : SEExp)                -- `e_i = e` (the closure's write to the captured `innerErr`)
  | retAdv (b : Bool)                         -- closure: `return false`
  | retCb (k v : Nat)                         -- closure: `return callback(k, v)`
  -- `IterateKeys` (run at `V := Unit`): the store's key iteration with its consumer closure
  | iterKeys (keyP : Nat) (consumer : SStmt) (outE : Nat)
                                              -- `e = t.kv.IterateKeys(prefix, func(key) bool { consumer }, direction...)`
  | retCb1 (k : Nat)                          -- closure: `return callback(k)`
deriving Repr

variable {K V : Type}

structure SM (K V : Type) where
  st : Store
  y : Nat → Bytes
  v : Nat → V
  kk : Nat → K
  e : Nat → SEV
  tr : List SEv
  ndec : Nat            -- decode calls made so far by this operation
  acc : List (K × V)    -- the pairs handed to the caller's callback so far (`Iterate`)

inductive SRet (V : Type)
  | v (x : V) (e : SEV)
  | b (x : Bool) (e : SEV)
  | e (e : SEV)
  | adv (b : Bool)      -- what the consumer closure answers the store: go on / stop

inductive SOutc (K V : Type)
  | cont (m : SM K V)
  | done (m : SM K V) (r : SRet V)

def SM.setY (m : SM K V) (i : Nat) (x : Bytes) : SM K V := { m with y := fun j => if j = i then x else m.y j }
def SM.setV (m : SM K V) (i : Nat) (x : V) : SM K V := { m with v := fun j => if j = i then x else m.v j }
def SM.setK (m : SM K V) (i : Nat) (x : K) : SM K V := { m with kk := fun j => if j = i then x else m.kk j }
def SM.setE (m : SM K V) (i : Nat) (x : SEV) : SM K V := { m with e := fun j => if j = i then x else m.e j }
def SM.log (m : SM K V) (c : SCall) (r : CallRes) : SM K V := { m with tr := m.tr ++ [⟨c, r⟩] }

/-- The underlying store's `Iterate` over the entries `es` (entry `n` is the next one): it hands every entry to the
consumer closure (`run`: the closure body on a machine whose parameters `keyP` / `valP` hold the raw key / value) until the
closure answers `false`, the entries are exhausted, or the store itself fails (`kvAfter`).  `true`: the store failed. -/
def iterLoopC (run : SM K V → SOutc K V) (kvAfter : Option Nat) (keyP valP : Nat) :
    List (Bytes × Bytes) → Nat → SM K V → SM K V × Bool
  | [], _, m => (m.log .kvIter .ok, false)
  | e :: rest, n, m =>
    if kvAfter = some n then (m.log .kvIter .fail, true)
    else match run ((m.setY keyP e.1).setY valP e.2) with
      | .done m' (.adv true) => iterLoopC run kvAfter keyP valP rest (n + 1) m'
      | .done m' _ => (m'.log .kvIter .ok, false)
      | .cont m' => (m'.log .kvIter .ok, false)

def evalSE : SEExp → SM K V → SEV
  | .nil, _ => .nil
  | .var i, m => m.e i
  | .wrap e _, m => .wrap (evalSE e m)

/-- How the store reports an error: bare, or wrapped in further layers. -/
def serrW (w : Bool) (e : SEV) : SEV := if w then .wrap (.wrap e) else e

/-- Semantics; `key`, `value`, `pfx` are the method's parameters.  A failing call hands back zero values next to its error. -/
def sexec [Inhabited K] [Inhabited V] (KC : Codec K) (VC : Codec V) (F : SFaults) (w : Bool) (key : K) (value : V) (pfx : Bytes)
    (bwd : Bool) (stop : Nat) : SStmt → SM K V → SOutc K V
  | .skip, m => .cont m
  | .seq a b, m => match sexec KC VC F w key value pfx bwd stop a m with
    | .cont m' => sexec KC VC F w key value pfx bwd stop b m'
    | o => o
  | .ifErr i a, m => if (m.e i).isNil then .cont m else sexec KC VC F w key value pfx bwd stop a m
  | .encKey oy oe, m => match encKF KC F key with
    | none => .cont (((m.setY oy []).setE oe (.inj .encK)).log .encK .fail)
    | some b => .cont (((m.setY oy b).setE oe .nil).log .encK .ok)
  | .encVal oy oe, m => match encVF VC F value with
    | none => .cont (((m.setY oy []).setE oe (.inj .encV)).log .encV .fail)
    | some b => .cont (((m.setY oy b).setE oe .nil).log .encV .ok)
  | .kvGet ik oy oe, m =>
    if F.kv1 then .cont (((m.setY oy []).setE oe (serrW w (.inj .kv))).log .kvGet .fail)
    else match m.st.get (m.y ik) with
      | none => .cont (((m.setY oy []).setE oe (serrW w .keyNotFound)).log .kvGet .nf)
      | some vb => .cont (((m.setY oy vb).setE oe .nil).log .kvGet .ok)
  | .kvSet ik iy oe, m =>
    if F.kv1 then .cont ((m.setE oe (serrW w (.inj .kv))).log .kvSet .fail)
    else .cont (({ m with st := m.st.insert (m.y ik) (m.y iy) }.setE oe .nil).log .kvSet .ok)
  | .kvDel ik oe, m =>
    if F.kv1 then .cont ((m.setE oe (serrW w (.inj .kv))).log .kvDel .fail)
    else .cont (({ m with st := m.st.erase (m.y ik) }.setE oe .nil).log .kvDel .ok)
  | .decVal iy ov oe, m => match decAt VC F m.ndec (m.y iy) with
    | none => .cont ({ ((m.setV ov default).setE oe (.inj .decV)).log .decV .fail with ndec := m.ndec + 1 })
    | some x => .cont ({ ((m.setV ov x).setE oe .nil).log .decV .ok with ndec := m.ndec + 1 })
  | .retV i e, m => .done m (.v (m.v i) (evalSE e m))
  | .retB b e, m => .done m (.b b (evalSE e m))
  | .retE e, m => .done m (.e (evalSE e m))
  | .retHas ik, m =>
    if F.kv1 then .done (m.log .kvHas .fail) (.b false (serrW w (.inj .kv)))
    else .done (m.log .kvHas .ok) (.b (m.st.get (m.y ik)).isSome .nil)
  | .retDelPrefix, m =>
    -- the store's bulk deletion (may fail up front or part-way: `bulkDelete`), its error handed through
    match bulkDelete m.st (fun e => pfx.isPrefixOf e.1) (m.st.deletePrefix pfx) F with
    | (st', none) => .done { m with st := st' } (.e .nil)
    | (st', some e) => .done { m with st := st' } (.e (serrW w (.inj e)))
  | .retClear, m =>
    match bulkDelete m.st (fun _ => true) [] F with
    | (st', none) => .done { m with st := st' } (.e .nil)
    | (st', some e) => .done { m with st := st' } (.e (serrW w (.inj e)))
  | .iter kp vp c oe, m =>
    if F.kv1 then .cont ((m.setE oe (serrW w (.inj .kv))).log .kvIter .fail)
    else
      let r := iterLoopC (sexec KC VC F w key value pfx bwd stop c) F.kvAfter kp vp (m.st.entries pfx bwd) 0 m
      .cont (r.1.setE oe (if r.2 then serrW w (.inj .kv) else .nil))
  | .decKey iy ok oe, m => match decAt KC F m.ndec (m.y iy) with
    | none => .cont ({ ((m.setK ok default).setE oe (.inj .decK)).log .decK .fail with ndec := m.ndec + 1 })
    | some x => .cont ({ ((m.setK ok x).setE oe .nil).log .decK .ok with ndec := m.ndec + 1 })
  | .setE i e, m => .cont (m.setE i (evalSE e m))
  | .retAdv b, m => .done m (.adv b)
  | .retCb k v, m =>
    let acc' := m.acc ++ [(m.kk k, m.v v)]
    if acc'.length = stop then .done ({ m with acc := acc' }.log .cb .nc) (.adv false)
    else .done ({ m with acc := acc' }.log .cb .ok) (.adv true)
  | .iterKeys kp c oe, m =>
    if F.kv1 then .cont ((m.setE oe (serrW w (.inj .kv))).log .kvIter .fail)
    else
      let r := iterLoopC (sexec KC VC F w key value pfx bwd stop c) F.kvAfter kp 0 (m.st.entries pfx bwd) 0 m
      .cont (r.1.setE oe (if r.2 then serrW w (.inj .kv) else .nil))
  | .retCb1 k, m =>
    let acc' := m.acc ++ [(m.kk k, default)]
    if acc'.length = stop then .done ({ m with acc := acc' }.log .cb .nc) (.adv false)
    else .done ({ m with acc := acc' }.log .cb .ok) (.adv true)

def sstart [Inhabited K] [Inhabited V] (st : Store) : SM K V :=
  { st := st, y := fun _ => [], v := fun _ => default, kk := fun _ => default, e := fun _ => .nil, tr := [], ndec := 0, acc := [] }

/-- From raw results to the model's `SOut` (what the harness's `errKind` / result printing does). -/
def soutOf : SRet V → SOut K V
  | .v x e => if e.isNil then .val x else if e.isNotFound then .notfound else .err e.kind
  | .b x e => if e.isNil then .has x else .err e.kind
  | .e e => if e.isNil then .ok else .err e.kind
  | .adv _ => .err .kv

def sfinish : SOutc K V → SRes K V
  | .done m r => ⟨m.st, soutOf r, m.tr⟩
  | .cont m => ⟨m.st, .err .kv, m.tr⟩       -- falling off the end of a function with results does not compile in Go

/-- `Iterate`: the pairs handed to the callback and the returned error. -/
def sfinishIter : SOutc K V → SRes K V
  | .done m (.e e) => ⟨m.st, .iter m.acc (if e.isNil then none else some e.kind), m.tr⟩
  | .done m _ => ⟨m.st, .err .kv, m.tr⟩
  | .cont m => ⟨m.st, .err .kv, m.tr⟩

structure SProg where
  get : SStmt
  has : SStmt
  set : SStmt
  delete : SStmt
  deletePrefix : SStmt
  clear : SStmt
  iterate : SStmt
  iterateKeys : SStmt

/-- One operation of the translated code. -/
def sexecOp [Inhabited K] [Inhabited V] (w : Bool) (P : SProg) (KC : Codec K) (VC : Codec V) (m : Store) (op : SOp K V) (F : SFaults) :
    SRes K V :=
  match op with
  | .get k => sfinish (sexec KC VC F w k default [] false 0 P.get (sstart m))
  | .has k => sfinish (sexec KC VC F w k default [] false 0 P.has (sstart m))
  | .set k v => sfinish (sexec KC VC F w k v [] false 0 P.set (sstart m))
  | .delete k => sfinish (sexec KC VC F w k default [] false 0 P.delete (sstart m))
  | .iterate pfx bwd stop => sfinishIter (sexec KC VC F w default default pfx bwd stop P.iterate (sstart m))

/-- `IterateKeys` of the translated code: the value type plays no role (`Unit`). -/
def sexecKeys [Inhabited K] (w : Bool) (P : SProg) (KC : Codec K) (m : Store) (pfx : Bytes) (bwd : Bool) (stop : Nat) (F : SFaults) :
    SRes K Unit :=
  sfinishIter (sexec KC ({ enc := fun _ => none, dec := fun _ => none } : Codec Unit) F w default () pfx bwd stop P.iterateKeys (sstart m))

/-- The pass-through methods: resulting store and reported error. -/
def sexecPass [Inhabited K] [Inhabited V] (w : Bool) (KC : Codec K) (VC : Codec V) (body : SStmt) (m : Store) (pfx : Bytes) (F : SFaults) :
    Store × Option SErr :=
  match sexec KC VC F w (default : K) (default : V) pfx false 0 body (sstart m) with
  | .done m' (.e e) => (m'.st, if e.isNil then none else some e.kind)
  | .done m' _ => (m'.st, some .kv)
  | .cont m' => (m'.st, some .kv)

end Hive.Typed.SCode
