import Hive.Model.TypedStore
/-!
# A small language for the point methods of `kvstore/typedstore.go`, with its semantics (C06)

`harness/c06/xlate_ts` (go/ast) translates the bodies of `TypedStore.Get/Has/Set/Delete` and the pass-through methods
`DeletePrefix/Clear` of the working tree into terms of `SStmt` on every run (`Hive/Gen/C06_StoreCode.lean`).  `sexec` is the
semantics over the same raw store (`Store`), fault vector (`SFaults`: the store call, the key / value encoder, decode calls
by position) and call trace as the hand-written model; `Hive/Proofs/TypedStoreCode.lean` proves the regenerated bodies equal
to `sget/shas/sset/sdelete/sdeletePrefix/sclear` for every store content, key, value, codec pair and fault vector, over a
store that reports its errors bare or wrapped.

What the language keeps of Go: statement order, the `if err != nil { return … }` guards with the variable they test,
which variable every call result lands in and which variable is handed to the next call (the key bytes vs the value
bytes), which store method is called (`Get/Set/Delete`, the tail calls `Has/DeletePrefix/Clear`), error wrapping, and which
value variable a `return` hands out (the zero-valued named result or the decoded value).
`Iterate` / `IterateKeys` (closures) are not translated: hand-written model + skeleton obligations + differential run.
-/
namespace Hive.Typed.SCode

/-- Error values: nil, the store's `ErrKeyNotFound`, the error of a failed call, `ierrors.Wrap`. -/
inductive SEV
  | nil
  | keyNotFound
  | inj (e : SErr)
  | wrap (e : SEV)
deriving DecidableEq, Repr

def SEV.isNil : SEV → Bool
  | .nil => true
  | _ => false

/-- `errors.Is(e, ErrKeyNotFound)`: looks through wraps (how the harness classifies a returned error). -/
def SEV.isNotFound : SEV → Bool
  | .wrap e => e.isNotFound
  | .keyNotFound => true
  | _ => false

def SEV.kind : SEV → SErr
  | .wrap e => e.kind
  | .inj k => k
  | _ => .kv

inductive SEExp
  | nil
  | var (i : Nat)
  | wrap (e : SEExp) (msg : String)
deriving Repr

inductive SStmt
  | skip
  | seq (a b : SStmt)
  | ifErr (i : Nat) (a : SStmt)               -- `if e_i != nil { a }`
  | encKey (outY outE : Nat)                  -- `y, e = t.keyToBytes(key)`
  | encVal (outY outE : Nat)                  -- `y, e = t.valueToBytes(value)`
  | kvGet (inK outY outE : Nat)               -- `y, e = t.kv.Get(k)`
  | kvSet (inK inY outE : Nat)                -- `e = t.kv.Set(k, y)`
  | kvDel (inK outE : Nat)                    -- `e = t.kv.Delete(k)`
  | decVal (inY outV outE : Nat)              -- `v, _, e = t.bytesToValue(y)`
  | retV (v : Nat) (e : SEExp)                -- `return v_i, e`
  | retB (b : Bool) (e : SEExp)               -- `return false, e`
  | retE (e : SEExp)                          -- `return e`
  | retHas (inK : Nat)                        -- `return t.kv.Has(k)`
  | retDelPrefix                              -- `return t.kv.DeletePrefix(prefix)`
  | retClear                                  -- `return t.kv.Clear()`
deriving Repr

variable {K V : Type}

structure SM (V : Type) where
  st : Store
  y : Nat → Bytes
  v : Nat → V
  e : Nat → SEV
  tr : List SEv
  ndec : Nat            -- decode calls made so far by this operation

inductive SRet (V : Type)
  | v (x : V) (e : SEV)
  | b (x : Bool) (e : SEV)
  | e (e : SEV)

inductive SOutc (V : Type)
  | cont (m : SM V)
  | done (m : SM V) (r : SRet V)

def SM.setY (m : SM V) (i : Nat) (x : Bytes) : SM V := { m with y := fun j => if j = i then x else m.y j }
def SM.setV (m : SM V) (i : Nat) (x : V) : SM V := { m with v := fun j => if j = i then x else m.v j }
def SM.setE (m : SM V) (i : Nat) (x : SEV) : SM V := { m with e := fun j => if j = i then x else m.e j }
def SM.log (m : SM V) (c : SCall) (r : CallRes) : SM V := { m with tr := m.tr ++ [⟨c, r⟩] }

def evalSE : SEExp → SM V → SEV
  | .nil, _ => .nil
  | .var i, m => m.e i
  | .wrap e _, m => .wrap (evalSE e m)

/-- How the store reports an error: bare, or wrapped in further layers. -/
def serrW (w : Bool) (e : SEV) : SEV := if w then .wrap (.wrap e) else e

/-- Semantics; `key`, `value`, `pfx` are the method's parameters.  A failing call hands back zero values next to its error. -/
def sexec [Inhabited V] (KC : Codec K) (VC : Codec V) (F : SFaults) (w : Bool) (key : K) (value : V) (pfx : Bytes) :
    SStmt → SM V → SOutc V
  | .skip, m => .cont m
  | .seq a b, m => match sexec KC VC F w key value pfx a m with
    | .cont m' => sexec KC VC F w key value pfx b m'
    | o => o
  | .ifErr i a, m => if (m.e i).isNil then .cont m else sexec KC VC F w key value pfx a m
  | .encKey oy oe, m => match encKF KC F key with
    | none => .cont (((m.setY oy []).setE oe (.inj .encK)).log .encK .fail)
    | some b => .cont (((m.setY oy b).setE oe .nil).log .encK .ok)
  | .encVal oy oe, m => match encVF VC F value with
    | none => .cont (((m.setY oy []).setE oe (.inj .encV)).log .encV .fail)
    | some b => .cont (((m.setY oy b).setE oe .nil).log .encV .ok)
  | .kvGet ik oy oe, m =>
    if F.kv1 then .cont (((m.setY oy []).setE oe (serrW w (.inj .kv))).log .kvGet .fail)
    else match m.st.get (m.y ik) with
      | none => .cont (((m.setY oy []).setE oe (serrW w .keyNotFound)).log .kvGet .nf)
      | some vb => .cont (((m.setY oy vb).setE oe .nil).log .kvGet .ok)
  | .kvSet ik iy oe, m =>
    if F.kv1 then .cont ((m.setE oe (serrW w (.inj .kv))).log .kvSet .fail)
    else .cont (({ m with st := m.st.insert (m.y ik) (m.y iy) }.setE oe .nil).log .kvSet .ok)
  | .kvDel ik oe, m =>
    if F.kv1 then .cont ((m.setE oe (serrW w (.inj .kv))).log .kvDel .fail)
    else .cont (({ m with st := m.st.erase (m.y ik) }.setE oe .nil).log .kvDel .ok)
  | .decVal iy ov oe, m => match decAt VC F m.ndec (m.y iy) with
    | none => .cont ({ ((m.setV ov default).setE oe (.inj .decV)).log .decV .fail with ndec := m.ndec + 1 })
    | some x => .cont ({ ((m.setV ov x).setE oe .nil).log .decV .ok with ndec := m.ndec + 1 })
  | .retV i e, m => .done m (.v (m.v i) (evalSE e m))
  | .retB b e, m => .done m (.b b (evalSE e m))
  | .retE e, m => .done m (.e (evalSE e m))
  | .retHas ik, m =>
    if F.kv1 then .done (m.log .kvHas .fail) (.b false (serrW w (.inj .kv)))
    else .done (m.log .kvHas .ok) (.b (m.st.get (m.y ik)).isSome .nil)
  | .retDelPrefix, m =>
    if F.kv1 then .done m (.e (serrW w (.inj .kv))) else .done { m with st := m.st.deletePrefix pfx } (.e .nil)
  | .retClear, m =>
    if F.kv1 then .done m (.e (serrW w (.inj .kv))) else .done { m with st := [] } (.e .nil)

def sstart [Inhabited V] (st : Store) : SM V :=
  { st := st, y := fun _ => [], v := fun _ => default, e := fun _ => .nil, tr := [], ndec := 0 }

/-- From raw results to the model's `SOut` (what the harness's `errKind` / result printing does). -/
def soutOf : SRet V → SOut K V
  | .v x e => if e.isNil then .val x else if e.isNotFound then .notfound else .err e.kind
  | .b x e => if e.isNil then .has x else .err e.kind
  | .e e => if e.isNil then .ok else .err e.kind

def sfinish [Inhabited V] : SOutc V → SRes K V
  | .done m r => ⟨m.st, soutOf r, m.tr⟩
  | .cont m => ⟨m.st, .err .kv, m.tr⟩       -- falling off the end of a function with results does not compile in Go

structure SProg where
  get : SStmt
  has : SStmt
  set : SStmt
  delete : SStmt
  deletePrefix : SStmt
  clear : SStmt

/-- One point operation of the translated code (`Iterate` is not translated: `none`). -/
def sexecOp [Inhabited K] [Inhabited V] (w : Bool) (P : SProg) (KC : Codec K) (VC : Codec V) (m : Store) (op : SOp K V) (F : SFaults) :
    Option (SRes K V) :=
  match op with
  | .get k => some (sfinish (sexec KC VC F w k default [] P.get (sstart m)))
  | .has k => some (sfinish (sexec KC VC F w k default [] P.has (sstart m)))
  | .set k v => some (sfinish (sexec KC VC F w k v [] P.set (sstart m)))
  | .delete k => some (sfinish (sexec KC VC F w k default [] P.delete (sstart m)))
  | .iterate _ _ _ => none

/-- The pass-through methods: resulting store and reported error. -/
def sexecPass [Inhabited K] [Inhabited V] (w : Bool) (KC : Codec K) (VC : Codec V) (body : SStmt) (m : Store) (pfx : Bytes) (F : SFaults) :
    Store × Option SErr :=
  match sexec KC VC F w (default : K) (default : V) pfx body (sstart m) with
  | .done m' (.e e) => (m'.st, if e.isNil then none else some e.kind)
  | .done m' _ => (m'.st, some .kv)
  | .cont m' => (m'.st, some .kv)

end Hive.Typed.SCode
