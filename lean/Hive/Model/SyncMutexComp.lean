import Hive.Model.SyncMutex
import Hive.Model.SyncMutexDag
/-!
# DAGMutex composed of StarvingMutex monitors (runtime/syncutils/dagmutex.go over starvingmutex.go)

The shared state is the struct of the code: the registry mutex `d.Mutex` (`dm`), the two maps
`mutexes` (`ent`: entity ↦ mutex object) and `consumerCounter` (`cnt`), and a heap of `StarvingMutex`
objects, each of them the monitor of `Hive/Model/SyncMutex.lean` (`Mx`, stepped by `mxStep`).
`NewStarvingMutex()` takes the next unused object (`next`).

A goroutine executes the DAGMutex methods as in the code:

* `Lock(x)`: take `d.Mutex` (`lockA`), `registerMutex(x)` and release (`lockC`), then `mutex.Lock()` on the
  object it got — the micro-steps of the monitor (`inner`).
* `RLock(xs...)`: take `d.Mutex`, `registerMutexes` = `registerMutex` for every id in order, release; then
  `mutex.RLock()` on the returned objects one after the other, in argument order.
* `Unlock(x)` (code after the repair "unregister only after the unlock has succeeded"): take `d.Mutex`
  (`unlockA`), look the mutex of `x` up and release `d.Mutex` (`unlockC`; no mutex: panic, after the release,
  nothing touched), `mutex.Unlock()` on the object (`inner`, a wrong mode panics inside the monitor — the
  registry is still untouched), then `unregisterMutexes(x)`: take `d.Mutex` again (`unregA`), `unregisterMutex(x)`
  and release (`unregC`; the last consumer removes the entity from both maps — nobody holds or awaits the object
  any more, it lives on in the heap, detached and unlocked).
* `RUnlock(xs...)`: take `d.Mutex` (`runlockA`), `lookupMutexes` = validate every id with multiplicity against
  `consumerCounter` and collect the objects, release (`runlockC`, one critical section; a failed validation
  panics with `d.Mutex` released through the `defer` and nothing touched: `lookAll`), `mutex.RUnlock()` on the
  objects in order, then `unregisterMutexes(xs...)` (`runregA`, `runregC`): `unregisterMutex` for every id in order
  (a panic there — unreachable after a successful validation, see `Hive/Proofs` — would leave the ids before the
  offending one unregistered: `unregPrefix`).

`held`/`hobj` are ghosts: the entities a goroutine holds, from the return of the inner `Lock`/`RLock` to
the call of `Unlock`/`RUnlock` (its lookup section), and the object through which it holds them.  Between that
point and the second critical section the goroutine is still *registered* for the entities (`unrg` in the proofs).
-/
namespace Hive.SyncMutex.Comp
open Hive.SyncMutex.Dag (Mode DOp upd eraseAll)

structure CSh where
  heap : Nat → Mx
  ent : Nat → Option Nat
  cnt : Nat → Nat
  next : Nat
  dm : Bool

def CSh.init : CSh := ⟨fun _ => Mx.init, fun _ => none, fun _ => 0, 0, false⟩

/-- What remains to be done after the current `StarvingMutex` call returns. -/
inductive Kont
  | done
  | rl (rest : List (Nat × Nat))   -- RLock: (entity, object) pairs still to be read-locked
  | ru (rest : List Nat) (ids : List Nat)  -- RUnlock: objects still to be read-unlocked; the ids to unregister afterwards
  | ul (x : Nat)                   -- Unlock: the entity to unregister afterwards
  deriving DecidableEq, Repr, Hashable

inductive Ctl
  | idle
  | lockA (x : Nat) | lockC (x : Nat)
  | rlockA (xs : List Nat) | rlockC (xs : List Nat)
  | unlockA (x : Nat) | unlockC (x : Nat)
  | runlockA (xs : List Nat) | runlockC (xs : List Nat)
  | unregA (x : Nat) | unregC (x : Nat)            -- second critical section of Unlock
  | runregA (xs : List Nat) | runregC (xs : List Nat)  -- second critical section of RUnlock
  | inner (k : Kont)
  | dead
  deriving DecidableEq, Repr, Hashable

structure CTh where
  ctl : Ctl
  /-- the StarvingMutex method being executed, the entity it is for, the object it runs on, its pc -/
  iop : Op
  curEnt : Nat
  cur : Nat
  ipc : Pc
  /-- what the goroutine holds on each object (the `rd`/`wr` of its view of that monitor) -/
  rd : Nat → Nat
  wr : Nat → Bool
  held : List (Nat × Mode)
  hobj : Nat → Nat
  script : List DOp

def CTh.new (script : List DOp) : CTh :=
  ⟨.idle, .lock, 0, 0, .idle, fun _ => 0, fun _ => false, [], fun _ => 0, script⟩

/-- The goroutine as seen by the monitor of object `o`. -/
def proj (o : Nat) (t : CTh) : V := ⟨if t.cur = o then t.ipc else .idle, t.rd o, t.wr o⟩

/-- `registerMutex(x)` -/
def regOne (s : CSh) (x : Nat) : CSh × Nat :=
  match s.ent x with
  | some o => ({ s with cnt := upd s.cnt x (s.cnt x + 1) }, o)
  | none =>
    ({ s with ent := upd s.ent x (some s.next), cnt := upd s.cnt x (s.cnt x + 1), next := s.next + 1 }, s.next)

/-- `registerMutexes(xs...)` (inside one critical section of `d.Mutex`) -/
def regAll : CSh → List Nat → CSh × List (Nat × Nat)
  | s, [] => (s, [])
  | s, x :: xs =>
    let r1 := regOne s x
    let r2 := regAll r1.1 xs
    (r2.1, (x, r1.2) :: r2.2)

/-- `unregisterMutex(x)`; `none` = panic -/
def unregOne (s : CSh) (x : Nat) : Option (CSh × Nat) :=
  match s.ent x with
  | none => none
  | some o =>
    if s.cnt x = 1 then some ({ s with ent := upd s.ent x none, cnt := upd s.cnt x 0 }, o)
    else some ({ s with cnt := upd s.cnt x (s.cnt x - 1) }, o)

/-- `unregisterMutexes(xs...)` -/
def unregAll : CSh → List Nat → Option (CSh × List Nat)
  | s, [] => some (s, [])
  | s, x :: xs =>
    match unregOne s x with
    | none => none
    | some r1 =>
      match unregAll r1.1 xs with
      | none => none
      | some r2 => some (r2.1, r1.2 :: r2.2)

/-- `lookupMutexes(xs...)`: every id must have a mutex and be registered at least as often as it has occurred in
`xs` so far (`seen` = the ids already processed, the `needed` map of the code); `none` = panic.  The registry is
not modified. -/
def lookAll (s : CSh) : List Nat → List Nat → Option (List Nat)
  | _, [] => some []
  | seen, x :: xs =>
    match s.ent x with
    | none => none
    | some o =>
      if seen.count x + 1 ≤ s.cnt x then
        match lookAll s (x :: seen) xs with
        | none => none
        | some os => some (o :: os)
      else none

/-- The registry when `unregisterMutexes(xs...)` panics: the ids before the offending one have already been
unregistered (the code loops over `unregisterMutex` and has nothing to undo). -/
def unregPrefix : CSh → List Nat → CSh
  | s, [] => s
  | s, x :: xs =>
    match unregOne s x with
    | none => s
    | some r1 => unregPrefix r1.1 xs

/-- enter the StarvingMutex method `op` of object `o` (for entity `x`) -/
def startInner (t : CTh) (op : Op) (x o : Nat) (k : Kont) : CTh :=
  { t with ctl := .inner k, iop := op, curEnt := x, cur := o, ipc := start op }

def grant (t : CTh) (m : Mode) : CTh :=
  { t with held := (t.curEnt, m) :: t.held, hobj := upd t.hobj t.curEnt t.cur }

/-- the StarvingMutex method has returned -/
def ret (t : CTh) (k : Kont) : CTh :=
  match t.iop, k with
  | .lock, _ => { grant t .w with ctl := .idle }
  | .rlock, .rl ((x, o) :: rest) => startInner (grant t .r) .rlock x o (.rl rest)
  | .rlock, _ => { grant t .r with ctl := .idle }
  | .runlock, .ru (o :: rest) ids => startInner t .runlock 0 o (.ru rest ids)
  | .runlock, .ru [] ids => { t with ctl := .runregA ids }
  | .unlock, .ul x => { t with ctl := .unregA x }
  | _, _ => { t with ctl := .idle }

def step (s : CSh) (t : CTh) : List (CSh × CTh) :=
  match t.ctl with
  | .dead => []
  | .idle =>
    match t.script with
    | [] => []
    | .lock x :: r => [(s, { t with ctl := .lockA x, script := r })]
    | .rlock xs :: r => [(s, { t with ctl := .rlockA xs, script := r })]
    | .unlock x :: r => [(s, { t with ctl := .unlockA x, script := r })]
    | .runlock xs :: r => [(s, { t with ctl := .runlockA xs, script := r })]
  | .lockA x => if s.dm then [] else [({ s with dm := true }, { t with ctl := .lockC x })]
  | .rlockA xs => if s.dm then [] else [({ s with dm := true }, { t with ctl := .rlockC xs })]
  | .unlockA x => if s.dm then [] else [({ s with dm := true }, { t with ctl := .unlockC x })]
  | .runlockA xs => if s.dm then [] else [({ s with dm := true }, { t with ctl := .runlockC xs })]
  | .lockC x =>
    let r := regOne s x
    [({ r.1 with dm := false }, startInner t .lock x r.2 .done)]
  | .rlockC xs =>
    let r := regAll s xs
    match r.2 with
    | [] => [({ r.1 with dm := false }, { t with ctl := .idle })]
    | (x, o) :: rest => [({ r.1 with dm := false }, startInner t .rlock x o (.rl rest))]
  | .unregA x => if s.dm then [] else [({ s with dm := true }, { t with ctl := .unregC x })]
  | .runregA xs => if s.dm then [] else [({ s with dm := true }, { t with ctl := .runregC xs })]
  | .unlockC x =>
    match s.ent x with
    | none => [({ s with dm := false }, { t with ctl := .dead })]
    | some o => [({ s with dm := false }, startInner { t with held := t.held.erase (x, .w) } .unlock x o (.ul x))]
  | .runlockC xs =>
    match lookAll s [] xs with
    | none => [({ s with dm := false }, { t with ctl := .dead })]
    | some [] => [({ s with dm := false }, { t with ctl := .runregA xs, held := eraseAll t.held .r xs })]
    | some (o :: rest) =>
      [({ s with dm := false }, startInner { t with held := eraseAll t.held .r xs } .runlock 0 o (.ru rest xs))]
  | .unregC x =>
    match unregOne s x with
    | none => [({ s with dm := false }, { t with ctl := .dead })]
    | some r => [({ r.1 with dm := false }, { t with ctl := .idle })]
  | .runregC xs =>
    match unregAll s xs with
    | none => [({ unregPrefix s xs with dm := false }, { t with ctl := .dead })]
    | some r => [({ r.1 with dm := false }, { t with ctl := .idle })]
  | .inner k =>
    if t.ipc = .idle then [(s, ret t k)]
    else
      (mxStep (s.heap t.cur) (proj t.cur t)).map fun p =>
        ({ s with heap := upd s.heap t.cur p.1 },
         { t with ipc := p.2.pc, rd := upd t.rd t.cur p.2.rd, wr := upd t.wr t.cur p.2.wr })

/-- The DAGMutex of the code: a registry of StarvingMutex monitors. -/
def sys : Conc.Sys CSh CTh := ⟨step⟩

def initCfg (scripts : List (List DOp)) : Conc.Cfg CSh CTh := (CSh.init, scripts.map CTh.new)

def CTh.done (t : CTh) : Prop := t.ctl = .idle ∧ t.script = []

end Hive.SyncMutex.Comp
