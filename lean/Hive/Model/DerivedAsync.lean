import Hive.Model.DerivedSet
import Hive.Model.DerivedCounter
import Hive.Model.DerivedSorted
/-!
# Asynchronous (concurrent) models of DerivedSet and Counter

Under concurrency the writer of a source changes the source's content first and delivers the reported
mutation to each subscription later, while writers of other sources, subscribers and unsubscribers
run in between.  What is fixed by the reactive protocol (C13: every subscription is handed every
mutation exactly once, in order; a callback is never started after its `unsubscribe` returned) and by
the derived object's own mutex (a delivery updates mirror + counts + value atomically) is modelled
here as a transition system *without* threads: every subscription has a FIFO queue of undelivered
reports, `write` only enqueues, `deliver j` handles the head of queue `j`, unsubscribing is split into
"mark" (drops what was not delivered) and "remove" (withdraws the mirror).  Queues are unbounded and a
write never waits, so this system has at least the interleavings of the real code (where a writer
holds the source's mutex until its callbacks are done, so queues have length ≤ 2).
-/
namespace Hive.Derived

inductive Phase
  | active      -- subscribed
  | removing    -- `unsubscribeFromSource` returned, `removeSourceElements` not yet executed
  | dead
deriving Repr, DecidableEq

structure ASub where
  src : Nat
  phase : Phase
  mirror : Nat → Bool
  queue : List ((Nat → Bool) × (Nat → Bool))     -- undelivered reports (added, deleted), oldest first

structure DSA where
  mem : Nat → Nat → Bool
  subs : List ASub
  count : Nat → Int
  value : Nat → Bool

def DSA.init : DSA := { mem := fun _ _ => false, subs := [], count := fun _ => 0, value := fun _ => false }

def enqueue (i : Nat) (ra rd : Nat → Bool) (s : ASub) : ASub :=
  if s.phase = .active ∧ s.src = i then { s with queue := s.queue ++ [(ra, rd)] } else s

inductive DSAStep : DSA → DSA → Prop
  /-- a source is written: its content changes, the report is queued for every active subscription on it -/
  | write (s : DSA) (i : Nat) (op : SrcOp) :
      DSAStep s { s with mem := setAt s.mem i (op.newMem (s.mem i)),
                         subs := s.subs.map (enqueue i (op.repAdded (s.mem i)) (op.repDeleted (s.mem i))) }
  /-- `InheritFrom(source i)`: registration and reading the content are atomic; the initial delivery is queued -/
  | inherit (s : DSA) (i : Nat) :
      DSAStep s { s with subs := s.subs ++ [{ src := i, phase := .active, mirror := fun _ => false,
                                              queue := [(s.mem i, fun _ => false)] }] }
  /-- the callback of subscription `j` runs for the oldest undelivered report -/
  | deliver (s : DSA) (j : Nat) (sub : ASub) (ra rd : Nat → Bool) (rest : List ((Nat → Bool) × (Nat → Bool)))
      (hj : s.subs[j]? = some sub) (hp : sub.phase = .active) (hq : sub.queue = (ra, rd) :: rest) :
      DSAStep s { s with
        subs := s.subs.set j { sub with mirror := fun x => (applyBit (sub.mirror x) (ra x) (rd x)).1, queue := rest },
        count := fun x => (inheritBit (s.count x) (s.value x) (applyBit (sub.mirror x) (ra x) (rd x)).2.1
                    (applyBit (sub.mirror x) (ra x) (rd x)).2.2).1,
        value := fun x => (inheritBit (s.count x) (s.value x) (applyBit (sub.mirror x) (ra x) (rd x)).2.1
                    (applyBit (sub.mirror x) (ra x) (rd x)).2.2).2 }
  /-- `unsubscribeFromSource()` returns: no further callback of `j` starts, undelivered reports are dropped -/
  | unsubMark (s : DSA) (j : Nat) (sub : ASub) (hj : s.subs[j]? = some sub) (hp : sub.phase = .active) :
      DSAStep s { s with subs := s.subs.set j { sub with phase := .removing, queue := [] } }
  /-- `removeSourceElements()` -/
  | unsubRemove (s : DSA) (j : Nat) (sub : ASub) (hj : s.subs[j]? = some sub) (hp : sub.phase = .removing) :
      DSAStep s { s with
        subs := s.subs.set j { sub with phase := .dead },
        count := fun x => (inheritBit (s.count x) (s.value x) false (sub.mirror x)).1,
        value := fun x => (inheritBit (s.count x) (s.value x) false (sub.mirror x)).2 }

inductive DSAReach : DSA → DSA → Prop
  | refl (s : DSA) : DSAReach s s
  | tail {a b c : DSA} : DSAReach a b → DSAStep b c → DSAReach a c

/-- All writers, subscribers and unsubscribers have returned: nothing is queued, no removal is pending. -/
def DSA.quiescent (s : DSA) : Prop :=
  ∀ sub ∈ s.subs, (sub.phase = .active → sub.queue = []) ∧ sub.phase ≠ .removing

def DSA.union (s : DSA) (x : Nat) : Prop := ∃ sub ∈ s.subs, sub.phase = .active ∧ s.mem sub.src x = true

/-! ## Counter -/

structure AMon where
  var : Nat
  live : Bool
  was : Bool
  queue : List Int       -- undelivered new values of the monitored input, oldest first

structure CTA where
  cond : Int → Bool
  vars : Nat → Int
  mons : List AMon
  counter : Int

def CTA.init (cond : Int → Bool) : CTA := { cond := cond, vars := fun _ => 0, mons := [], counter := 0 }

def enqueueVal (i : Nat) (v : Int) (m : AMon) : AMon :=
  if m.live = true ∧ m.var = i then { m with queue := m.queue ++ [v] } else m

/-- `flag` is the `triggerWithInitialZeroValue` argument of `Monitor`'s subscription (`counter_impl.go`; regenerated:
`subs_counter_Monitor`): `OnUpdate` delivers the current value at once only if it is not the zero value or the flag is
set — otherwise the monitor is registered silently. -/
inductive CTAStep (flag : Bool) : CTA → CTA → Prop
  | set (s : CTA) (i : Nat) (v : Int) (hne : s.vars i ≠ v) :
      CTAStep flag s { s with vars := setAt s.vars i v, mons := s.mons.map (enqueueVal i v) }
  | monitor (s : CTA) (i : Nat) :
      CTAStep flag s { s with mons := s.mons ++ [{ var := i, live := true, was := false,
                                                   queue := (if s.vars i != 0 || flag then [s.vars i] else []) }] }
  | deliver (s : CTA) (j : Nat) (m : AMon) (v : Int) (rest : List Int)
      (hj : s.mons[j]? = some m) (hl : m.live = true) (hq : m.queue = v :: rest) :
      CTAStep flag s { s with mons := s.mons.set j { m with was := s.cond v, queue := rest },
                              counter := if s.cond v != m.was then (if s.cond v then s.counter + 1 else s.counter - 1) else s.counter }
  /-- the repaired unsubscribe function: cancel (drops undelivered values), then withdraw the contribution.
  The two parts are one step here because nothing else touches this monitor's flag in between. -/
  | unmonitor (s : CTA) (j : Nat) (m : AMon) (hj : s.mons[j]? = some m) (hl : m.live = true) :
      CTAStep flag s { s with mons := s.mons.set j { m with live := false, was := false, queue := [] },
                              counter := if m.was then s.counter - 1 else s.counter }

inductive CTAReach (flag : Bool) : CTA → CTA → Prop
  | refl (s : CTA) : CTAReach flag s s
  | tail {a b c : CTA} : CTAReach flag a b → CTAStep flag b c → CTAReach flag a c

def CTA.quiescent (s : CTA) : Prop := ∀ m ∈ s.mons, m.live = true → m.queue = []

def CTA.expected (s : CTA) : Nat := s.mons.countP (fun m => m.live && s.cond (s.vars m.var))

/-! ## SortedSet

`lag` is the sorted set as the sequential model has it, where `lag.wv e` is the weight of `e` *as
last delivered* to the set; `cur e` is the real current value of the weight variable; `pend e` are
the values stored since then whose callbacks have not run yet.  `Add` / `Delete` and a weight
callback are atomic w.r.t. the slice (they run under `sortedSet.mutex`); `Add` reads the current
weight in the same atomic registration that makes later updates visible; `Delete` drops whatever was
not delivered (the repaired callback ignores updates of an entry that is no longer in the set). -/

structure SSA where
  lag : SS
  cur : Nat → Int
  pend : Nat → List Int

def SSA.init (less : Bool) : SSA := { lag := SS.init less, cur := fun _ => 0, pend := fun _ => [] }

inductive SSAStep : SSA → SSA → Prop
  /-- `weightVariable(e).Set(w)`: the value changes now, the sorted set hears about it later -/
  | setW (s : SSA) (e : Nat) (w : Int) (hne : s.cur e ≠ w) :
      SSAStep s { s with cur := setAt s.cur e w,
                         pend := if s.lag.has e then setAt s.pend e (s.pend e ++ [w]) else s.pend }
  /-- the weight callback of member `e` runs for the oldest undelivered value -/
  | deliverW (s : SSA) (e : Nat) (w : Int) (rest : List Int) (hm : s.lag.has e = true) (hq : s.pend e = w :: rest) :
      SSAStep s { s with lag := s.lag.step (.weight e w), pend := setAt s.pend e rest }
  /-- `Add(e)` of a non-member: subscribe (reads the current weight), insert, position -/
  | add (s : SSA) (e : Nat) (hm : s.lag.has e = false) :
      SSAStep s { s with lag := ({ s.lag with wv := setAt s.lag.wv e (s.cur e) } : SS).step (.apply [e] []),
                         pend := setAt s.pend e [] }
  /-- `Delete(e)`: remove; undelivered weight updates of `e` are without effect from now on -/
  | del (s : SSA) (e : Nat) :
      SSAStep s { s with lag := s.lag.step (.apply [] [e]), pend := setAt s.pend e [] }

inductive SSAReach : SSA → SSA → Prop
  | refl (s : SSA) : SSAReach s s
  | tail {a b c : SSA} : SSAReach a b → SSAStep b c → SSAReach a c

def SSA.quiescent (s : SSA) : Prop := ∀ e, s.lag.has e = true → s.pend e = []

/-! ## SubtractReactive

`src.SubtractReactive(others…)` registers one callback on the source (occurrence `+`) and one per
subtracted set (occurrence `−`), one after the other, each with an initial delivery; writers of the
source and of the subtracted sets run concurrently (also during the creation) and may touch the same
elements.  Every callback runs `s.Compute(func … { return setArithmetic.Add/Subtract(mutations) })`:
the occurrence arithmetic and the application of its net result to the result set happen under the
result set's mutex — **that is the hypothesis of this model** (one atomic `deliver` step), tied to the
code by the skeleton obligation `C14_skeleton_readableSet_SubtractReactive`.  `view` is a ghost: the
content of the subscribed set as far as it has been delivered to this subscription. -/

structure RSub where
  set : Nat
  plus : Bool                                    -- the source's subscription (else a subtracted set's)
  view : Nat → Bool
  queue : List ((Nat → Bool) × (Nat → Bool))

structure SRA where
  mem : Nat → Nat → Bool
  subs : List RSub
  todo : Option (List Nat)        -- creation: `none` = not started; `some l` = subtracted sets still to subscribe
  src : Nat
  others : List Nat
  count : Nat → Int
  value : Nat → Bool

def SRA.init : SRA :=
  { mem := fun _ _ => false, subs := [], todo := none, src := 0, others := [], count := fun _ => 0, value := fun _ => false }

def renqueue (i : Nat) (ra rd : Nat → Bool) (s : RSub) : RSub :=
  if s.set = i then { s with queue := s.queue ++ [(ra, rd)] } else s

inductive SRAStep : SRA → SRA → Prop
  | write (s : SRA) (i : Nat) (op : SrcOp) :
      SRAStep s { s with mem := setAt s.mem i (op.newMem (s.mem i)),
                         subs := s.subs.map (renqueue i (op.repAdded (s.mem i)) (op.repDeleted (s.mem i))) }
  /-- `SubtractReactive` starts: the callback on the source is registered (content read atomically) -/
  | create (s : SRA) (src : Nat) (others : List Nat) (h : s.todo = none) :
      SRAStep s { s with todo := some others, src := src, others := others,
                         subs := [{ set := src, plus := true, view := fun _ => false, queue := [(s.mem src, fun _ => false)] }] }
  /-- the next subtracted set is subscribed -/
  | subscribe (s : SRA) (o : Nat) (rest : List Nat) (h : s.todo = some (o :: rest)) :
      SRAStep s { s with todo := some rest,
                         subs := s.subs ++ [{ set := o, plus := false, view := fun _ => false, queue := [(s.mem o, fun _ => false)] }] }
  /-- one callback runs: arithmetic + application to the result set, atomically under the result set's mutex -/
  | deliver (s : SRA) (j : Nat) (sub : RSub) (ra rd : Nat → Bool) (rest : List ((Nat → Bool) × (Nat → Bool)))
      (hj : s.subs[j]? = some sub) (hq : sub.queue = (ra, rd) :: rest) :
      SRAStep s { s with
        subs := s.subs.set j { sub with view := fun x => (applyBit (sub.view x) (ra x) (rd x)).1, queue := rest },
        count := fun x => if sub.plus then (inheritBit (s.count x) (s.value x) (ra x) (rd x)).1
                          else (subtractBit (s.count x) (s.value x) (ra x) (rd x)).1,
        value := fun x => if sub.plus then (inheritBit (s.count x) (s.value x) (ra x) (rd x)).2
                          else (subtractBit (s.count x) (s.value x) (ra x) (rd x)).2 }

inductive SRAReach : SRA → SRA → Prop
  | refl (s : SRA) : SRAReach s s
  | tail {a b c : SRA} : SRAReach a b → SRAStep b c → SRAReach a c

/-- The creation has finished and nothing is queued. -/
def SRA.quiescent (s : SRA) : Prop := s.todo = some [] ∧ ∀ sub ∈ s.subs, sub.queue = []

def SRA.diff (s : SRA) (x : Nat) : Bool := s.mem s.src x && s.others.all (fun o => !s.mem o x)

end Hive.Derived
