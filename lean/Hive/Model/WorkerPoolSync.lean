/-!
# Sequential models of `syncutils.Counter` (counter.go) and `syncutils.Stack` (stack.go) for C16

The pool relies on them as black boxes: `Counter.Update(±1)` returns the NEW value (`decreasePendingTasks` tests it
against zero), runs the subscribers — in subscription order, only when the value changed — and `Stack` is a FIFO
queue (`PushBack` / `Remove(Front)`) in spite of its name.  Here: the whole exported API of both, sequentially
(`Set`, `Update` with any delta, `Get`, `Subscribe` with and without callbacks, unsubscribe, the wait conditions;
`Push`, `Pop`, `PopOrWait` with a false condition, `Size`, the wait conditions), driven line by line against the real
objects (`sync seq` cases of the harness).
-/
namespace Hive.WPS

structure Ctr where
  value : Int := 0
  subs : List Nat := []                 -- active subscription ids, in subscription (= notification) order
  nextId : Nat := 0                     -- `subscribersCounter`
  log : List (Nat × Int × Int) := []    -- callbacks executed since the log was last read: (id, old, new)
deriving Repr

/-- `set` / `update` under the value mutex: nothing happens (no callback) when the value stays the same. -/
def Ctr.change (c : Ctr) (v : Int) : Ctr :=
  if v = c.value then c else { c with value := v, log := c.log ++ c.subs.map (fun i => (i, c.value, v)) }

/-- `Set(n)` returns the OLD value. -/
def Ctr.set (c : Ctr) (n : Int) : Ctr × Int := (c.change n, c.value)

/-- `Update(d)` returns the NEW value. -/
def Ctr.update (c : Ctr) (d : Int) : Ctr × Int := (c.change (c.value + d), c.value + d)

/-- `Subscribe(cb)`: the id is `++subscribersCounter`; ids are never reused. -/
def Ctr.subscribe (c : Ctr) : Ctr × Nat :=
  ({ c with nextId := c.nextId + 1, subs := c.subs ++ [c.nextId + 1] }, c.nextId + 1)

def Ctr.unsubscribe (c : Ctr) (id : Nat) : Ctr := { c with subs := c.subs.filter (· != id) }

/-- `WaitIsBelow(t)` returns iff `value < t` (`WaitIsZero` = `WaitIsBelow(1)`); `WaitIsAbove(t)` iff `value > t`. -/
def Ctr.belowReturns (c : Ctr) (t : Int) : Bool := c.value < t
def Ctr.aboveReturns (c : Ctr) (t : Int) : Bool := c.value > t

/-- The queue: `Push` appends, `Pop` / `PopOrWait` take the front. -/
abbrev Stk := List Int

def Stk.push (s : Stk) (x : Int) : Stk := s ++ [x]

def Stk.pop : Stk → Stk × Option Int
  | [] => ([], none)
  | x :: xs => (xs, some x)

def Stk.popN : Nat → Stk → Stk × List Int
  | 0, s => (s, [])
  | n + 1, s =>
    match Stk.pop s with
    | (s', some x) => let r := Stk.popN n s'; (r.1, x :: r.2)
    | (s', none) => (s', [])

def showLog (l : List (Nat × Int × Int)) : String :=
  "[" ++ " ".intercalate (l.map (fun e => s!"{e.1}:{e.2.1}>{e.2.2}")) ++ "]"

structure SyncSt where
  c : Ctr := {}
  q : Stk := []

def parseInt (s : String) : Option Int := s.toInt?

/-- One request line `c OP ARG` / `q OP ARG` (ARG is `-` when unused). -/
def syncLine (s : SyncSt) (obj op arg : String) : SyncSt × String :=
  match obj, op, parseInt arg with
  | "c", "set", some n => let r := s.c.set n; ({ s with c := r.1 }, s!"{r.2}")
  | "c", "upd", some d => let r := s.c.update d; ({ s with c := r.1 }, s!"{r.2}")
  | "c", "inc", _ => let r := s.c.update 1; ({ s with c := r.1 }, s!"{r.2}")        -- `Increase()` = `Update(1)`
  | "c", "dec", _ => let r := s.c.update (-1); ({ s with c := r.1 }, s!"{r.2}")     -- `Decrease()` = `Update(-1)`
  | "q", "signal", _ => (s, "ok")                                                   -- `SignalShutdown()`: a broadcast only
  | "c", "get", _ => (s, s!"{s.c.value}")
  | "c", "sub", _ => let r := s.c.subscribe; ({ s with c := r.1 }, s!"{r.2}")
  | "c", "sub0", _ => (s, "ok")          -- Subscribe() without callbacks: no id is consumed
  | "c", "unsub", some id =>
    if id.toNat ∈ s.c.subs then ({ s with c := s.c.unsubscribe id.toNat }, "ok") else (s, "skip")
  | "c", "log", _ => ({ s with c := { s.c with log := [] } }, showLog s.c.log)
  | "c", "below", some t => (s, if s.c.belowReturns t then "returns" else "blocks")
  | "c", "above", some t => (s, if s.c.aboveReturns t then "returns" else "blocks")
  | "q", "push", some x => ({ s with q := Stk.push s.q x }, s!"{(Stk.push s.q x).length}")
  | "q", "pop", _ =>
    match Stk.pop s.q with
    | (q', some x) => ({ s with q := q' }, s!"{x}")
    | (q', none) => ({ s with q := q' }, "none")
  | "q", "popwait", _ =>              -- PopOrWait(func() bool { return false })
    match Stk.pop s.q with
    | (q', some x) => ({ s with q := q' }, s!"{x}")
    | (q', none) => ({ s with q := q' }, "none")
  | "q", "size", _ => (s, s!"{s.q.length}")
  | "q", "below", some t => (s, if (s.q.length : Int) < t then "returns" else "blocks")
  | "q", "above", some t => (s, if (s.q.length : Int) > t then "returns" else "blocks")
  | _, _, _ => (s, "bad-op")

end Hive.WPS
