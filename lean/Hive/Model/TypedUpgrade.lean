import Hive.Model.TypedCode
import Hive.Model.TypedConc
/-!
# The upgrade window of `Get` / `Has` (kvstore/typedvalue.go) on the translated code, for C06

`Get` and `Has` are two critical sections: the *fast path* (`RLock` … `RUnlock`: cache inspection only) and the
*slow path* (`Lock` … deferred `Unlock`: re-check, store read, cache fill).  Between the two the caller holds no
lock, so any number of other callers may run complete operations: the slow path starts in a state that is **not**
the one its own fast path saw — in particular in a state in which the fast path would have hit.  Sequentially that
state of the slow path is unreachable (`execOpW` runs fast path and slow path back to back), so
`C06_code_refines_model` says nothing about the slow path's re-check branches.

This file splits a translated body at the first `Lock()` of its statement spine (`fastPart`, `slowPart`), runs the
two parts separately under the statement language's semantics, and builds the protocol model of
`Hive/Model/TypedConc.lean` over them (`tstepCode`: the `r1` micro-step runs the translated fast part on the shared
state of that moment, the `w1` micro-step runs the translated slow part on the shared state of *that* moment).
`Hive/Proofs/TypedUpgrade.lean` proves, against the re-translated source of every run, that the fast part is
`fastOut`, that the slow part — started in **every** state — is the sequential `step`, and hence that the code-level
protocol is the protocol model `C06_serialised` is about.
-/
namespace Hive.Typed.Code

variable {V : Type}

def isLock : Stmt → Bool
  | .sync .lock => true
  | _ => false

/-- The body from the first `t.mutex.Lock()` of its statement spine on (the whole body for `Compute/Set/Delete`). -/
def slowPart : Stmt → Stmt
  | .seq a rest => if isLock a then .seq a rest else slowPart rest
  | s => s

/-- The statements in front of the first `t.mutex.Lock()` (nothing for `Compute/Set/Delete`). -/
def fastPart : Stmt → Stmt
  | .seq a rest => if isLock a then .skip else .seq a (fastPart rest)
  | _ => .skip

/-- The slow path alone, started in `s` (which need not be a state in which the fast path misses). -/
def execSlowW [Inhabited V] (w : Bool) (P : Prog) (C : Codec V) (s : St V) (op : Op V) (F : Faults) : Res V :=
  match op with
  | .get => finish (fun _ => outGet) (exec C noFn F w (slowPart P.get) (start s))
  | .has => finish (fun _ => outHas) (exec C noFn F w (slowPart P.has) (start s))
  | .set v => finish (fun _ => outErr) (exec C noFn F w (slowPart P.set) { start s with env := Env.init.setV P.setParam v })
  | .delete => finish (fun _ => outErr) (exec C noFn F w (slowPart P.delete) (start s))
  | .compute f => finish outCompute (exec C f F w (slowPart P.compute) (start s))
  | .reopen => ⟨{ s with cv := none, ch := none }, .ok, []⟩

/-- What the fast path alone does in `s`: `some o` — it returned `o` (under the read lock); `none` — it fell through
to the upgrade. -/
def fastOutCode [Inhabited V] (w : Bool) (P : Prog) (C : Codec V) (s : St V) (op : Op V) (F : Faults) : Option (Out V) :=
  match op with
  | .get => match exec C noFn F w (fastPart P.get) (start s) with
    | .done _ r => some (outGet r)
    | .cont _ => none
    | .panic _ => some .panic
  | .has => match exec C noFn F w (fastPart P.has) (start s) with
    | .done _ r => some (outHas r)
    | .cont _ => none
    | .panic _ => some .panic
  | _ => none

/-- The machine state in which the fast path ends (returned or fell through). -/
def outcM : Outc V → M V
  | .cont m => m
  | .done m _ => m
  | .panic m => m

end Hive.Typed.Code

namespace Hive.Typed.Conc
open Hive.Conc Hive.Typed.Code

variable {V : Type}

/-- The protocol model of `TypedConc.lean` with the two lock-protected sections taken from the translated code:
`r1` runs the translated fast part, `w1` the translated slow part, each on the shared state at that moment. -/
def tstepCode [Inhabited V] (w : Bool) (P : Prog) (C : Codec V) (sh : Shared V) (t : Thread V) : List (Shared V × Thread V) :=
  match t.script with
  | [] => []
  | (op, F) :: rest =>
    match t.pc with
    | .idle =>
      if !isMethod op then []
      else if usesReadLock op then [(sh, { t with pc := .wantR })]
      else [(sh, { t with pc := .wantW })]
    | .wantR =>
      if sh.writer then [] else [({ sh with readers := sh.readers + 1 }, { t with pc := .r1 })]
    | .r1 =>
      match fastOutCode w P C sh.tv op F with
      | some o => [({ sh with log := sh.log ++ [(op, F, o)] }, { t with pc := .rHit o })]
      | none => [(sh, { t with pc := .rMiss })]
    | .rHit _ => [({ sh with readers := sh.readers - 1 }, { script := rest, pc := .idle })]
    | .rMiss => [({ sh with readers := sh.readers - 1 }, { t with pc := .wantW })]
    | .wantW =>
      if sh.writer || sh.readers != 0 then [] else [({ sh with writer := true }, { t with pc := .w1 })]
    | .w1 => [(sh, { t with pc := .w2 (execSlowW w P C sh.tv op F) })]
    | .w2 r => [({ sh with tv := { sh.tv with store := r.st.store } }, { t with pc := .w3 r })]
    | .w3 r => [({ sh with tv := { sh.tv with cv := r.st.cv, ch := r.st.ch } }, { t with pc := .wUnlock r })]
    | .wUnlock r =>
      [({ sh with writer := false, log := sh.log ++ [(op, F, r.out)], base := sh.tv },
        { script := rest, pc := .idle })]

def sysCode [Inhabited V] (w : Bool) (P : Prog) (C : Codec V) : Sys (Shared V) (Thread V) := { step := tstepCode w P C }

end Hive.Typed.Conc
