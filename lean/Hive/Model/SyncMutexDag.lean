import Hive.Conc.Sys
/-!
# DAGMutex (runtime/syncutils/dagmutex.go) over abstract per-entity reader/writer locks

(The system composed of the real StarvingMutex monitors is `Hive/Model/SyncMutexComp.lean`, with the theorems
`C17_dag_composed_*`; this coarser model is kept as the second executable oracle of the tie and for the
pessimistic-blocking form of the deadlock theorem.)

Per entity the DAGMutex keeps a `StarvingMutex` and a consumer count.  A consumer registers (count + 1,
mutex created on demand) in one critical section of `d.Mutex` **before** it blocks on the entity's mutex,
and unregisters in another one after it has unlocked (since the repair fdd3faa; before it: the other way round);
when the last consumer unregisters the entity's mutex and count are dropped from the maps.  `RLock(ids...)` registers all ids in one critical section and
then read-locks them one after the other in the given order; `Lock(id)` takes one entity.

Here the entity's `StarvingMutex` is the abstract reader/writer lock that `C17_monitor_refines_rwlock`
and `C17_no_lost_wakeup_quiescent` (Hive/Props/C17.lean, proved on the monitor protocol of
Hive/Model/SyncMutex.lean) justify: a write lock is granted only when nobody holds the entity, a read lock only when no writer holds
it (`step`), and a goroutine that stays blocked at quiescence is blocked by a current holder
(`blocked`, the pessimistic reading used by the deadlock theorem: a reader queued behind a parked
writer also waits for the readers that block that writer).  The critical sections of `d.Mutex` contain
no blocking operation and are single steps; an unlock (lookup, `StarvingMutex.Unlock/RUnlock`, unregister)
is one step as well — the order inside it is not visible at this level: the holder counts as having released from
the moment it calls.

`fixed = true` is the code after the repair of `unregisterMutex` (the last consumer also unlocks the
mutex it removes, so that unlocking in the wrong mode panics); `fixed = false` is the code before.
-/
namespace Hive.SyncMutex.Dag

inductive Mode
  | r | w
  deriving DecidableEq, Repr, Hashable

inductive DOp
  | lock (x : Nat)
  | unlock (x : Nat)
  | rlock (xs : List Nat)
  | runlock (xs : List Nat)
  deriving DecidableEq, Repr, Hashable

/-- State of one entity: `consumerCounter[id]` and the state of `mutexes[id]` (absent = all zero). -/
structure Ent where
  cnt : Nat
  readers : Nat
  writer : Bool
  deriving DecidableEq, Repr, Hashable

def Ent.zero : Ent := ⟨0, 0, false⟩

abbrev DSh := Nat → Ent

def upd {α : Type} (f : Nat → α) (x : Nat) (v : α) : Nat → α := fun y => if y = x then v else f y

inductive DPc
  | idle
  | acqW (x : Nat)          -- registered on x, inside `mutex.Lock()`
  | acqR (xs : List Nat)    -- registered on all of xs, read-locking them in this order
  | dead                    -- panicked
  deriving DecidableEq, Repr, Hashable

structure DTh where
  pc : DPc
  held : List (Nat × Mode)
  script : List DOp
  deriving DecidableEq, Repr, Hashable

def DTh.new (script : List DOp) : DTh := ⟨.idle, [], script⟩

def register (s : DSh) (x : Nat) : DSh := upd s x { s x with cnt := (s x).cnt + 1 }

def registerAll (s : DSh) (xs : List Nat) : DSh := xs.foldl register s

/-- the `StarvingMutex` unlock in mode `md` together with `unregisterMutex(x)`; `none` = panic. -/
def unlockEnt (fixed : Bool) (md : Mode) (s : DSh) (x : Nat) : Option DSh :=
  let e := s x
  if e.cnt = 0 then none                       -- "called Unlock or RUnlock too often"
  else if e.cnt = 1 ∧ fixed = false then some (upd s x Ent.zero)   -- old code: dropped without unlocking
  else
    match md with
    | .w =>
      if 0 < e.readers ∨ e.writer = false then none
      else some (upd s x (if e.cnt = 1 then Ent.zero else { e with cnt := e.cnt - 1, writer := false }))
    | .r =>
      if e.readers = 0 ∨ e.writer = true then none
      else some (upd s x (if e.cnt = 1 then Ent.zero else { e with cnt := e.cnt - 1, readers := e.readers - 1 }))

def unlockAll (fixed : Bool) (md : Mode) : DSh → List Nat → Option DSh
  | s, [] => some s
  | s, x :: xs =>
    match unlockEnt fixed md s x with
    | none => none
    | some s' => unlockAll fixed md s' xs

def eraseAll (held : List (Nat × Mode)) (md : Mode) : List Nat → List (Nat × Mode)
  | [] => held
  | x :: xs => eraseAll (held.erase (x, md)) md xs

def stepG (fixed : Bool) (s : DSh) (t : DTh) : List (DSh × DTh) :=
  match t.pc with
  | .dead => []
  | .idle =>
    match t.script with
    | [] => []
    | .lock x :: rest => [(register s x, { t with pc := .acqW x, script := rest })]
    | .rlock xs :: rest =>
      [(registerAll s xs, { t with pc := if xs = [] then .idle else .acqR xs, script := rest })]
    | .unlock x :: rest =>
      match unlockEnt fixed .w s x with
      | none => [(s, { t with pc := .dead, script := rest })]
      | some s' => [(s', { t with held := t.held.erase (x, .w), script := rest })]
    | .runlock xs :: rest =>
      match unlockAll fixed .r s xs with
      | none => [(s, { t with pc := .dead, script := rest })]
      | some s' => [(s', { t with held := eraseAll t.held .r xs, script := rest })]
  | .acqW x =>
    if (s x).writer = false ∧ (s x).readers = 0 then
      [(upd s x { s x with writer := true }, { t with pc := .idle, held := (x, .w) :: t.held })]
    else []
  | .acqR [] => [(s, { t with pc := .idle })]
  | .acqR (x :: xs) =>
    if (s x).writer = false then
      [(upd s x { s x with readers := (s x).readers + 1 },
        { t with pc := if xs = [] then .idle else .acqR xs, held := (x, .r) :: t.held })]
    else []

abbrev step := stepG true

def sys : Conc.Sys DSh DTh := ⟨stepG true⟩
def sysOld : Conc.Sys DSh DTh := ⟨stepG false⟩

def initCfg (scripts : List (List DOp)) : Conc.Cfg DSh DTh := (fun _ => Ent.zero, scripts.map DTh.new)

def DTh.done (t : DTh) : Prop := t.pc = .idle ∧ t.script = []

/-- The entity a goroutine is waiting for. -/
def DTh.wants (t : DTh) : Option Nat :=
  match t.pc with
  | .acqW x => some x
  | .acqR (x :: _) => some x
  | _ => none

/-- Pessimistic blocking: a goroutine inside `mutex.Lock()/RLock()` of an entity may stay blocked as long
as anybody holds that entity in any mode (see `C17_no_lost_wakeup_quiescent`). -/
def blocked (s : DSh) (t : DTh) : Prop :=
  ∃ x, t.wants = some x ∧ ((s x).writer = true ∨ 0 < (s x).readers)

/-- All entities held are below `x`: entity numbers are positions in a topological order of the DAG. -/
def below (held : List (Nat × Mode)) (x : Nat) : Bool := held.all (fun h => h.1 < x)

/-- `xs` strictly increasing and above everything held. -/
def chain : List (Nat × Mode) → List Nat → Bool
  | _, [] => true
  | held, x :: xs => below held x && chain ((x, .r) :: held) xs

def pushAll (held : List (Nat × Mode)) : List Nat → List (Nat × Mode)
  | [] => held
  | x :: xs => pushAll ((x, .r) :: held) xs

def allHeld (held : List (Nat × Mode)) (md : Mode) : List Nat → Bool
  | [] => true
  | x :: xs => held.contains (x, md) && allHeld (held.erase (x, md)) md xs

/-- Scripts that acquire along the order, release only what they hold, and end holding nothing. -/
def okD : List (Nat × Mode) → List DOp → Bool
  | held, [] => held.isEmpty
  | held, .lock x :: r => below held x && okD ((x, .w) :: held) r
  | held, .rlock xs :: r => chain held xs && okD (pushAll held xs) r
  | held, .unlock x :: r => held.contains (x, .w) && okD (held.erase (x, .w)) r
  | held, .runlock xs :: r => allHeld held .r xs && okD (eraseAll held .r xs) r

end Hive.SyncMutex.Dag
