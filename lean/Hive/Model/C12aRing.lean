import Hive.Model.C12aMap
/-!
# Model of `ringbuffer.RingBuffer` (ds/ringbuffer/ringbuffer.go) for C12

`pos` is the next write position, `size` saturates at the capacity (> 0).  `toSlice` is the loop of
the code: start at `pos-1` (wrapping to `capacity-1`), walk backwards `size` times.  The abstract
model is the list of everything ever added, newest first; `ToSlice` must be its first
`min(n, capacity)` elements.
-/
namespace Hive.C12a.Ring

structure St where
  buf : List Nat
  pos : Nat
  cap : Nat
  size : Nat
deriving Repr

def init (cap : Nat) : St := { buf := List.replicate cap 0, pos := 0, cap := cap, size := 0 }

def add (s : St) (x : Nat) : St :=
  { s with buf := s.buf.set s.pos x, pos := (s.pos + 1) % s.cap,
           size := if s.size < s.cap then s.size + 1 else s.size }

/-- `i--; if i < 0 { i = capacity - 1 }`. -/
def prev (cap i : Nat) : Nat := if i = 0 then cap - 1 else i - 1

/-- The loop body of `ToSlice`, `n` iterations left, reading at `i`. -/
def walk (buf : List Nat) (cap : Nat) : Nat → Nat → List Nat
  | 0, _ => []
  | n + 1, i => buf.getD i 0 :: walk buf cap n (prev cap i)

def toSlice (s : St) : List Nat := walk s.buf s.cap s.size (prev s.cap s.pos)

inductive Op
  | add (x : Nat) | toSlice
deriving Repr, DecidableEq

inductive Out
  | bool (b : Bool) | list (l : List Nat)
deriving Repr, DecidableEq

def step (s : St) : Op → St × Out
  | .add x => (add s x, .bool true)
  | .toSlice => (s, .list (toSlice s))

def run (s : St) : List Op → St × List Out
  | [] => (s, [])
  | op :: ops =>
    let r := step s op
    let r' := run r.1 ops
    (r'.1, r.2 :: r'.2)

/-! ## abstract model: the whole history, newest first, observed through a window of `cap` -/

structure Spec where
  hist : List Nat
  cap : Nat
deriving Repr, DecidableEq

def specStep (a : Spec) : Op → Spec × Out
  | .add x => ({ a with hist := x :: a.hist }, .bool true)
  | .toSlice => (a, .list (a.hist.take a.cap))

def specRun (a : Spec) : List Op → Spec × List Out
  | [] => (a, [])
  | op :: ops =>
    let r := specStep a op
    let r' := specRun r.1 ops
    (r'.1, r.2 :: r'.2)

/-! ## line protocol (`ring …`) -/
open Hive.Proto Hive.C12a

/-- White-box state printed after every answer: the first 64 buffer cells, `pos`, `size`. -/
def showState (s : St) : String := s!"b{showNatList (s.buf.take 64)} p{s.pos} n{s.size}"

def stepLine (s : St) (toks : List String) : St × String :=
  match toks with
  -- capacity 0 is legal to construct: ToSlice is empty, Add panics (index out of range, nothing
  -- changed before); outside the theorems (`0 < c`)
  | ["new", c] => match c.toNat? with | some c => (init c, "ok") | _ => (s, "bad-op")
  | ["add", x] =>
    match x.toNat? with
    | some x => if s.cap = 0 then (s, "panic") else (add s x, "true")
    | none => (s, "bad-op")
  | ["slice"] => (s, showNatList (toSlice s))
  | _ => (s, "bad-op")

end Hive.C12a.Ring
