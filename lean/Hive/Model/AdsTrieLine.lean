import Hive.Model.AdsTrie
/-!
# Line protocol of the trie part of C09

The second correspondence part of C09 drives a real `smt.SMT` (sha256 path hasher, no value hasher —
the configuration `ads` uses) over an in-memory node store and compares it with the trie model `T`
(`Hive/Model/AdsTrie.lean`, the one the `C09_trie_ext_*` theorems are about):

* `tput i <key> <path> <value>` / `tdel i <key> <path>` / `tget i <key> <path>` — `Update` /
  `Delete` / `Get`; the harness sends the key (for the real trie, ignored here) and its 256-bit path
  `sha256(key)`, which is what the trie works on;
* `troot i` — the root as an equality class over all tries and time points of the session: the
  index of the first root point with the same *expanded* trie (with the free hash the digest of a
  trie is its expansion, `freeHash_collisionFree`);
* `tcommit i` — `Commit`; answered with the shape of the trie as the node store now holds it
  (leaf / inner / extension nodes with their bit runs, walked from the root) and the number of
  records in the store: the model predicts both exactly, including which chains are extension
  nodes and which are inner nodes with an empty child (that depends on the history);
* `treopen i` — `ImportSparseMerkleTrie` from the last committed root over the same store
  (un-committed changes are lost).
-/
namespace Hive.Ads.SMT
open Hive.Proto

def bitsOfByte (b : UInt8) : List Bool :=
  [128, 64, 32, 16, 8, 4, 2, 1].map (fun m => (b.toNat / m) % 2 == 1)

def bitsOfBytes (bs : List UInt8) : Path := bs.flatMap bitsOfByte

def showBits (bs : List Bool) : String := String.ofList (bs.map (fun b => if b then '1' else '0'))

/-- first 4 bytes of a path, in hex -/
def showPathHead (p : Path) : String :=
  let nib (l : List Bool) : Nat := l.foldl (fun a b => 2 * a + (if b then 1 else 0)) 0
  let rec go (l : List Bool) (n : Nat) : List Char :=
    match n with
    | 0 => []
    | n + 1 => hexDigit (nib (l.take 4)) :: go (l.drop 4) n
  String.ofList (go p 8)

/-- The shape of a trie as the node store holds it. -/
def T.shape : T → String
  | .nil => "-"
  | .leaf p _ => "L" ++ showPathHead p
  | .inner l r => "(I " ++ l.shape ++ " " ++ r.shape ++ ")"
  | .ext bits c => "(X" ++ showBits bits ++ " " ++ c.shape ++ ")"

/-- Number of records in the node store: one per leaf, inner node and extension node. -/
def T.nodes : T → Nat
  | .nil => 0
  | .leaf _ _ => 1
  | .inner l r => 1 + l.nodes + r.nodes
  | .ext _ c => 1 + c.nodes

structure TInst where
  cur : T
  saved : T

structure TSess where
  tries : List (Nat × TInst)
  /-- expanded trie at every root request so far, oldest first -/
  points : List E

def TSess.init : TSess := { tries := [], points := [] }

def TSess.get (ss : TSess) (i : Nat) : Option TInst := (ss.tries.find? (·.1 == i)).map (·.2)

def TSess.put (ss : TSess) (i : Nat) (t : TInst) : TSess :=
  { ss with tries := (i, t) :: ss.tries.filter (·.1 != i) }

def classOfE (e : E) : List E → Nat
  | [] => 0
  | p :: ps => if p = e then 0 else classOfE e ps + 1

def parsePath (s : String) : Option Path :=
  match unhex s with
  | some bs => if bs.length = 32 then some (bitsOfBytes bs) else none
  | none => none

def tstepLine (ss : TSess) (toks : List String) : TSess × String :=
  match toks with
  | ["topen", i] =>
    match i.toNat? with
    | some i => (ss.put i { cur := .nil, saved := .nil }, "ok")
    | none => (ss, "bad-op")
  | verb :: i :: args =>
    match i.toNat? with
    | none => (ss, "bad-op")
    | some i =>
      match ss.get i with
      | none => (ss, "noinst")
      | some t =>
        match verb, args with
        | "tput", [_, p, v] =>
          match parsePath p, unhex v with
          | some p, some v => (ss.put i { t with cur := t.cur.update 0 p v }, "ok")
          | _, _ => (ss, "bad-op")
        | "tdel", [_, p] =>
          match parsePath p with
          | some p =>
            -- smt.Delete fails with ErrKeyNotFound and leaves the trie alone when the key is absent
            if (t.cur.get 0 p).isSome then (ss.put i { t with cur := t.cur.delete 0 p }, "ok")
            else (ss, "notfound")
          | none => (ss, "bad-op")
        | "tget", [_, p] =>
          match parsePath p with
          | some p =>
            match t.cur.get 0 p with
            | some v => (ss, "found " ++ hex v)
            | none => (ss, "notfound")
          | none => (ss, "bad-op")
        | "troot", [] =>
          let e := t.cur.expand
          let pts := ss.points ++ [e]
          ({ ss with points := pts }, s!"class {classOfE e pts}")
        | "tcommit", [] =>
          (ss.put i { t with saved := t.cur }, s!"shape {t.cur.shape} nodes={t.cur.nodes}")
        | "treopen", [] => (ss.put i { t with cur := t.saved }, "ok")
        | _, _ => (ss, "bad-op")
  | _ => (ss, "bad-op")

end Hive.Ads.SMT
