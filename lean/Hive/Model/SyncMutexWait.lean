import Hive.Conc.Sys
/-!
# The wait primitives of `syncutils.Counter` and `syncutils.Stack` as one monitor protocol

Both types have the same shape: a value (`Counter.value`, `Stack.elements.Len()`) guarded by a lock, an
"increased"/"element added" and a "decreased"/"element removed" `sync.Cond` on that lock, mutators that
change the value inside the lock and `Broadcast` **after releasing it**, and waiters that loop
`for cond-not-met { cond.Wait() }` inside the lock.

| model op | Counter | Stack |
|---|---|---|
| `add d` | `Update(d)`, `Increase` (1), `Decrease` (-1) | `Push` (1) |
| `set v` | `Set(v)` | – |
| `tryPop` | – | `Pop` |
| `waitBelow t` | `WaitIsBelow(t)`, `WaitIsZero` (t = 1) | `WaitSizeIsBelow(t)`, `WaitIsEmpty` (t = 1) |
| `waitAbove t` | `WaitIsAbove(t)` | `WaitSizeIsAbove(t)` |
| `popOrWait` | – | `PopOrWait(waitCondition)`; the callback's answer is chosen by the environment |
| `shutdown` | – | `SignalShutdown` (takes the lock, `Broadcast` on "added", releases — since the repair a0dbad3 of the PopOrWait gap; before it the broadcast was issued without the lock) |

Only `Broadcast` is used on these conditions, so a condition variable is its broadcast generation
(`genI`, `genD`): `Wait` records the generation while it still holds the lock (Go registers the waiter
before unlocking) and resumes once the generation has moved on.
-/
namespace Hive.SyncMutex.Wait

inductive WOp
  | add (d : Int)
  | set (v : Int)
  | tryPop
  | waitBelow (thr : Int)
  | waitAbove (thr : Int)
  | popOrWait
  | shutdown
  deriving DecidableEq, Repr, Hashable

structure Mon where
  m : Bool
  value : Int
  genI : Nat
  genD : Nat
  deriving DecidableEq, Repr, Hashable

def Mon.init (v : Int) : Mon := ⟨false, v, 0, 0⟩

inductive WPc
  | idle
  | acq (op : WOp)
  | crit (op : WOp)
  | critW                       -- PopOrWait: stack empty, `waitCondition()` said true, about to `Wait`
  | parkI (op : WOp) (g : Nat)
  | parkD (op : WOp) (g : Nat)
  | bcI
  | bcD
  deriving DecidableEq, Repr, Hashable

structure WTh where
  pc : WPc
  script : List WOp
  /-- results reported by `tryPop`/`popOrWait` (true = an element was taken), newest first -/
  res : List Bool
  /-- answers the `waitCondition` callback of `PopOrWait` gave so far, newest first (ghost: the driver compares
  it with the answers the harness's callback really gave) -/
  cb : List Bool
  deriving DecidableEq, Repr, Hashable

def WTh.new (script : List WOp) : WTh := ⟨.idle, script, [], []⟩

/-- The loop condition of a waiter: it keeps waiting while this holds. -/
def mustWait : WOp → Int → Prop
  | .waitBelow thr, v => thr ≤ v
  | .waitAbove thr, v => v ≤ thr
  | .popOrWait, v => v ≤ 0
  | _, _ => False

instance (op : WOp) (v : Int) : Decidable (mustWait op v) := by
  cases op <;> simp only [mustWait] <;> exact inferInstance

def critStep (s : Mon) (t : WTh) (op : WOp) : List (Mon × WTh) :=
  match op with
  | .add d =>
    [({ s with m := false, value := s.value + d },
      { t with pc := if 1 ≤ d then .bcI else if d ≤ -1 then .bcD else .idle })]
  | .set v =>
    [({ s with m := false, value := v },
      { t with pc := if s.value < v then .bcI else if v < s.value then .bcD else .idle })]
  | .tryPop =>
    if 0 < s.value then [({ s with m := false, value := s.value - 1 }, { t with pc := .bcD, res := true :: t.res })]
    else [({ s with m := false }, { t with pc := .idle, res := false :: t.res })]
  | .waitBelow thr =>
    if thr ≤ s.value then [({ s with m := false }, { t with pc := .parkD (.waitBelow thr) s.genD })]
    else [({ s with m := false }, { t with pc := .idle })]
  | .waitAbove thr =>
    if s.value ≤ thr then [({ s with m := false }, { t with pc := .parkI (.waitAbove thr) s.genI })]
    else [({ s with m := false }, { t with pc := .idle })]
  | .popOrWait =>
    if s.value ≤ 0 then
      [(s, { t with pc := .critW, cb := true :: t.cb }),                     -- waitCondition() = true
       ({ s with m := false }, { t with pc := .idle, res := false :: t.res, cb := false :: t.cb })] -- … = false
    else [({ s with m := false, value := s.value - 1 }, { t with pc := .bcD, res := true :: t.res })]
  | .shutdown => [({ s with m := false, genI := s.genI + 1 }, { t with pc := .idle })]

def step (s : Mon) (t : WTh) : List (Mon × WTh) :=
  match t.pc with
  | .idle =>
    match t.script with
    | [] => []
    | op :: rest => [(s, { t with pc := .acq op, script := rest })]
  | .acq op => if s.m then [] else [({ s with m := true }, { t with pc := .crit op })]
  | .crit op => critStep s t op
  | .critW => [({ s with m := false }, { t with pc := .parkI .popOrWait s.genI })]
  | .parkI op g => if g < s.genI then [(s, { t with pc := .acq op })] else []
  | .parkD op g => if g < s.genD then [(s, { t with pc := .acq op })] else []
  | .bcI => [({ s with genI := s.genI + 1 }, { t with pc := .idle })]
  | .bcD => [({ s with genD := s.genD + 1 }, { t with pc := .idle })]

def sys : Conc.Sys Mon WTh := ⟨step⟩

def initCfg (v : Int) (scripts : List (List WOp)) : Conc.Cfg Mon WTh := (Mon.init v, scripts.map WTh.new)

def WTh.done (t : WTh) : Prop := t.pc = .idle ∧ t.script = []

def sumL {α : Type} (f : α → Nat) (l : List α) : Nat := (l.map f).sum

def fCrit (t : WTh) : Nat := match t.pc with | .crit _ | .critW => 1 | _ => 0
def fBcI (t : WTh) : Nat := match t.pc with | .bcI => 1 | _ => 0
def fBcD (t : WTh) : Nat := match t.pc with | .bcD => 1 | _ => 0

end Hive.SyncMutex.Wait
