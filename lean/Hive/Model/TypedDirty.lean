import Hive.Model.TypedValue
/-!
# A store whose failing write may have taken effect ("dirty failure"), for C06

The property's clause "every failure … leaves store and cache unchanged" presupposes a `KVStore` whose failing calls have
no effect (`step`: a failed call changes nothing).  A real store may report a failure *after* the write went through (a
timeout behind a network, an fsync error).  `stepD` is `step` over such a store: same control flow, same result, same
calls, same cache — but when the call that failed was the store write of the operation (`kv.Set` of `Set` / `Compute`,
`kv.Delete` of `Delete`), the raw key ends up as if that write had succeeded.

What the wrapper guarantees regardless (`C06_dirty_store_failure`): the error of the failed call is returned and the cache
is untouched.  What it cannot guarantee: the cache is then possibly *behind* the store (`C06_dirty_store_witness`) until
the next successful write or a fresh object.
-/
namespace Hive.Typed

variable {V : Type}

/-- The fault vector with the fault of the operation's store *write* removed (its position: the second store call of a
`Compute` that reads the store first, the first store call otherwise). -/
def clearWriteFault (s : St V) (op : Op V) (F : Faults) : Faults :=
  match op with
  | .compute _ => if needsRead s then { F with kv2 := false } else { F with kv1 := false, kv2 := false }
  | _ => { F with kv1 := false, kv2 := false }

def writeFailed (tr : List Ev) : Bool := tr.contains ⟨.kvSet, .fail⟩ || tr.contains ⟨.kvDel, .fail⟩

/-- One operation over a store whose failing write takes effect all the same. -/
def stepD [Inhabited V] (C : Codec V) (s : St V) (op : Op V) (F : Faults) : Res V :=
  let r := step C s op F
  if writeFailed r.tr then
    { r with st := { r.st with store := (step C s op (clearWriteFault s op F)).st.store } }
  else r

end Hive.Typed
