import Hive.Model.OMap
import Hive.Conc.Sys
/-!
# Concurrent side of C11: lock protocol of `ds.Set`, method-level protocol of the single-element
# operations, and the linearizability checker used on recorded histories

Two locks: `A` = `set.applyMutex`, `M` = `OrderedMap.mutex` (both `sync.RWMutex`).

* `lockSys` / `lockSysP`: every goroutine is an arbitrary *lock script* (sequence of lock actions and
  data accesses).  `methodScript` gives the scripts of the `ds.Set` methods as read from
  `ds/set_impl.go` and `ds/orderedmap/orderedmap.go`.
* `opSys`: goroutines execute arbitrary sequences of `Add`/`Delete`/`Has`/`Clear` at the granularity
  "lock – dictionary lookup – write – unlock", with a linearization log.
* `linSearch`: Wing–Gong search deciding whether a recorded history of completed calls is
  linearizable w.r.t. the sequential model of `Hive/Model/OMap.lean`.
-/
namespace Hive.OMap
open Hive.Conc

/-! ## `sync.RWMutex` -/

/-- `readers` hold the read lock, `writer` = a writer holds it, `pending` writers have called `Lock()`
and not yet acquired. -/
structure RW where
  readers : Nat
  writer : Bool
  pending : Nat
deriving Repr, DecidableEq

def RW.free : RW := { readers := 0, writer := false, pending := 0 }

/-- what a goroutine holds of one lock -/
inductive Hold
  | none | req | r | w
deriving Repr, DecidableEq

/-- the locks of set number `i`: `A i` = its `applyMutex`, `M i` = the `mutex` of its ordered map -/
inductive LockId
  | A (i : Nat)
  | M (i : Nat)
deriving Repr, DecidableEq

inductive Act
  | rlock (l : LockId)
  | runlock (l : LockId)
  | req (l : LockId)      -- `Lock()` called: the writer is now pending
  | acq (l : LockId)      -- `Lock()` returns
  | unlock (l : LockId)
  | read                  -- a read of the fields of the map whose `M` is held
  | write                 -- a write of the fields of the map whose `M` is held
deriving Repr, DecidableEq

/-- A goroutine holds at most one `applyMutex` (`hA` of set `sA`) and at most one map mutex (`hM` of set
`sM`); the set numbers are 0 while nothing of that class is held. -/
structure Th where
  hA : Hold
  sA : Nat
  hM : Hold
  sM : Nat
  script : List Act
deriving Repr, DecidableEq

/-- the state of every lock of every set -/
abbrev Locks := LockId → RW

def Locks.init : Locks := fun _ => RW.free

def Locks.get (s : Locks) (l : LockId) : RW := s l
def Locks.put (s : Locks) (l : LockId) (x : RW) : Locks := fun l' => if l' = l then x else s l'

def Th.hold (t : Th) : LockId → Hold
  | .A i => if t.sA = i then t.hA else .none
  | .M i => if t.sM = i then t.hM else .none

def Th.setHold (t : Th) (l : LockId) (h : Hold) : Th :=
  match l with
  | .A i => { t with hA := h, sA := if h = .none then 0 else i }
  | .M i => { t with hM := h, sM := if h = .none then 0 else i }

/-- Go semantics of one action.  `strict = true`: a pending writer blocks new readers (writer
preference, what `sync.RWMutex` guarantees to block on); `strict = false` additionally lets a reader
in while a writer is only pending (what happens when `Unlock` releases the readers that queued up
behind the previous writer).  Reachability is taken w.r.t. the permissive relation, blocking w.r.t.
the strict one. -/
def lockStep (strict : Bool) (s : Locks) (t : Th) : List (Locks × Th) :=
  match t.script with
  | [] => []
  | a :: rest =>
    let t' := { t with script := rest }
    match a with
    | .rlock l =>
      let x := s.get l
      if !x.writer && (!strict || x.pending == 0) then
        [(s.put l { x with readers := x.readers + 1 }, t'.setHold l .r)] else []
    | .runlock l =>
      let x := s.get l
      [(s.put l { x with readers := x.readers - 1 }, t'.setHold l .none)]
    | .req l =>
      let x := s.get l
      [(s.put l { x with pending := x.pending + 1 }, t'.setHold l .req)]
    | .acq l =>
      let x := s.get l
      if x.readers == 0 && !x.writer then
        [(s.put l { x with writer := true, pending := x.pending - 1 }, t'.setHold l .w)] else []
    | .unlock l =>
      let x := s.get l
      [(s.put l { x with writer := false }, t'.setHold l .none)]
    | .read => [(s, t')]
    | .write => [(s, t')]

/-- writer-preference semantics (used for "blocked") -/
def lockSys : Sys Locks Th := { step := lockStep true }
/-- permissive semantics (used for "reachable") -/
def lockSysP : Sys Locks Th := { step := lockStep false }

/-- Well-formed scripts, **for any number of sets**: an `applyMutex` (of whichever set) is only acquired
while the goroutine holds nothing at all, a map mutex (of whichever set — the receiver's or a source's)
only while it holds no map mutex; `acq` directly follows `req`; releases match what is held; data
accesses happen under a map mutex; nothing is held at the end.  Hence: every `applyMutex` has rank 0,
every map mutex rank 1 and is a leaf — there is no cycle among the locks of one set (no re-entrant
acquisition) nor across sets. -/
def wfB : Hold → Nat → Hold → Nat → List Act → Bool
  | hA, sA, hM, sM, [] => hA == .none && hM == .none && sA == 0 && sM == 0
  | hA, _, hM, sM, .rlock (.A i) :: r => hA == .none && hM == .none && wfB .r i hM sM r
  | hA, _, hM, sM, .req (.A i) :: r => hA == .none && hM == .none && wfB .req i hM sM r
  | hA, sA, hM, sM, .acq (.A i) :: r => hA == .req && sA == i && hM == .none && wfB .w i hM sM r
  | hA, sA, hM, sM, .runlock (.A i) :: r => hA == .r && sA == i && hM != .req && wfB .none 0 hM sM r
  | hA, sA, hM, sM, .unlock (.A i) :: r => hA == .w && sA == i && hM != .req && wfB .none 0 hM sM r
  | hA, sA, hM, _, .rlock (.M j) :: r => hA != .req && hM == .none && wfB hA sA .r j r
  | hA, sA, hM, _, .req (.M j) :: r => hA != .req && hM == .none && wfB hA sA .req j r
  | hA, sA, hM, sM, .acq (.M j) :: r => hM == .req && sM == j && wfB hA sA .w j r
  | hA, sA, hM, sM, .runlock (.M j) :: r => hA != .req && hM == .r && sM == j && wfB hA sA .none 0 r
  | hA, sA, hM, sM, .unlock (.M j) :: r => hA != .req && hM == .w && sM == j && wfB hA sA .none 0 r
  | hA, sA, hM, sM, .read :: r => hA != .req && (hM == .r || hM == .w) && wfB hA sA hM sM r
  | hA, sA, hM, sM, .write :: r => hA != .req && hM == .w && wfB hA sA hM sM r

def WF (hA : Hold) (sA : Nat) (hM : Hold) (sM : Nat) (s : List Act) : Prop := wfB hA sA hM sM s = true

instance (hA : Hold) (sA : Nat) (hM : Hold) (sM : Nat) (s : List Act) : Decidable (WF hA sA hM sM s) := by
  unfold WF; exact inferInstance

/-- well formed from the state in which nothing is held -/
abbrev WF0 (s : List Act) : Prop := WF .none 0 .none 0 s

def Th.wf (t : Th) : Prop := WF t.hA t.sA t.hM t.sM t.script

def Th.start (script : List Act) : Th := { hA := .none, sA := 0, hM := .none, sM := 0, script := script }

/-! ### lock scripts of the `ds.Set` and `OrderedMap` methods (after the fixes)

`i` is the receiver, `src` the set passed as `ReadableSet` / inside the `SetMutations` argument (it may be the
receiver itself: `src = i`).  A source only ever contributes its *map mutex*, taken for the duration of one
step of its `ForEach`/`Range`/`ToSlice`, never while a map mutex of the receiver is held.

Every method of `orderedmap.OrderedMap` has a script: `Head`/`Tail`/`Has`/`Get`/`Size`/`IsEmpty` = `.reader 1`;
`ForEach`/`ForEachReverse` over a chain of n elements = `.reader (n + 1)` (the lock is released around every
consumer call); `Set` = `.mapSet`; `Delete` = `.mapDelete found`; `Clear` = `.clear`; `Clone` = `.clone n`.

`omSet` = `OrderedMap.Set`, `omDelete found` = `OrderedMap.Delete` (its unlocked-section `Get` first;
`found = false` is the early return), `omRead` = `Has`/`Get`/`Size`/one `ForEach` step. -/

def omSet (i : Nat) : List Act := [.req (.M i), .acq (.M i), .read, .write, .unlock (.M i)]
def omRead (i : Nat) : List Act := [.rlock (.M i), .read, .runlock (.M i)]
def omDelete (i : Nat) (found : Bool) : List Act :=
  omRead i ++ (if found then [.req (.M i), .acq (.M i), .read, .write, .unlock (.M i)] else [])
def omClear (i : Nat) : List Act := [.req (.M i), .acq (.M i), .write, .unlock (.M i)]

def rep (n : Nat) (l : List Act) : List Act := (List.replicate n l).flatten

/-- the source's `ForEach`/`Range` over `bodies.length` elements: read `head`, then per element the consumer's
block followed by the locked read of `next` -/
def forEachOver (src : Nat) (bodies : List (List Act)) : List Act :=
  omRead src ++ (bodies.map (fun b => b ++ omRead src)).flatten

/-- `OrderedMap.Clone`: one `RLock` held over the whole copy loop; the loop reads the chain directly
(`currentEntry.next`) and calls `Set` on the *new*, still private map (its lock is uncontended and not
modelled). -/
def omClone (i n : Nat) : List Act := [.rlock (.M i)] ++ rep n [.read] ++ [.runlock (.M i)]

/-- A `Clone` that iterates through `o.ForEach` while still holding the read lock: every step takes
`mutex.RLock` again. -/
def cloneReentrant (i n : Nat) : List Act := [.rlock (.M i)] ++ rep n (omRead i) ++ [.runlock (.M i)]

/-- a method call with its source set(s) and the data-dependent choices it makes (which `Delete`s find their key) -/
inductive Call
  | add
  | delete (found : Bool)
  | addAll (src : Nat) (n : Nat)                          -- n elements produced by the source's ForEach
  | deleteAll (src : Nat) (founds : List Bool)
  | apply (srcA srcD : Nat) (adds : Nat) (dels : List Bool)  -- also `Compute`
  | replace (src : Nat) (prev : Nat) (n : Nat)            -- ToSlice (prev+1 reads), source ToSlice (n+1 reads), Clear, n Sets, prev Has
  | reader (steps : Nat)                                  -- Has / Size / ForEach / ToSlice ...: only `M.RLock`
  | readerOf (src : Nat) (steps : Nat)                    -- HasAll / Equals / Intersect / Filter: reads of receiver and source
  | clear
  | mapSet                                                -- `OrderedMap.Set` called directly (Decode, NewSet, users of the map)
  | mapDelete (found : Bool)                              -- `OrderedMap.Delete` called directly
  | clone (n : Nat)                                       -- `OrderedMap.Clone` of a map with n entries
deriving Repr, DecidableEq

/-- the script of a call on set `i` -/
def methodScript (i : Nat) : Call → List Act
  | .add => [.rlock (.A i)] ++ omSet i ++ [.runlock (.A i)]
  | .delete f => [.rlock (.A i)] ++ omDelete i f ++ [.runlock (.A i)]
  | .addAll src n => [.rlock (.A i)] ++ forEachOver src (List.replicate n (omSet i)) ++ [.runlock (.A i)]
  | .deleteAll src fs => [.rlock (.A i)] ++ forEachOver src (fs.map (omDelete i)) ++ [.runlock (.A i)]
  | .apply srcA srcD n ds =>
    [.req (.A i), .acq (.A i)] ++ forEachOver srcA (List.replicate n (omSet i)) ++ forEachOver srcD (ds.map (omDelete i))
      ++ [.unlock (.A i)]
  | .replace src p n =>
    [.req (.A i), .acq (.A i)] ++ rep (p + 1) (omRead i) ++ rep (n + 1) (omRead src) ++ omClear i ++ rep n (omSet i)
      ++ rep p (omRead i) ++ [.unlock (.A i)]
  | .reader n => rep n (omRead i)
  | .readerOf src n => rep n (omRead i ++ omRead src)
  | .clear => omClear i
  | .mapSet => omSet i
  | .mapDelete f => omDelete i f
  | .clone n => omClone i n

/-- `DeleteAll` before the fix: the callback called `s.Delete`, which takes `applyMutex.RLock` again. -/
def deleteAllOld (i : Nat) (founds : List Bool) : List Act :=
  [.rlock (.A i)] ++ (founds.map (fun f => [.rlock (.A i)] ++ omDelete i f ++ [.runlock (.A i)])).flatten ++ [.runlock (.A i)]

/-- an `AddAll` that also takes the *source's* `applyMutex` for reading ("consistent snapshot"): an
`applyMutex` acquired while another one is held — re-entrant when the source is the receiver, a lock-order
cycle between two sets otherwise. -/
def addAllSourceLocked (i src n : Nat) : List Act :=
  [.rlock (.A i), .rlock (.A src)] ++ forEachOver src (List.replicate n (omSet i)) ++ [.runlock (.A src), .runlock (.A i)]

def threadDone (t : Th) : Prop := t.script = []

/-- Bool version of `Stuck` (the lock state is a function, so `Stuck` itself is not decidable by `decide`) -/
def stuckB (c : Cfg Locks Th) : Bool := c.2.all (fun t => (lockSys.step c.1 t).isEmpty)

/-! ## method-level protocol of the single-element operations

Contents `set : ASet`; per goroutine a program counter.  The critical sections are split into the
dictionary lookup and the write, so that the linearization argument really uses the mutual exclusion
provided by `M`. -/

inductive SOp
  | add (e : Nat)
  | del (e : Nat)
  | has (e : Nat)
  | clear
  | apply (adds dels : List Nat)
  | compute (adds dels : List Nat)   -- factory: added = adds, deleted = current ∩ dels
  | computeSaw (adds dels seen : List Nat)   -- the same, with the factory's own observation `seen` = current ∩ dels recorded
  | replace (els : List Nat)
  | addAll (els : List Nat)
  | delAll (els : List Nat)
deriving Repr, DecidableEq

inductive SRes
  | bool (b : Bool)
  | unit
  | set (l : List Nat)
  | mut (a d : List Nat)
deriving Repr, DecidableEq

/-- the sequential specification: the model of `Hive/Model/OMap.lean` -/
def specStep (s : ASet) : SOp → ASet × SRes
  | .add e => let r := sAdd s e; (r.1, .bool r.2)
  | .del e => let r := sDelete s e; (r.1, .bool r.2)
  | .has e => (s, .bool (AMap.has s e))
  | .clear => ([], .unit)
  | .apply a d => let r := apply s a d; (r.1, .mut (elems r.2.1) (elems r.2.2))
  | .compute a d =>
    let r := compute s (fun cur => (a, elems (filter (newSet cur) (fun e => d.contains e))))
    (r.1, .mut (elems r.2.1) (elems r.2.2))
  | .computeSaw a d seen =>
    -- `Compute` is one atomic step: the state its factory reads is the state its answer is applied to.  A recorded
    -- observation that is not the current ∩ dels of this state cannot be explained here (the result `.unit` never
    -- equals a recorded `.mut`).
    if elems (filter s (fun e => d.contains e)) = seen then
      let r := compute s (fun cur => (a, elems (filter (newSet cur) (fun e => d.contains e))))
      (r.1, .mut (elems r.2.1) (elems r.2.2))
    else (s, .unit)
  | .replace l => let r := replace s l; (r.1, .set (elems r.2))
  | .addAll l => let r := addAll s l; (r.1, .set (elems r.2))
  | .delAll l => let r := deleteAll s l; (r.1, .set (elems r.2))

/-- replay a log of (operation, result) pairs on the specification -/
def replay (s : ASet) : List (SOp × SRes) → Option ASet
  | [] => some s
  | (op, res) :: rest =>
    let r := specStep s op
    if r.2 = res then replay r.1 rest else none

inductive Pc
  | idle
  -- Add(e): OrderedMap.Set under M.Lock
  | addReq | addAcq | addLook | addWrite (present : Bool) | addUnlock
  -- Delete(e): Get under M.RLock, then the locked section
  | delRLock | delLook1 | delRUnlock (present : Bool) | delBranch (present : Bool)
  | delAcq | delLook2 | delWrite (present : Bool) | delUnlock
  -- Has(e)
  | hasRLock | hasLook | hasRUnlock
  -- Clear
  | clrReq | clrAcq | clrWrite | clrUnlock
deriving Repr, DecidableEq

structure OTh where
  pc : Pc
  e : Nat               -- the element of the call in progress
  todo : List SOp       -- remaining calls (only add/del/has/clear are executed; others are skipped)
  rets : List (SOp × SRes)   -- completed calls with the results returned to the caller, newest first
  res : Bool            -- the result determined at the linearization point of the call in progress
deriving Repr, DecidableEq

structure OSh where
  m : RW
  set : ASet
  log : List (SOp × SRes)   -- linearization log, oldest first
deriving Repr, DecidableEq

def OTh.start (ops : List SOp) : OTh := { pc := .idle, e := 0, todo := ops, rets := [], res := false }

def rlockM (s : OSh) : Option OSh :=
  if !s.m.writer && s.m.pending == 0 then some { s with m := { s.m with readers := s.m.readers + 1 } } else none
def runlockM (s : OSh) : OSh := { s with m := { s.m with readers := s.m.readers - 1 } }
def reqM (s : OSh) : OSh := { s with m := { s.m with pending := s.m.pending + 1 } }
def acqM (s : OSh) : Option OSh :=
  if s.m.readers == 0 && !s.m.writer then some { s with m := { s.m with writer := true, pending := s.m.pending - 1 } } else none
def unlockM (s : OSh) : OSh := { s with m := { s.m with writer := false } }

def opStep (s : OSh) (t : OTh) : List (OSh × OTh) :=
  match t.pc with
  | .idle =>
    match t.todo with
    | [] => []
    | .add e :: rest => [(s, { t with pc := .addReq, e := e, todo := rest })]
    | .del e :: rest => [(s, { t with pc := .delRLock, e := e, todo := rest })]
    | .has e :: rest => [(s, { t with pc := .hasRLock, e := e, todo := rest })]
    | .clear :: rest => [(s, { t with pc := .clrReq, todo := rest })]
    | _ :: rest => [(s, { t with todo := rest })]
  | .addReq => [(reqM s, { t with pc := .addAcq })]
  | .addAcq => match acqM s with | some s' => [(s', { t with pc := .addLook })] | none => []
  | .addLook => [(s, { t with pc := .addWrite (AMap.has s.set t.e) })]
  | .addWrite present =>
    -- linearization point: the write (append if the lookup found nothing)
    [({ s with set := if present then s.set else s.set ++ [(t.e, 0)],
               log := s.log ++ [(.add t.e, .bool (!present))] },
      { t with pc := .addUnlock, res := !present })]
  | .addUnlock => [(unlockM s, { t with pc := .idle, rets := (.add t.e, .bool t.res) :: t.rets })]
  | .delRLock => match rlockM s with | some s' => [(s', { t with pc := .delLook1 })] | none => []
  | .delLook1 =>
    let present := AMap.has s.set t.e
    -- linearization point of a Delete that finds nothing
    [({ s with log := if present then s.log else s.log ++ [(.del t.e, .bool false)] },
      { t with pc := .delRUnlock present, res := false })]
  | .delRUnlock present => [(runlockM s, { t with pc := .delBranch present })]
  | .delBranch present =>
    if present then [(reqM s, { t with pc := .delAcq })]
    else [(s, { t with pc := .idle, rets := (.del t.e, .bool false) :: t.rets })]
  | .delAcq => match acqM s with | some s' => [(s', { t with pc := .delLook2 })] | none => []
  | .delLook2 => [(s, { t with pc := .delWrite (AMap.has s.set t.e) })]
  | .delWrite present =>
    [({ s with set := if present then AMap.remove s.set t.e else s.set,
               log := s.log ++ [(.del t.e, .bool present)] },
      { t with pc := .delUnlock, res := present })]
  | .delUnlock => [(unlockM s, { t with pc := .idle, rets := (.del t.e, .bool t.res) :: t.rets })]
  | .hasRLock => match rlockM s with | some s' => [(s', { t with pc := .hasLook })] | none => []
  | .hasLook =>
    let r := AMap.has s.set t.e
    [({ s with log := s.log ++ [(.has t.e, .bool r)] }, { t with pc := .hasRUnlock, res := r })]
  | .hasRUnlock => [(runlockM s, { t with pc := .idle, rets := (.has t.e, .bool t.res) :: t.rets })]
  | .clrReq => [(reqM s, { t with pc := .clrAcq })]
  | .clrAcq => match acqM s with | some s' => [(s', { t with pc := .clrWrite })] | none => []
  | .clrWrite => [({ s with set := [], log := s.log ++ [(.clear, .unit)] }, { t with pc := .clrUnlock })]
  | .clrUnlock => [(unlockM s, { t with pc := .idle, rets := (.clear, .unit) :: t.rets })]

def opSys : Sys OSh OTh := { step := opStep }

/-! ## linearizability checker for recorded histories -/

/-- a completed call: `inv`/`ret` are the positions of its invocation and response in the global order -/
structure HCall where
  op : SOp
  res : SRes
  inv : Nat
  ret : Nat
deriving Repr, DecidableEq

/-- `c` may be linearized first among `cs`: no other remaining call returned before `c` was invoked -/
def minimalIn (c : HCall) (cs : List HCall) : Bool := cs.all (fun c' => !(c'.ret < c.inv))

/-- Wing–Gong search: pick a minimal call whose recorded result the specification reproduces, remove
it, continue.  `fuel` ≥ number of calls. -/
def linSearch : Nat → ASet → List HCall → Bool
  | _, _, [] => true
  | 0, _, _ :: _ => false
  | f + 1, s, cs =>
    (List.range cs.length).any (fun i =>
      match cs[i]? with
      | none => false
      | some c =>
        minimalIn c cs &&
          (let r := specStep s c.op
           decide (r.2 = c.res) && linSearch f r.1 (cs.eraseIdx i)))

def linearizable (init : ASet) (cs : List HCall) : Bool := linSearch cs.length init cs

/-! ### request lines of the concurrent part -/
open Hive.Proto

private def pl (s : String) : Option (List Nat) :=
  if s == "-" then some [] else (s.splitOn ",").mapM (·.toNat?)

private def pb (s : String) : Option Bool :=
  if s == "true" then some true else if s == "false" then some false else none

/-- `INV;RET;kind;args…;result…` -/
def parseHCall (tok : String) : Option HCall :=
  match tok.splitOn ";" with
  | [i, r, "add", e, b] => do some { op := .add (← e.toNat?), res := .bool (← pb b), inv := ← i.toNat?, ret := ← r.toNat? }
  | [i, r, "del", e, b] => do some { op := .del (← e.toNat?), res := .bool (← pb b), inv := ← i.toNat?, ret := ← r.toNat? }
  | [i, r, "has", e, b] => do some { op := .has (← e.toNat?), res := .bool (← pb b), inv := ← i.toNat?, ret := ← r.toNat? }
  | [i, r, "clear"] => do some { op := .clear, res := .unit, inv := ← i.toNat?, ret := ← r.toNat? }
  | [i, r, "apply", a, d, ra, rd] => do
    some { op := .apply (← pl a) (← pl d), res := .mut (← pl ra) (← pl rd), inv := ← i.toNat?, ret := ← r.toNat? }
  | [i, r, "compute", a, d, ra, rd] => do
    some { op := .compute (← pl a) (← pl d), res := .mut (← pl ra) (← pl rd), inv := ← i.toNat?, ret := ← r.toNat? }
  | [i, r, "computesaw", a, d, sn, ra, rd] => do
    some { op := .computeSaw (← pl a) (← pl d) (← pl sn), res := .mut (← pl ra) (← pl rd), inv := ← i.toNat?, ret := ← r.toNat? }
  | [i, r, "replace", l, rl] => do
    some { op := .replace (← pl l), res := .set (← pl rl), inv := ← i.toNat?, ret := ← r.toNat? }
  | [i, r, "addall", l, rl] => do
    some { op := .addAll (← pl l), res := .set (← pl rl), inv := ← i.toNat?, ret := ← r.toNat? }
  | [i, r, "delall", l, rl] => do
    some { op := .delAll (← pl l), res := .set (← pl rl), inv := ← i.toNat?, ret := ← r.toNat? }
  | _ => none

/-- `lin INIT FINAL call*`: accept iff the calls are linearizable from `NewSet(INIT)`.  (`FINAL`, the
contents at quiescence, is checked by appending a `Replace`-free observation: a final `has`-sweep is
part of the recorded calls, see the harness.) -/
def linLine (toks : List String) : String :=
  match toks with
  | init :: calls =>
    match pl init, calls.mapM parseHCall with
    | some init, some cs =>
      if cs.length > 24 then "reject too-long"
      else if linearizable (newSet init) cs then "accept" else "reject not-linearizable"
    | _, _ => "bad-op"
  | _ => "bad-op"

def nodupB : List Nat → Bool
  | [] => true
  | x :: r => !r.contains x && nodupB r

/-- `quiesce SIZE SLICE`: at quiescence the set is a duplicate-free list whose length is `Size()` -/
def quiesceLine (toks : List String) : String :=
  match toks with
  | [n, l] =>
    match n.toNat?, pl l with
    | some n, some l => if nodupB l && l.length == n then "accept" else "reject inconsistent"
    | _, _ => "bad-op"
  | _ => "bad-op"

/-! ### lock skeletons extracted from the Go source

The harness extracts, per method, the source-order sequence of lock calls and of calls made while
the locks are held.  The table below is the skeleton the scripts above were written against. -/

def skeletons : List (String × String) := [
  ("set.Add", "A.RLock defer:A.RUnlock call:Set"),
  ("set.AddAll", "A.RLock defer:A.RUnlock call:arg.ForEach cb{ call:Set }"),
  ("set.Delete", "A.RLock defer:A.RUnlock call:OrderedMap.Delete"),
  ("set.DeleteAll", "A.RLock defer:A.RUnlock call:arg.ForEach cb{ call:OrderedMap.Delete }"),
  ("set.Apply", "A.Lock defer:A.Unlock call:apply"),
  ("set.Compute", "A.Lock defer:A.Unlock cb call:apply"),
  ("set.Replace", "A.Lock defer:A.Unlock call:ToSlice call:arg.ToSlice call:Clear loop{ call:Set } loop{ call:Has }"),
  ("set.apply", "call:arg.Range cb{ call:Set } call:arg.Range cb{ call:OrderedMap.Delete }"),
  ("OrderedMap.Set", "M.Lock defer:M.Unlock"),
  ("OrderedMap.Delete", "call:Get M.Lock defer:M.Unlock"),
  ("OrderedMap.Get", "M.RLock defer:M.RUnlock"),
  ("OrderedMap.Has", "M.RLock defer:M.RUnlock"),
  ("OrderedMap.Size", "M.RLock defer:M.RUnlock"),
  ("OrderedMap.IsEmpty", "call:Size"),
  ("OrderedMap.Head", "M.RLock defer:M.RUnlock"),
  ("OrderedMap.Tail", "M.RLock defer:M.RUnlock"),
  ("OrderedMap.Clone", "M.RLock defer:M.RUnlock loop{ }"),
  ("OrderedMap.Clear", "M.Lock defer:M.Unlock"),
  ("OrderedMap.ForEach", "M.RLock M.RUnlock loop{ cb M.RLock M.RUnlock }"),
  ("OrderedMap.ForEachReverse", "M.RLock M.RUnlock loop{ cb M.RLock M.RUnlock }")
]

def lockScriptLine (toks : List String) : String :=
  match toks with
  | name :: rest =>
    match skeletons.lookup name with
    | some exp => if exp == " ".intercalate rest then "ok" else s!"changed expected: {exp}"
    | none => "unknown-method"
  | _ => "bad-op"

end Hive.OMap
