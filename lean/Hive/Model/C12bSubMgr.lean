import Hive.Model.C12bBase
/-!
# Model of `subscriptionmanager.SubscriptionManager` (web/subscriptionmanager/subscription_manager.go,
with the repaired subscription-limit path)

Data layout: `subscribers : client → (topic → count)`, `topics : topic → count`,
`maxTopicSubscriptionsPerClient` (`limit`, 0 = off).  The shrinking thresholds of the underlying
ShrinkingMaps are unobservable (part A of C12) and are not modelled.  Events are triggered after the
lock has been released, in the order written in the code; the order *inside* a batch produced by
iterating a Go map (removed topics, unsubscribed topics) is undefined and is canonicalised (sorted)
on both sides of the tie before comparison.

```
cleanup(c):   if c unknown {false}; for (t,n) in subs[c] { if topics has t { if topics[t]-n <= 0 {delete; removed+=t}
              else topics[t]-=n }; unsub += n×t; delete subs[c][t] }; delete subs[c]; true
Connect(c):   was,rem,uns := cleanup(c); subs[c] = {}; if was {TR*, U*, -c}; +c
Disconnect(c):was,rem,uns := cleanup(c); if was {TR*, U*, -c; true} else false
Subscribe(c,t): c unknown → false.
              t already in subs[c] → subs[c][t]++
              else if limit != 0 && len(subs[c])+1 >= limit → cleanup(c); TR*, U*, DROP c, -c; false      (repaired:
                   the unrepaired code first stored subs[c][t] = 1 and cleaned that up too, decrementing topics[t]
                   which it had not incremented)
              else subs[c][t] = 1
              topics[t]++ (TA if new); S(c,t); true
Unsubscribe(c,t): c unknown or t not in subs[c] → false; subs[c][t]-- (delete at <=1);
              if topics has t { topics[t]-- (delete at <=1 → TR) }; U(c,t); true
```
-/
namespace Hive.C12b.SM

inductive Event
  | connected (c : Nat)
  | disconnected (c : Nat)
  | subscribed (c t : Nat)
  | unsubscribed (c t : Nat)
  | topicAdded (t : Nat)
  | topicRemoved (t : Nat)
  | drop (c : Nat)
deriving Repr, DecidableEq

structure St where
  limit : Int   -- `maxTopicSubscriptionsPerClient` is an `int`: a negative limit is "reached" by every new topic
  subs : AMap (AMap Nat)
  topics : AMap Nat
deriving Repr

def init (limit : Int) : St := { limit := limit, subs := [], topics := [] }

inductive Op
  | connect (c : Nat)
  | disconnect (c : Nat)
  | subscribe (c t : Nat)
  | unsubscribe (c t : Nat)
  | hasTopic (t : Nat)
  | clientSub (c t : Nat)
  | sizes
deriving Repr, DecidableEq

structure Out where
  ret : Option Bool := none
  sizes : Option (Nat × Nat × Nat) := none
  events : List Event := []
deriving Repr, DecidableEq

/-- Result of the loop of `cleanupClientWithoutLocking` over the client's topic map. -/
structure Clean where
  topics : AMap Nat
  removed : List Nat
  unsub : List Nat
deriving Repr

def cleanLoop : AMap Nat → AMap Nat → Clean
  | [], tp => { topics := tp, removed := [], unsub := [] }
  | (t, n) :: rest, tp =>
    match tp.get t with
    | some tc =>
      if tc ≤ n then
        let r := cleanLoop rest (tp.del t)
        { r with removed := t :: r.removed, unsub := List.replicate n t ++ r.unsub }
      else
        let r := cleanLoop rest (tp.set t (tc - n))
        { r with unsub := List.replicate n t ++ r.unsub }
    | none =>
      let r := cleanLoop rest tp
      { r with unsub := List.replicate n t ++ r.unsub }

/-- `cleanupClientWithoutLocking`: new state, wasConnected, and the events of the clean-up
(`TR*` then `U*`). -/
def cleanup (s : St) (c : Nat) : St × Bool × List Event :=
  match s.subs.get c with
  | none => (s, false, [])
  | some m =>
    let r := cleanLoop m s.topics
    ({ s with topics := r.topics, subs := s.subs.del c }, true,
      r.removed.map .topicRemoved ++ r.unsub.map (.unsubscribed c))

def bumpTopic (s : St) (t : Nat) : St × List Event :=
  match s.topics.get t with
  | some n => ({ s with topics := s.topics.set t (n + 1) }, [])
  | none => ({ s with topics := s.topics.set t 1 }, [.topicAdded t])

def step (s : St) : Op → St × Out
  | .connect c =>
    let r := cleanup s c
    let s' := { r.1 with subs := r.1.subs.set c [] }
    (s', { events := (if r.2.1 then r.2.2 ++ [.disconnected c] else []) ++ [.connected c] })
  | .disconnect c =>
    let r := cleanup s c
    if r.2.1 then (r.1, { ret := some true, events := r.2.2 ++ [.disconnected c] })
    else (s, { ret := some false })
  | .subscribe c t =>
    match s.subs.get c with
    | none => (s, { ret := some false })
    | some m =>
      match m.get t with
      | some n =>
        let r := bumpTopic { s with subs := s.subs.set c (m.set t (n + 1)) } t
        (r.1, { ret := some true, events := r.2 ++ [.subscribed c t] })
      | none =>
        if s.limit ≠ 0 ∧ s.limit ≤ (m.length : Int) + 1 then
          let r := cleanup s c
          (r.1, { ret := some false, events := r.2.2 ++ [.drop c, .disconnected c] })
        else
          let r := bumpTopic { s with subs := s.subs.set c (m.set t 1) } t
          (r.1, { ret := some true, events := r.2 ++ [.subscribed c t] })
  | .unsubscribe c t =>
    match s.subs.get c with
    | none => (s, { ret := some false })
    | some m =>
      match m.get t with
      | none => (s, { ret := some false })
      | some n =>
        let m' := if n ≤ 1 then m.del t else m.set t (n - 1)
        let s1 := { s with subs := s.subs.set c m' }
        match s.topics.get t with
        | none => (s1, { ret := some true, events := [.unsubscribed c t] })
        | some tc =>
          if tc ≤ 1 then
            ({ s1 with topics := s.topics.del t }, { ret := some true, events := [.topicRemoved t, .unsubscribed c t] })
          else
            ({ s1 with topics := s.topics.set t (tc - 1) }, { ret := some true, events := [.unsubscribed c t] })
  | .hasTopic t => (s, { ret := some (s.topics.has t) })
  | .clientSub c t =>
    match s.subs.get c with
    | none => (s, { ret := some false })
    | some m => (s, { ret := some (m.has t) })
  | .sizes => (s, { sizes := some (s.subs.length, s.topics.length, (s.subs.map (·.2.length)).sum) })

def run (s : St) : List Op → St × List Out
  | [] => (s, [])
  | op :: ops =>
    let r := step s op
    let rs := run r.1 ops
    (rs.1, r.2 :: rs.2)

def final (s : St) (ops : List Op) : St := ops.foldl (fun s op => (step s op).1) s

/-- All events of a history, in emission order. -/
def allEvents (s : St) (ops : List Op) : List Event := ((run s ops).2.map (·.events)).flatten

/-- The unrepaired limit path of `Subscribe`: the new topic is stored in the client's map first
and is then cleaned up with the rest. -/
def subscribeOld (s : St) (c t : Nat) : St × Out :=
  match s.subs.get c with
  | none => (s, { ret := some false })
  | some m =>
    match m.get t with
    | some n =>
      let r := bumpTopic { s with subs := s.subs.set c (m.set t (n + 1)) } t
      (r.1, { ret := some true, events := r.2 ++ [.subscribed c t] })
    | none =>
      let s1 := { s with subs := s.subs.set c (m.set t 1) }
      if s.limit ≠ 0 ∧ s.limit ≤ ((m.set t 1).length : Int) then
        let r := cleanup s1 c
        (r.1, { ret := some false, events := r.2.2 ++ [.drop c, .disconnected c] })
      else
        let r := bumpTopic s1 t
        (r.1, { ret := some true, events := r.2 ++ [.subscribed c t] })

/-! ## what a listener reconstructs from the events -/

structure Rep where
  conn : Nat → Bool
  sub : Nat → Nat → Nat
  topic : Nat → Bool

def Rep.empty : Rep := { conn := fun _ => false, sub := fun _ _ => 0, topic := fun _ => false }

def applyEvent (r : Rep) : Event → Rep
  | .connected c => { r with conn := fun x => if x = c then true else r.conn x }
  | .disconnected c => { r with conn := fun x => if x = c then false else r.conn x }
  | .subscribed c t => { r with sub := fun x y => if x = c ∧ y = t then r.sub x y + 1 else r.sub x y }
  | .unsubscribed c t => { r with sub := fun x y => if x = c ∧ y = t then r.sub x y - 1 else r.sub x y }
  | .topicAdded t => { r with topic := fun y => if y = t then true else r.topic y }
  | .topicRemoved t => { r with topic := fun y => if y = t then false else r.topic y }
  | .drop _ => r

def replay (r : Rep) (evs : List Event) : Rep := evs.foldl applyEvent r

/-- Number of subscriptions client `c` holds on topic `t`. -/
def cnt (s : St) (c t : Nat) : Nat :=
  match s.subs.get c with
  | some m => (m.get t).getD 0
  | none => 0

def topicCount (s : St) (t : Nat) : Nat := (s.topics.get t).getD 0

/-- `Σ_c subs[c][t]` over the clients present in the subscribers map. -/
def sumOver (subs : AMap (AMap Nat)) (t : Nat) : Nat := (subs.map (fun p => (p.2.get t).getD 0)).sum

/-! ## line protocol -/
open Hive.Proto

def showEvent : Event → String
  | .connected c => s!"+c{c}"
  | .disconnected c => s!"-c{c}"
  | .subscribed c t => s!"S({c},{t})"
  | .unsubscribed c t => s!"U({c},{t})"
  | .topicAdded t => s!"TA({t})"
  | .topicRemoved t => s!"TR({t})"
  | .drop c => s!"DROP({c})"

def kindOf : Event → Nat
  | .connected _ => 0
  | .disconnected _ => 1
  | .subscribed _ _ => 2
  | .unsubscribed _ _ => 3
  | .topicAdded _ => 4
  | .topicRemoved _ => 5
  | .drop _ => 6

def topicOf : Event → Nat
  | .subscribed _ t => t
  | .unsubscribed _ t => t
  | .topicAdded t => t
  | .topicRemoved t => t
  | _ => 0

/-- Sort every maximal run of same-kind events by topic (Go map iteration order is undefined). -/
def canonRuns : List Event → List Event → List Event
  | [], cur => sortBy topicOf cur
  | e :: es, [] => canonRuns es [e]
  | e :: es, c :: cur =>
    if kindOf e = kindOf c then canonRuns es (c :: cur ++ [e])
    else sortBy topicOf (c :: cur) ++ canonRuns es [e]

def showOut (o : Out) : String :=
  let parts :=
    (match o.ret with | some b => [showBool b] | none => []) ++
    (match o.sizes with | some (a, b, c) => [s!"{a} {b} {c}"] | none => []) ++
    (if o.events.isEmpty then [] else ["|"] ++ (canonRuns o.events []).map showEvent)
  if parts.isEmpty then "ok" else " ".intercalate parts

def parseOp : List String → Option Op
  | ["connect", c] => c.toNat?.map .connect
  | ["disconnect", c] => c.toNat?.map .disconnect
  | ["sub", c, t] => do some (.subscribe (← c.toNat?) (← t.toNat?))
  | ["unsub", c, t] => do some (.unsubscribe (← c.toNat?) (← t.toNat?))
  | ["has", t] => t.toNat?.map .hasTopic
  | ["csub", c, t] => do some (.clientSub (← c.toNat?) (← t.toNat?))
  | ["sizes"] => some .sizes
  | _ => none

def stepLine (s : St) (toks : List String) : St × String :=
  match toks with
  | "new" :: l :: _ => match l.toInt? with
    | some l => (init l, "ok")
    | none => (s, "bad-op")
  | ["state"] =>
    let subs := (sortBy (·.1) s.subs).map (fun p => s!"{p.1}:{showKVs p.2}")
    (s, s!"limit={s.limit} subs=[{" ".intercalate subs}] topics={showKVs s.topics}")
  | _ => match parseOp toks with
    | some op => let r := step s op; (r.1, showOut r.2)
    | none => (s, "bad-op")

end Hive.C12b.SM
