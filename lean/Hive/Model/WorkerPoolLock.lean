/-!
# Lock scripts of `runtime/workerpool` derived from the regenerated skeletons (C16)

The synchronisation skeletons of `Hive/Gen/C16_Skel.lean` (one token list per function, regenerated from the working
tree on every run) are turned into *lock scripts*: the token list of a goroutine's entry function with the bodies of
the functions it calls inlined (receiver expressions renamed, so that `b.mutex` inside `Stack.Push` called as
`w.Queue.Push` becomes `w.Queue.mutex`), and scanned with the set of locks the goroutine holds.  The scan reports

* **re-entry**: a `Lock`/`RLock` of a mutex the goroutine already holds (Go's `RWMutex` forbids recursive read
  locking: a writer that queues between the two read locks blocks the second one for ever — seeded change r6-1);
* **waits under a lock**: a `Cond.Wait` / `WaitGroup.Wait` while a mutex other than the condition's own is held
  (`Start` waiting for the previous shutdown under the pool lock: b9bfa1a / 1119368);
* the **lock-order edges** `held → acquired` (an edge `w.mutex → w.Queue.mutex` next to the dispatcher's
  `w.Queue.mutex → w.mutex` is the ABBA deadlock repaired by a0dbad3).

Everything here is core Lean on `List Char` with fuel-bounded structural recursion, so that the obligations in
`Hive/Props/C16Lock.lean` are closed by kernel evaluation (`decide`).

What is hand-written (and therefore trusted): the receiver variable and type of each function (`Fn.recv`, `Fn.ty`), the
types of two local variables (`element`, `task` : `Task`), the binding of `Task.doneCallback` to
`WorkerPool.decreasePendingTasks` (`newTask(workerFunc, w.decreasePendingTasks, …)` in `Submit`), and the fact that
`Stack.PopOrWait` evaluates its argument — `w.hasWork` when called by the dispatcher — inside its loop while holding the
stack mutex.  Field types come from the regenerated type facts.  The scan is path-insensitive (every token of a
function is taken to be executed in source order); a mutex taken with the `lock; defer unlock` idiom is held until the
function returns on every path, including panics.
-/
namespace Hive.WPL

abbrev Str := List Char

def s (x : String) : Str := x.toList

/-- `pre` is a prefix of `xs`: the rest. -/
def dropPrefix : Str → Str → Option Str
  | [], xs => some xs
  | _ :: _, [] => none
  | p :: ps, x :: xs => if p = x then dropPrefix ps xs else none

/-- Split at the last `.`: `w.Queue.Push` ↦ (`w.Queue`, `Push`). -/
def splitLastDot (xs : Str) : Option (Str × Str) :=
  let r := xs.reverse
  let m := r.takeWhile (· ≠ '.')
  match r.dropWhile (· ≠ '.') with
  | [] => none
  | _ :: rest => some (rest.reverse, m.reverse)

/-- Split at the first `.`: `w.Queue.mutex` ↦ (`w`, `Queue.mutex`); no dot: (`w`, ``). -/
def splitFirstDot (xs : Str) : Str × Str :=
  (xs.takeWhile (· ≠ '.'), (xs.dropWhile (· ≠ '.')).drop 1)

def isInfix : Str → Str → Bool
  | p, [] => p.isEmpty
  | p, x :: xs => (dropPrefix p (x :: xs)).isSome || isInfix p xs

inductive Tok
  | acq (m : Str)            -- lock / rlock
  | rel (m : Str)            -- unlock / runlock
  | deferRel (m : Str)       -- defer unlock / defer runlock
  | call (recv meth : Str)   -- "call X.M"
  | helper (name : Str)      -- call of another requested function on the same receiver
  | go
  | chan (op : Str)          -- a channel operation that can block: "send C" / "recv C" (also as a select case)
  | other
deriving DecidableEq, Repr

def parseTok (t : Str) : Tok :=
  match dropPrefix (s "lock ") t with
  | some m => .acq m
  | none =>
  match dropPrefix (s "rlock ") t with
  | some m => .acq m
  | none =>
  match dropPrefix (s "unlock ") t with
  | some m => .rel m
  | none =>
  match dropPrefix (s "runlock ") t with
  | some m => .rel m
  | none =>
  match dropPrefix (s "defer unlock ") t with
  | some m => .deferRel m
  | none =>
  match dropPrefix (s "defer runlock ") t with
  | some m => .deferRel m
  | none =>
  match dropPrefix (s "call ") t with
  | some x => (match splitLastDot x with
    | some (r, m) => .call r m
    | none => .other)
  | none =>
  match dropPrefix (s "helper ") t with
  | some n => .helper n
  | none =>
  match dropPrefix (s "case ") t with
  | some op => if (dropPrefix (s "send ") op).isSome || (dropPrefix (s "recv ") op).isSome then .chan op else .other
  | none =>
    if (dropPrefix (s "send ") t).isSome || (dropPrefix (s "recv ") t).isSome then .chan t
    else if t = s "go" then .go else .other

/-- A function of the table: its type, name, receiver variable and regenerated skeleton. -/
structure Fn where
  ty : Str
  name : Str
  recv : Str
  body : List Str

/-- Type facts: type name ↦ regenerated field list (`"name type"` tokens). -/
abbrev TypeFacts := List (Str × List Str)

/-- The known type named in a field's declared type (`*syncutils.Stack[*Task]` ↦ `Stack`). -/
def classify (known : List Str) (decl : Str) : Option Str := known.find? (fun k => isInfix k decl)

def fieldType (tf : TypeFacts) (known : List Str) (ty field : Str) : Option Str :=
  match tf.find? (fun e => e.1 = ty) with
  | none => none
  | some e =>
    match e.2.filterMap (fun tok => dropPrefix (field ++ [' ']) tok) with
    | decl :: _ => classify known decl
    | [] => none

/-- Type of a receiver path `v.f1.f2…` where `v : ty0`. -/
def pathType (tf : TypeFacts) (known : List Str) : Nat → Str → Str → Option Str
  | 0, _, _ => none
  | fuel + 1, ty0, fields =>
    if fields.isEmpty then some ty0
    else
      let (f, rest) := splitFirstDot fields
      match fieldType tf known ty0 f with
      | some t => pathType tf known fuel t rest
      | none => none

structure Env where
  fns : List Fn
  tf : TypeFacts
  known : List Str
  /-- local variables of known type -/
  locals : List (Str × Str)
  /-- function-valued fields: (type, field) ↦ (type, method, absolute receiver) it is bound to -/
  bound : List ((Str × Str) × (Str × Str × Str))
  /-- callbacks: while expanding (type, method), after the token `after`, the function (type, method, receiver) runs -/
  callbacks : List ((Str × Str) × (Str × (Str × Str × Str)))

def Env.find (e : Env) (ty name : Str) : Option Fn := e.fns.find? (fun f => f.ty = ty ∧ f.name = name)

/-- Replace the leading variable `v` of a path by `abs`. -/
def rebase (v abs x : Str) : Str :=
  let (h, rest) := splitFirstDot x
  if h = v then (if rest.isEmpty then abs else abs ++ ['.'] ++ rest) else x

/-- Expanded token. -/
inductive ETok
  | acq (m : Str) | rel (m : Str) | deferRel (m : Str)
  | enter (f : Str) | exit
  | wait (x : Str)          -- Cond.Wait / WaitGroup.Wait on x
  | chan (op : Str)         -- blocking channel operation ("send w.shutdownSignal")
  | unresolved (x : Str)    -- a call the table cannot resolve (reported, not an error: user code, primitives)
deriving DecidableEq, Repr

/-- Methods of Go primitives and containers that take no lock of the table (atomic, WaitGroup.Add/Done, Cond.Broadcast,
ordered map accessors …). -/
def primitiveMeths : List Str :=
  [s "Broadcast", s "Signal", s "Add", s "Done", s "Load", s "Store", s "Swap", s "Set", s "Delete", s "CompareAndSwap"]

/-- One token of `f` (receiver `abs`), callees inlined through `rec` (the expansion with less fuel). -/
def expandTok (e : Env) (rec : Fn → Str → List ETok) (f : Fn) (abs : Str) (t : Str) (afterGo : Bool) : List ETok :=
  let cb : List ETok :=
    match e.callbacks.find? (fun c => c.1 = (f.ty, f.name) ∧ c.2.1 = t) with
    | some c =>
      (match e.find c.2.2.1 c.2.2.2.1 with
       | some g => rec g c.2.2.2.2
       | none => [.unresolved c.2.2.2.1])
    | none => []
  let here : List ETok :=
    match parseTok t with
    | .acq m => [.acq (rebase f.recv abs m)]
    | .rel m => [.rel (rebase f.recv abs m)]
    | .deferRel m => [.deferRel (rebase f.recv abs m)]
    | .helper n =>
      if afterGo then []   -- `go f()`: a new goroutine, which holds nothing
      else (match e.find f.ty n with
        | some g => rec g abs
        | none => [.unresolved n])
    | .call r m =>
      if afterGo then []
      else if m = s "Wait" then [.wait (rebase f.recv abs r)]
      else if primitiveMeths.contains m then []
      else
        let (v, fields) := splitFirstDot r
        let ty0 : Option Str := if v = f.recv then some f.ty else (e.locals.find? (fun l => l.1 = v)).map (·.2)
        match ty0 with
        | none => [.unresolved (rebase f.recv abs r ++ ['.'] ++ m)]
        | some t0 =>
          match e.bound.find? (fun b => b.1 = (t0, if fields.isEmpty then m else fields ++ ['.'] ++ m)) with
          | some b =>
            (match e.find b.2.1 b.2.2.1 with
             | some g => rec g b.2.2.2
             | none => [.unresolved m])
          | none =>
            match pathType e.tf e.known 6 t0 fields with
            | none => [.unresolved (rebase f.recv abs r ++ ['.'] ++ m)]
            | some ty =>
              match e.find ty m with
              | some g => rec g (rebase f.recv abs r)
              | none => [.unresolved (rebase f.recv abs r ++ ['.'] ++ m)]
    | .go => []
    | .chan op =>
      let (k, c) := (op.takeWhile (· ≠ ' '), (op.dropWhile (· ≠ ' ')).drop 1)
      [.chan (k ++ [' '] ++ rebase f.recv abs c)]
    | .other => []
  here ++ cb

/-- Each token with the flag "the previous token is `go`". -/
def withGoFlag : List Str → Bool → List (Str × Bool)
  | [], _ => []
  | t :: ts, g => (t, g) :: withGoFlag ts (parseTok t = .go)

/-- The body of `f` (receiver `abs`) as expanded tokens, callees inlined (`fuel` = inlining depth). -/
def expandFn (e : Env) : Nat → Fn → Str → List ETok
  | 0, f, _ => [.unresolved (s "fuel:" ++ f.name)]
  | fuel + 1, f, abs =>
    .enter (f.ty ++ ['.'] ++ f.name) ::
      (withGoFlag f.body false).flatMap (fun tg => expandTok e (expandFn e fuel) f abs tg.1 tg.2) ++ [.exit]

/-- Scanner state: held locks (most recent first), the deferred unlocks of the open frames, and the findings. -/
structure Scan where
  held : List Str := []
  frames : List (List Str) := []
  reentry : List (Str × List Str) := []     -- (mutex, held set) at a re-entrant acquisition
  waits : List (Str × List Str) := []       -- (waited object, offending held locks)
  edges : List (Str × Str) := []            -- held → acquired
  unresolved : List Str := []
  unbalanced : List Str := []               -- unlock of a lock that is not held
  chanUnderLock : List (Str × List Str) := []  -- blocking channel operations made while a lock is held
  userUnderLock : List (Str × List Str) := []  -- calls the table cannot resolve (user code: subscriber callbacks, …) made under a lock
deriving Repr

def addNew {α} [DecidableEq α] (xs : List α) (x : α) : List α := if xs.contains x then xs else xs ++ [x]

/-- The mutex that a condition variable releases while waiting (`X.elementAdded` ↦ `X.mutex`, …). -/
def condMutex (conds : List (Str × Str)) (x : Str) : Option Str :=
  match splitLastDot x with
  | none => none
  | some (obj, c) => (conds.find? (fun p => p.1 = c)).map (fun p => obj ++ ['.'] ++ p.2)

def scanStep (conds : List (Str × Str)) (st : Scan) : ETok → Scan
  | .acq m =>
    { st with
      reentry := if st.held.contains m then st.reentry ++ [(m, st.held)] else st.reentry,
      edges := st.held.foldl (fun es h => if h = m then es else addNew es (h, m)) st.edges,
      held := m :: st.held }
  | .rel m =>
    if st.held.contains m then { st with held := st.held.erase m }
    else { st with unbalanced := st.unbalanced ++ [m] }
  | .deferRel m =>
    match st.frames with
    | fr :: rest => { st with frames := (m :: fr) :: rest }
    | [] => { st with unbalanced := st.unbalanced ++ [m] }
  | .enter _ => { st with frames := [] :: st.frames }
  | .exit =>
    match st.frames with
    | fr :: rest => { st with frames := rest, held := fr.foldl (fun h m => h.erase m) st.held }
    | [] => st
  | .wait x =>
    let own := condMutex conds x
    let bad := st.held.filter (fun h => some h ≠ own)
    if bad.isEmpty then st else { st with waits := st.waits ++ [(x, bad)] }
  | .chan op => if st.held.isEmpty then st else { st with chanUnderLock := addNew st.chanUnderLock (op, st.held) }
  | .unresolved x =>
    { st with unresolved := addNew st.unresolved x,
              userUnderLock := if st.held.isEmpty then st.userUnderLock else addNew st.userUnderLock (x, st.held) }

def scan (conds : List (Str × Str)) (toks : List ETok) : Scan := toks.foldl (scanStep conds) {}

/-- Locks held after a prefix of an expanded script (the semantic notion the scan is sound for). -/
def heldAfter (conds : List (Str × Str)) (toks : List ETok) : List Str := (scan conds toks).held

/-- `lock m` / `rlock m` on the pool's own mutex is immediately followed by its deferred unlock. -/
def deferDiscipline (mutex : Str) : List Str → Bool
  | [] => true
  | t :: ts =>
    (match parseTok t with
     | .acq m => if m = mutex then
         (match ts with
          | u :: _ => parseTok u = .deferRel mutex
          | [] => false) else true
     | .rel m => m ≠ mutex   -- no explicit unlock of the pool lock anywhere
     | _ => true) && deferDiscipline mutex ts

/-- Acyclicity through a rank: every edge goes from a lower to a strictly higher rank. -/
def rankOf (ranks : List (Str × Nat)) (m : Str) : Option Nat := (ranks.find? (fun r => r.1 = m)).map (·.2)

def edgesRanked (ranks : List (Str × Nat)) (edges : List (Str × Str)) : Bool :=
  edges.all (fun ed =>
    match rankOf ranks ed.1, rankOf ranks ed.2 with
    | some a, some b => a < b
    | _, _ => false)

def render (x : Str) : String := String.ofList x

end Hive.WPL
