import Hive.Spec.WorkerPool
import Hive.Conc.Sys
/-!
# FROZEN protocol model of `runtime/workerpool.WorkerPool` AS IT WAS BEFORE THE REPAIRS a0dbad3 / 9b2668a / 1119368

Kept only for the `C16_old_*_witness` theorems (`Hive/Props/C16Old.lean`): the schedules on which the old
code lost a task, lost the shutdown signal, or deadlocked in `Start`.  The current code is modelled in
`Hive/Model/WorkerPool.lean`.  Original header:

# Protocol model of `runtime/workerpool.WorkerPool` (workerpool.go, task.go) for C16

Shared state = the pool (life-cycle flag under its RWMutex, pending counter, queue with its mutex and
`elementAdded` condition, dispatch channel, shutdown-signal channel) **and the pool's own goroutines**
(dispatcher, workers); a `runner` thread of the interleaving kit moves any of them, so goroutines
spawned by `Start` need no thread of their own.  Client threads carry an arbitrary script of
`Submit` / `Shutdown` / `Start` / `ShutdownComplete.Wait` / `PendingTasksCounter.WaitIsZero` calls.
Tasks submit further tasks (`Body` is a tree).

Every task has a record holding *its* program counter (`Phase`): whoever drives a task (its submitter,
the dispatcher, the worker that received it) advances that phase in program order, and a step whose
task is not in the expected phase is disabled.

Atomicity choices (each justified by a lock that is held in the code):
* `IsRunning()` = RLock, read, RUnlock: one step, enabled iff no writer holds the pool mutex;
* `Counter.Update` (value change, subscriber callbacks, broadcast) and `Counter.WaitIsZero`
  (check-and-wait under the value mutex): one step / a guard `pending = 0`;
* `Stack.Push` (lock, append, unlock, broadcast): one step, enabled iff the stack mutex is free;
  `PopOrWait` is split exactly where the code can be interleaved: lock+look, the condition callback
  (which needs the pool read lock) *while holding the stack mutex*, the gap before `Wait`, the wait;
* `Stack.SignalShutdown` broadcasts **without** the stack mutex (as in the code);
* `Start`'s critical section `isRunning = true; make chan; go dispatcher; workerCount × (Add; go worker)`
  is one step (the pool write lock is held, the new goroutines can only be observed through
  `ShutdownComplete`, whose waiters either passed before or block after).
The queue and the dispatch channel are kept as *sets* (phases `queued`, `inchan`): the order in which
tasks are popped/received is not part of the property, so any order is allowed.
-/
namespace Hive.WPOld
open Hive.Conc
open Hive.WP

structure Params where
  W : Nat                   -- workerCount
  cancel : Bool             -- optCancelPendingTasksOnShutdown
  oldStart : Bool := false  -- `true`: `Start` as it was before the fix (no wait outside the lock)

/-- A task's body: the tasks it submits (to the same pool) while it runs. -/
inductive Body
  | node : List Body → Body

def Body.kids : Body → List Body
  | .node cs => cs

inductive Phase
  | fresh       -- Submit called, running-check not yet made
  | window      -- check said "running"; counter not yet increased   [verif hook sits here]
  | counted     -- counter increased, not yet pushed
  | queued      -- in the queue
  | popped      -- taken by the dispatcher, not yet sent
  | inchan      -- in the dispatch channel
  | running     -- worker function entered
  | ran         -- worker function returned, markDone not yet executed
  | done        -- markDone executed after a run
  | cancelling  -- received by a draining worker with cancel-on-shutdown, markDone not yet executed
  | cancelled   -- markDone executed without a run
  | rejected    -- check said "not running"
deriving DecidableEq, Repr

/-- Phases in which the task is counted in the pending counter. -/
def Phase.pending : Phase → Bool
  | .counted | .queued | .popped | .inchan | .running | .ran | .cancelling => true
  | _ => false

structure Task where
  phase : Phase
  returned : Bool       -- its Submit call has returned (or panicked) to the caller
  kids : List Body

inductive DPc
  | none | loop | size | pop | cond | gap | waiting | send (t : Nat) | waitZero | close
deriving DecidableEq, Repr

inductive WPc
  | sel                 -- workerReadLoop: non-blocking look at the shutdown signal
  | sel2                -- workerReadLoop: blocking select (signal | task | closed)
  | drain               -- handleShutdown: receive until closed
  | run (t : Nat) (todo : List Body) (sub : Option Nat) (dr : Bool)
  | mark (t : Nat) (dr : Bool)
  | exited              -- deferred ShutdownComplete.Done executed

def WPc.isExited : WPc → Bool
  | .exited => true
  | _ => false

structure St where
  running : Bool := false
  writer : Bool := false      -- pool mutex write-held
  pending : Nat := 0          -- PendingTasksCounter
  stackHeld : Bool := false   -- Queue.mutex held (only the dispatcher keeps it across steps)
  dwait : Bool := false       -- dispatcher registered on Queue.elementAdded and not yet woken
  sig : Nat := 0              -- buffered shutdown signals
  closed : Bool := false      -- dispatcherChan closed
  tasks : List Task := []
  disp : DPc := .none
  workers : List WPc := []
  -- ghosts
  inWindow : Nat := 0         -- Submit calls between a positive check and their push
  raced : Bool := false       -- a Shutdown switched the pool off while a Submit was in that window
  lost : Bool := false        -- SignalShutdown broadcast while the dispatcher was in the PopOrWait gap
  broken : Bool := false      -- Start spawned although an old dispatcher / channel content existed
  starts : Nat := 0
  sdcalls : Nat := 0
  sent : Nat := 0             -- shutdown signals sent by the current generation's Shutdown
  bcastPending : Bool := false  -- a Shutdown switched the pool off and has not yet broadcast `elementAdded`
  startRace : Bool := false   -- a Start took the lock of a stopped pool whose previous shutdown was not complete
  log : List Ev := []
  mon : Option Mon := some Mon.init

def St.init : St := {}

def emit (p : Params) (e : Ev) (s : St) : St :=
  { s with log := s.log ++ [e], mon := s.mon.bind (fun m => monStep p.cancel m e) }

def phaseOf (s : St) (t : Nat) : Option Phase := (s.tasks[t]?).map (·.phase)

def setPhase (s : St) (t : Nat) (ph : Phase) : St :=
  match s.tasks[t]? with
  | some x => { s with tasks := s.tasks.set t { x with phase := ph } }
  | none => s

def setReturned (s : St) (t : Nat) : St :=
  match s.tasks[t]? with
  | some x => { s with tasks := s.tasks.set t { x with returned := true } }
  | none => s

def kidsOf (s : St) (t : Nat) : List Body :=
  match s.tasks[t]? with
  | some x => x.kids
  | none => []

/-- Indices of the tasks in a given phase. -/
def idsIn (ph : Phase) : List Task → Nat → List Nat
  | [], _ => []
  | x :: xs, i => if x.phase = ph then i :: idsIn ph xs (i + 1) else idsIn ph xs (i + 1)

def queuedIds (s : St) : List Nat := idsIn .queued s.tasks 0
def chanIds (s : St) : List Nat := idsIn .inchan s.tasks 0

/-- `ShutdownComplete`'s counter: workers that have not executed their deferred `Done`. -/
def wg (s : St) : Nat := s.workers.countP (fun w => !w.isExited)

/-- `Submit` is called: the task gets its id. -/
def newTask (p : Params) (s : St) (kids : List Body) : St × Nat :=
  (emit p (.call s.tasks.length) { s with tasks := s.tasks ++ [{ phase := .fresh, returned := false, kids := kids }] },
   s.tasks.length)

/-- One step of `Submit` for task `t`; the flag says that the call has returned. -/
def submitStep (p : Params) (s : St) (t : Nat) : List (St × Bool) :=
  match s.tasks[t]? with
  | none => []
  | some x =>
    if x.returned then [] else
    match x.phase with
    | .fresh =>
      if s.writer then []
      else if s.running then [({ setPhase s t .window with inWindow := s.inWindow + 1 }, false)]
      else [(setPhase s t .rejected, false)]
    | .rejected => [(emit p (.rej t) (setReturned s t), true)]
    | .window => [(emit p (.up (s.pending + 1)) { setPhase s t .counted with pending := s.pending + 1 }, false)]
    | .counted =>
      if s.stackHeld then []
      else [({ setPhase s t .queued with dwait := false, inWindow := s.inWindow - 1 }, false)]
    | _ => [(emit p (.acc t) (setReturned s t), true)]

/-- `PopOrWait` with the stack mutex in hand: pop some queued task, or go on to the condition callback. -/
def popOrCond (s : St) : List St :=
  if queuedIds s = [] then [{ s with stackHeld := true, disp := .cond }]
  else (queuedIds s).map (fun t => { setPhase s t .popped with stackHeld := false, disp := .send t })

def dispStep (p : Params) (s : St) : List St :=
  match s.disp with
  | .none => []
  | .loop => if s.writer then [] else [{ s with disp := if s.running then .pop else .size }]
  | .size => if s.stackHeld then [] else [{ s with disp := if queuedIds s = [] then .waitZero else .pop }]
  | .pop => if s.stackHeld then [] else popOrCond s
  | .cond =>
    if s.writer then []
    else if s.running then [{ s with disp := .gap }]
    else [{ s with stackHeld := false, disp := .loop }]
  | .gap => [{ s with stackHeld := false, dwait := true, disp := .waiting }]
  | .waiting => if s.dwait || s.stackHeld then [] else popOrCond s
  | .send t =>
    if (chanIds s).length < p.W ∧ s.closed = false ∧ phaseOf s t = some .popped
    then [{ setPhase s t .inchan with disp := .loop }] else []
  | .waitZero => if s.pending = 0 then [{ s with disp := .close }] else []
  | .close => [{ s with closed := true, disp := .none }]

def takeRun (p : Params) (s : St) (dr : Bool) (t : Nat) : St × WPc :=
  (emit p (.rs t) (setPhase s t .running), .run t (kidsOf s t) none dr)

def wStep (p : Params) (s : St) : WPc → List (St × WPc)
  | .sel => if 0 < s.sig then [({ s with sig := s.sig - 1 }, .drain)] else [(s, .sel2)]
  | .sel2 =>
    (if 0 < s.sig then [({ s with sig := s.sig - 1 }, .drain)] else []) ++
    (chanIds s).map (takeRun p s false) ++
    (if s.closed ∧ chanIds s = [] then [(s, .drain)] else [])
  | .drain =>
    (chanIds s).map (fun t => if p.cancel then (setPhase s t .cancelling, .mark t true) else takeRun p s true t) ++
    (if s.closed ∧ chanIds s = [] then [(s, .exited)] else [])
  | .run t todo sub dr =>
    match sub with
    | some c => (submitStep p s c).map (fun r => (r.1, .run t todo (if r.2 then none else some c) dr))
    | none =>
      match todo with
      | b :: rest => [((newTask p s b.kids).1, .run t rest (some (newTask p s b.kids).2) dr)]
      | [] => if phaseOf s t = some .running then [(emit p (.re t) (setPhase s t .ran), .mark t dr)] else []
  | .mark t dr =>
    match phaseOf s t with
    | some .ran =>
      [(emit p (.dn (s.pending - 1)) { setPhase s t .done with pending := s.pending - 1 }, if dr then .drain else .sel)]
    | some .cancelling =>
      [(emit p (.dn (s.pending - 1)) { setPhase s t .cancelled with pending := s.pending - 1 }, .drain)]
    | _ => []
  | .exited => []

/-- The pool's goroutines: the dispatcher or any worker takes a step. -/
def runnerStep (p : Params) (s : St) : List St :=
  dispStep p s ++
  (List.range s.workers.length).flatMap (fun i =>
    match s.workers[i]? with
    | some w => (wStep p s w).map (fun r => { r.1 with workers := r.1.workers.set i r.2 })
    | none => [])

inductive Op
  | submit (b : Body) | shutdown | start | waitComplete | waitZero

inductive CPc
  | idle | sub (t : Nat)
  | sd1 | sdSend (j : Nat) | sdBcast | sdUnlock
  | st0 | stWait1 | stLock | stWait2 | stUnlock
  | wc | wz
deriving DecidableEq, Repr

structure Client where
  pc : CPc
  script : List Op

/-- `Start`'s spawn under the pool write lock. -/
def spawn (p : Params) (s : St) : St :=
  { s with running := true, closed := false, disp := .loop, workers := List.replicate p.W .sel,
           starts := s.starts + 1, sent := 0,
           broken := s.broken || s.disp != .none || !(chanIds s).isEmpty }

def clientStep (p : Params) (s : St) (c : Client) : List (St × Client) :=
  match c.pc with
  | .idle =>
    match c.script with
    | [] => []
    | .submit b :: rest => [((newTask p s b.kids).1, ⟨.sub (newTask p s b.kids).2, rest⟩)]
    | .shutdown :: rest => [(emit p .sdcall { s with sdcalls := s.sdcalls + 1 }, ⟨.sd1, rest⟩)]
    | .start :: rest => [(emit p .startcall s, ⟨.st0, rest⟩)]
    | .waitComplete :: rest => [(s, ⟨.wc, rest⟩)]
    | .waitZero :: rest => [(s, ⟨.wz, rest⟩)]
  | .sub t => (submitStep p s t).map (fun r => (r.1, ⟨if r.2 then .idle else .sub t, c.script⟩))
  | .sd1 =>
    if s.writer then []
    else if s.running then
      [({ s with writer := true, running := false, raced := s.raced || decide (0 < s.inWindow),
                 sent := 0, bcastPending := true }, ⟨.sdSend 0, c.script⟩)]
    else [({ s with writer := true }, ⟨.sdUnlock, c.script⟩)]
  | .sdSend j =>
    if j < p.W then (if s.sig < p.W then [({ s with sig := s.sig + 1, sent := s.sent + 1 }, ⟨.sdSend (j + 1), c.script⟩)] else [])
    else [(s, ⟨.sdBcast, c.script⟩)]
  | .sdBcast =>
    [({ s with dwait := false, lost := s.lost || s.disp == .gap, bcastPending := false }, ⟨.sdUnlock, c.script⟩)]
  | .sdUnlock => [(emit p .sdret { s with writer := false }, ⟨.idle, c.script⟩)]
  | .st0 =>
    if p.oldStart then [(s, ⟨.stLock, c.script⟩)]
    else if s.writer then []
    else [(s, ⟨if s.running then .stLock else .stWait1, c.script⟩)]
  | .stWait1 => if wg s = 0 then [(s, ⟨.stLock, c.script⟩)] else []
  | .stLock =>
    if s.writer then []
    else [({ s with writer := true, startRace := s.startRace || (!s.running && decide (0 < wg s)) },
           ⟨if s.running then .stUnlock else .stWait2, c.script⟩)]
  | .stWait2 => if wg s = 0 then [(spawn p s, ⟨.stUnlock, c.script⟩)] else []
  | .stUnlock => [(emit p .startret { s with writer := false }, ⟨.idle, c.script⟩)]
  | .wc => if wg s = 0 then [(emit p .complete s, ⟨.idle, c.script⟩)] else []
  | .wz => if s.pending = 0 then [(s, ⟨.idle, c.script⟩)] else []

inductive Thr
  | client (c : Client)
  | runner

def sys (p : Params) : Sys St Thr where
  step s
    | .client c => (clientStep p s c).map (fun r => (r.1, .client r.2))
    | .runner => (runnerStep p s).map (fun s' => (s', .runner))

/-- A client thread that has executed its whole script. -/
def Thr.finished : Thr → Bool
  | .client ⟨.idle, []⟩ => true
  | .runner => true
  | _ => false

/-- A client blocked in `ShutdownComplete.Wait()` — directly, or in `Start`'s wait for the previous
shutdown (legitimately so while the pool is running again). -/
def Thr.atWaitComplete : Thr → Bool
  | .client ⟨.wc, _⟩ => true
  | .client ⟨.stWait1, _⟩ => true
  | _ => false

def mkClients (scripts : List (List Op)) : List Thr :=
  scripts.map (fun sc => .client ⟨.idle, sc⟩) ++ [.runner]

end Hive.WPOld
