import Hive.Base.Proto
import Hive.Model.ReactiveInst
import Hive.Model.ReactiveVariantsSeq
import Hive.Model.ReactiveElementsSeq
import Hive.Model.ReactiveDir
/-!
# Sequential reading of the reactive model and the line protocol of `drv_c13`

Sequentially a write runs the whole writer program without interleaving: the state changes as
`Obj.upd` says and every live subscription is handed the note once.  The driver answers the
sequential op lines of `harness/c13` with this model (which ties `setUpd`/`varObj.upd`/`ini` — the
diff semantics the fold and chain theorems rest on — to the real code), and it judges the recorded
per-subscription event logs of the stress runs with the trace predicates of `Hive/Spec/Reactive.lean`.
-/
namespace Hive.Reactive.Seq
open Hive.Proto Hive.Reactive

inductive Kind | unset | set | var | event
deriving DecidableEq

structure Sub where
  live : Bool
  fold : List Nat      -- set subscriptions: folded contents
  last : Nat           -- variable subscriptions: new value of the last note
  log : List (Nat × Nat)

structure St where
  kind : Kind := .unset
  contents : List Nat := []
  value : Nat := 0
  uid : Nat := 0            -- the update-id counter (`uniqueUpdateID`; an unbounded natural here)
  subs : List Sub := []
  hist : List Nat := []     -- stress: the variable's value history given by a `vhist` line
  ref : Option (List Mut) := none   -- stress: the notes of the set's reference subscription (`sref` line)
  vx : Option VX.St := none         -- a `newvarx` case: variable with subscribers of every variant
  dir : Option Dir.St := none       -- a `newdir` case: the protocol model under a director (Hive/Model/ReactiveDir.lean)
  sx : Option SX.St := none         -- a `newsetx` case: set with `WithElements` subscribers (Hive/Model/ReactiveElementsSeq.lean)

def init : St := {}

/-! ### printing / parsing -/

def canon (l : List Nat) : List Nat := (List.range (l.foldl max 0 + 1)).filter (l.contains ·)

def showSet (l : List Nat) : String :=
  if l.isEmpty then "-" else ",".intercalate ((canon l).map toString)

def showMut (m : Mut) : String := showSet m.1 ++ ":" ++ showSet m.2

def parseSet (s : String) : Option (List Nat) :=
  if s == "-" then some [] else (s.splitOn ",").mapM (·.toNat?)

def liveCount (subs : List Sub) : Nat := subs.countP (·.live)

def summary (note : String) (n : Nat) : String :=
  if n = 0 then "none 0" else note ++ " " ++ toString n

/-! ### set -/

def deliverSet (subs : List Sub) (m : Mut) : List Sub :=
  subs.map fun s => if s.live then { s with fold := foldStep s.fold m } else s

/-- Runs one write: new state, reported mutation (empty if quiet), delivered? -/
def setRun (st : St) (op : SetOp) : St × Mut × Bool :=
  match setUpd st.contents op with
  | .change s' m => ({ st with contents := s', uid := st.uid + 1, subs := deliverSet st.subs m }, m, true)
  | .quiet bump => ({ st with uid := if bump then st.uid + 1 else st.uid }, ([], []), false)

def setAnswer (st : St) (op : SetOp) (ret : Mut → String) : St × String :=
  let (st', m, delivered) := setRun st op
  (st', ret m ++ " " ++ (if delivered then summary (showMut m) (liveCount st.subs) else "none 0"))

/-! ### variable / event (values are naturals; the event uses 0/1 and `max` for `||`) -/

def deliverVar (subs : List Sub) (p n : Nat) : List Sub :=
  subs.map fun s => if s.live then { s with last := n, log := s.log ++ [(p, n)] } else s

def varRun (st : St) (f : Nat → Nat) : St × Bool :=
  match (varObj Nat 0 0).upd st.value f with
  | .change v' n => ({ st with value := v', uid := st.uid + 1, subs := deliverVar st.subs n.1 n.2 }, true)
  | .quiet _ => (st, false)

def varAnswer (st : St) (f : Nat → Nat) (ret : String) : St × String :=
  let (st', delivered) := varRun st f
  (st', ret ++ " " ++ (if delivered then summary (s!"{st.value}:{st'.value}") (liveCount st.subs) else "none 0"))

def evOr (new : Nat) : Nat → Nat := fun cur => if cur != 0 || new != 0 then 1 else 0

def showSubs (st : St) : String :=
  String.join (st.subs.map fun s =>
    " " ++ (if !s.live then "x" else if st.kind == .set then showSet s.fold else toString s.last))

def subscribe (st : St) (flag : Bool) : St × String :=
  match st.kind with
  | .set =>
    match (setObj []).ini st.contents flag with
    | some m => ({ st with subs := st.subs ++ [{ live := true, fold := foldStep [] m, last := 0, log := [] }] }, showMut m ++ " 1")
    | none => ({ st with subs := st.subs ++ [{ live := true, fold := [], last := 0, log := [] }] }, "none 0")
  | .var | .event =>
    match (varObj Nat 0 0).ini st.value flag with
    | some n => ({ st with subs := st.subs ++ [{ live := true, fold := [], last := n.2, log := [n] }] }, s!"{n.1}:{n.2} 1")
    | none => ({ st with subs := st.subs ++ [{ live := true, fold := [], last := 0, log := [] }] }, "none 0")
  | .unset => (st, "bad-op")

/-! ### recorded logs of the stress runs -/

def parseVarEv (tok : String) : Option (Ev (Nat × Nat)) :=
  if tok == "x" then some .exit
  else if tok == "u" then some .unsubRet
  else match tok.splitOn ":" with
    | ["e", p, n] => do let p ← p.toNat?; let n ← n.toNat?; pure (.enter (p, n))
    | _ => none

def parseSetEv (tok : String) : Option (Ev Mut) :=
  if tok == "x" then some .exit
  else if tok == "u" then some .unsubRet
  else match tok.splitOn ":" with
    | ["e", a, d] => do let a ← parseSet a; let d ← parseSet d; pure (.enter (a, d))
    | _ => none

def parseActive (s : String) : Option Bool :=
  if s == "active" then some true else if s == "unsubbed" then some false else none

/-- `vsub <active|unsubbed> <final> ev…`: the C13 predicate for a Variable/Event subscription, plus
"exactly once, in order" against the value history of the case when one was given. -/
def judgeVar (st : St) (act fin : String) (evs : List String) : String :=
  match parseActive act, fin.toNat?, evs.mapM parseVarEv with
  | some a, some f, some es =>
    let why := varWhy 0 a f es
    if why != "accept" then why
    else if st.hist.isEmpty then "accept"
    else
      if runOfHistory (notes es) st.hist then "accept" else "reject not-a-run-of-the-history"
  | _, _, _ => "bad-op"

/-- `sref …` (the reference subscription of a stress round) / `ssub …`: the C13 predicate for a Set
subscription, plus "exactly once, in order" against the reference when one was given. -/
def judgeSet (st : St) (isRef : Bool) (act fin : String) (evs : List String) : St × String :=
  match parseActive act, parseSet fin, evs.mapM parseSetEv with
  | some a, some f, some es =>
    let why := setWhy a f es
    if isRef then ({ st with ref := some (notes es) }, why)
    else if why != "accept" then (st, why)
    else match st.ref with
      | none => (st, "accept")
      | some ref => (st, if runOfReference a (notes es) ref then "accept" else "reject not-a-run-of-the-reference")
  | _, _, _ => (st, "bad-op")

/-! ### recorded logs of the variant subscriptions (stress rounds `varx`) -/

/-- conditions the stress harness uses (values are unique there) -/
def stressOnceCond (c : Nat) (n : Nat × Nat) : Bool :=
  match c with
  | 1 => n.2 % 3 == 0
  | 2 => decide (n.2 > n.1)
  | _ => true

def stressWvCond (c : Nat) (v : Nat) : Bool :=
  match c with
  | 1 => v % 3 == 0
  | 3 => v != 0
  | _ => true

def splitAtU (toks : List String) : List String × Bool × List String :=
  let pre := toks.takeWhile (· != "u")
  let rest := toks.dropWhile (· != "u")
  (pre, !rest.isEmpty, rest.drop 1)

/-- `osub <active|unsubbed> <final> <cond> <g1> ev…` -/
def judgeOnce (st : St) (act cond g1 : String) (evs : List String) : String :=
  match parseActive act, cond.toNat?, g1.toNat?, evs.mapM parseVarEv with
  | some a, some c, some g, some es =>
    if !exclusive es then "reject overlap"
    else if !closed es then "reject unfinished"
    else if !noneAfterUnsub es then "reject after-unsubscribe"
    else if (notes es).length > 1 then "reject once-twice"
    else if !onceTraceOk (stressOnceCond c) st.hist g a (notes es) then "reject once-not-the-first-match"
    else "accept"
  | _, _, _, _ => "bad-op"

def parseWvEv (tok : String) : Option (WvEv Nat) :=
  match tok.splitOn ":" with
  | ["s", v] => v.toNat?.map .setup
  | ["t", v] => v.toNat?.map .teardown
  | _ => none

/-- `wsub <active|unsubbed> <final> <cond> ev…` -/
def judgeWv (st : St) (act fin cond : String) (evs : List String) : String :=
  let (pre, hasU, post) := splitAtU evs
  match parseActive act, fin.toNat?, cond.toNat?, pre.mapM parseWvEv with
  | some a, some f, some c, some tr =>
    if !post.isEmpty then "reject after-unsubscribe"
    else if !wvAlternates tr then "reject withvalue-alternation"
    else if hasU && !wvClosed tr then "reject withvalue-not-closed"
    else if !wvTraceOk (stressWvCond c) st.hist (a && !hasU) f tr then "reject withvalue-setups"
    else "accept"
  | _, _, _, _ => "bad-op"

def parseId (s : String) : Option CtxId :=
  match s.splitOn "." with
  | [k, j] => do let k ← k.toNat?; let j ← j.toNat?; pure (k, j)
  | _ => none

def parseCtxEv (tok : String) : Option (Option (CtxEv (Nat × Nat))) :=
  if tok == "x" then some none
  else if tok.startsWith "+" then (parseId (String.ofList (tok.toList.drop 1))).map (fun i => some (.sub i))
  else if tok.startsWith "~" then (parseId (String.ofList (tok.toList.drop 1))).map (fun i => some (.subNil i))
  else if tok.startsWith "-" then (parseId (String.ofList (tok.toList.drop 1))).map (fun i => some (.down i))
  else match tok.splitOn ":" with
    | ["e", p, n] => do let p ← p.toNat?; let n ← n.toNat?; pure (some (.call (p, n)))
    | _ => none

/-- `csub <active|unsubbed> <final> ev…` -/
def judgeCtx (act fin : String) (evs : List String) : String :=
  let (pre, hasU, post) := splitAtU evs
  match parseActive act, fin.toNat?, pre.mapM parseCtxEv with
  | some a, some f, some tr0 =>
    let tr := tr0.filterMap id
    let brackets : List (Ev (Nat × Nat)) := pre.filterMap fun t =>
      if t == "x" then some .exit else if t.startsWith "e:" then some (.enter (0, 0)) else none
    if !post.isEmpty then "reject after-unsubscribe"
    else if !closed brackets then "reject overlap"
    else if !ctxOk tr then "reject context-not-torn-down"
    else if hasU && !ctxClosed tr then "reject context-not-closed"
    else if !chainFrom 0 (ctxCalls tr) then "reject chain"
    else if a && !hasU && lastNew 0 (ctxCalls tr) != f then "reject last-is-not-final"
    else "accept"
  | _, _, _ => "bad-op"

def parseWeEv (tok : String) : Option WeEv :=
  match tok.splitOn ":" with
  | ["s", x] => x.toNat?.map .setup
  | ["t", x] => x.toNat?.map .teardown
  | _ => none

/-- `esub <active|unsubbed> <final> <cond> <hasTd> ev…`: a `WithElements` subscription of a stress round: the
trace is accepted by the scanner of `Hive/Spec/ReactiveElements.lean` (no second setup of an element before its
teardown, no teardown without a pending setup), every setup satisfies the condition, after the returned
teardown function nothing is left set up and nothing happens any more, and a subscription that is still
active at quiescence is set up for exactly the matching elements of the final contents
(`C13_withelements_in_protocol`). -/
def judgeWe (act fin c h : String) (evs : List String) : String :=
  let (pre, hasU, post) := splitAtU evs
  match parseActive act, parseSet fin, c.toNat?, h.toNat?, pre.mapM parseWeEv with
  | some a, some f, some c, some h, some tr =>
    if !post.isEmpty then "reject after-unsubscribe"
    else if !weOk (SX.hasTd h) tr then "reject withelements-order"
    else if !(weSetups tr).all (SX.cond c) then "reject withelements-condition"
    else if hasU then (if weClosed (SX.hasTd h) tr then "accept" else "reject withelements-not-closed")
    else if a then
      match tr.foldl (weScan (SX.hasTd h)) (some []) with
      | some actv =>
        if sameSet actv (f.filter (fun x => SX.cond c x && SX.hasTd h x)) then "accept"
        else "reject withelements-not-the-contents"
      | none => "reject withelements-order"
    else "accept"
  | _, _, _, _, _ => "bad-op"

/-! ### the driver step -/

def stepLine0 (st : St) (toks : List String) : St × String :=
  match toks with
  | "stress" :: _ => ({ st with hist := [], ref := none }, "ok")
  | "vhist" :: vs =>
    match vs.mapM (·.toNat?) with
    | some h => ({ st with hist := h }, "ok")
    | none => (st, "bad-op")
  | "vsub" :: act :: fin :: evs => (st, judgeVar st act fin evs)
  | "osub" :: act :: _ :: cond :: g1 :: evs => (st, judgeOnce st act cond g1 evs)
  | "wsub" :: act :: fin :: cond :: evs => (st, judgeWv st act fin cond evs)
  | "csub" :: act :: fin :: evs => (st, judgeCtx act fin evs)
  | "esub" :: act :: fin :: c :: h :: evs => (st, judgeWe act fin c h evs)
  | "rread" :: vs =>
    match vs.mapM (·.toNat?) with
    | some rs => (st, if readsOk st.hist rs then "accept" else "reject read-not-in-history-order")
    | none => (st, "bad-op")
  | "ssub" :: act :: fin :: evs => judgeSet st false act fin evs
  | "sref" :: act :: fin :: evs => judgeSet st true act fin evs
  | ["newset", els] =>
    match parseSet els with
    | some l => ({ kind := .set, contents := l }, "ok")
    | none => (st, "bad-op")
  | ["newset"] => ({ kind := .set }, "ok")
  | ["newvar"] => ({ kind := .var }, "ok")
  | ["newevent"] => ({ kind := .event }, "ok")
  | ["unsub", i] =>
    match i.toNat? with
    | some i =>
      if st.kind != .unset && i < st.subs.length then
        ({ st with subs := st.subs.modify i (fun s => { s with live := false }) }, "ok")
      else (st, "bad-op")
    | none => (st, "bad-op")
  | ["state"] =>
    match st.kind with
    | .unset => (st, "bad-op")
    | .set => (st, showSet st.contents ++ " |" ++ showSubs st)
    | _ => (st, toString st.value ++ " |" ++ showSubs st)
  | ["sub", f] => subscribe st (f == "1")
  | ["uid"] => if st.kind == .unset then (st, "bad-op") else (st, toString st.uid)
  | ["idle", n] =>
    -- `n` calls of `Apply` that apply nothing: each is `setUpd … = .quiet true` (id consumed, nobody notified)
    match st.kind, n.toNat? with
    | .set, some n => ({ st with uid := st.uid + n }, "ok")
    | _, _ => (st, "bad-op")
  | _ =>
    match st.kind, toks with
    | .set, ["add", x] =>
      match x.toNat? with
      | some x => setAnswer st (.apply ([x], [])) (fun m => showBool (m.1.contains x))
      | none => (st, "bad-op")
    | .set, ["del", x] =>
      match x.toNat? with
      | some x => setAnswer st (.apply ([], [x])) (fun m => showBool (m.2.contains x))
      | none => (st, "bad-op")
    | .set, ["addall", xs] =>
      match parseSet xs with
      | some xs => setAnswer st (.apply (xs, [])) (fun m => showSet m.1)
      | none => (st, "bad-op")
    | .set, ["delall", xs] =>
      match parseSet xs with
      | some xs => setAnswer st (.apply ([], xs)) (fun m => showSet m.2)
      | none => (st, "bad-op")
    | .set, ["apply", a, d] =>
      match parseSet a, parseSet d with
      | some a, some d => setAnswer st (.apply (a, d)) showMut
      | _, _ => (st, "bad-op")
    | .set, ["compute", a, d] =>
      match parseSet a, parseSet d with
      | some a, some d => setAnswer st (.compute (fun _ => (a, d))) showMut
      | _, _ => (st, "bad-op")
    | .set, ["toggle", x] =>
      match x.toNat? with
      | some x => setAnswer st (.compute (fun s => if s.contains x then ([], [x]) else ([x], []))) showMut
      | none => (st, "bad-op")
    | .set, ["replace", xs] =>
      match parseSet xs with
      | some xs => setAnswer st (.replace xs) (fun m => showSet m.2)
      | none => (st, "bad-op")
    | .set, ["replace-self"] => setAnswer st (.replaceView id) (fun m => showSet m.2)
    | .set, ["replace-view"] => setAnswer st (.replaceView id) (fun m => showSet m.2)
    | .var, ["set", v] =>
      match v.toNat? with
      | some v => varAnswer st (fun _ => v) (toString st.value)
      | none => (st, "bad-op")
    | .event, ["set", v] =>
      match v.toNat? with
      | some v => varAnswer st (evOr v) (toString st.value)
      | none => (st, "bad-op")
    | .var, ["compute", k] =>
      match k.toNat? with
      | some k => varAnswer st (fun v => (2 * v + k) % 5) (toString st.value)
      | none => (st, "bad-op")
    | .var, ["defaultto", v] =>
      match v.toNat? with
      | some v =>
        let upd := st.value == 0
        let nv := if upd then v else st.value
        varAnswer st (fun c => if c == 0 then v else c) (toString nv ++ " " ++ showBool upd)
      | none => (st, "bad-op")
    | .event, ["trigger"] => varAnswer st (evOr 1) (showBool (st.value == 0))
    | .event, ["ontrigger"] => subscribe st false
    | _, _ => (st, "bad-op")

def stepLine1 (st : St) (toks : List String) : St × String :=
  match toks, st.vx, st.dir with
  | ["newvarx"], _, _ => ({ vx := some {} }, "ok")
  | "newdir" :: kind, _, _ =>
    match Dir.St.new kind with
    | some d => ({ dir := some d }, "ok")
    | none => (st, "bad-op")
  | _, some x, _ => let r := VX.stepLine x toks; ({ st with vx := some r.1 }, r.2)
  | _, none, some d =>
    if toks.head? == some "vsub" || toks.head? == some "ssub" then stepLine0 st toks   -- the logs, judged by the trace predicates too
    else let r := d.stepLine toks; ({ st with dir := some r.1 }, r.2)
  | _, none, none => stepLine0 st toks

def stepLine (st : St) (toks : List String) : St × String :=
  match toks, st.sx with
  | ["newsetx", els], _ =>
    match parseSet els with
    | some l => ({ sx := some { contents := l } }, "ok")
    | none => (st, "bad-op")
  | _, some x => let r := SX.stepLine x toks; ({ st with sx := some r.1 }, r.2)
  | _, none => stepLine1 st toks

end Hive.Reactive.Seq
