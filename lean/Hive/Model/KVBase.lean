import Hive.Base.Proto
/-!
# Shared vocabulary of the KVStore model and specification (C04 / C05)

Byte strings, Go's bytewise string order, `strings.HasPrefix`, association lists (the model of a Go
`map[string][]byte`: no order, at most one entry per key), insertion sort (the model of
`sort.Sort(sort.StringSlice(..))`), the request and answer types of the line protocol.
Core Lean only.
-/
namespace Hive.KV

abbrev Bytes := List UInt8
abbrev Entry := Bytes × Bytes
abbrev AList := List Entry

/-- Go's `<` on strings: bytewise lexicographic, a proper prefix is smaller. -/
def blt : Bytes → Bytes → Bool
  | [], [] => false
  | [], _ :: _ => true
  | _ :: _, [] => false
  | a :: as, b :: bs =>
    if a.toNat < b.toNat then true else if a.toNat = b.toNat then blt as bs else false

/-- `strings.HasPrefix(k, p)`. -/
def hasPfx (p k : Bytes) : Bool := p.isPrefixOf k

inductive Dir
  | fwd
  | bwd
deriving DecidableEq, Repr

/-- The order in which an iteration of direction `d` reports keys. -/
def dirLt : Dir → Bytes → Bytes → Bool
  | .fwd, a, b => blt a b
  | .bwd, a, b => blt b a

/-! ## association lists (unordered map) -/

def aget (k : Bytes) (m : AList) : Option Bytes := (m.find? (fun e => e.1 == k)).map (·.2)

/-- `m[k] = v` -/
def aset (k v : Bytes) (m : AList) : AList := (k, v) :: m.filter (fun e => e.1 != k)

/-- `delete(m, k)` -/
def adel (k : Bytes) (m : AList) : AList := m.filter (fun e => e.1 != k)

/-- `for key := range m { if strings.HasPrefix(key, p) { delete(m, key) } }` -/
def adelPfx (p : Bytes) (m : AList) : AList := m.filter (fun e => !hasPfx p e.1)

/-! ## sorting -/

def insertBy {α : Type} (lt : α → α → Bool) (x : α) : List α → List α
  | [] => [x]
  | y :: ys => if lt y x then y :: insertBy lt x ys else x :: y :: ys

def sortBy {α : Type} (lt : α → α → Bool) (l : List α) : List α := l.foldr (insertBy lt) []

/-- The consumer returns `false` on its `n`-th call (`n = 0`: never): the calls that happen. -/
def stopAfter {α : Type} (n : Nat) (l : List α) : List α := if n = 0 then l else l.take n

/-! ## requests and answers -/

inductive Wrap
  | flush   -- flushkv.New
  | debug   -- debug.New
deriving DecidableEq, Repr

inductive Mode
  | abs   -- WithRealm
  | ext   -- WithExtendedRealm
deriving DecidableEq, Repr

inductive Op
  | view (v p : Nat) (realm : Bytes) (mode : Mode)
  | wrap (v p : Nat) (w : Wrap)
  | realm (v : Nat)
  | get (v : Nat) (k : Bytes)
  | has (v : Nat) (k : Bytes)
  | set (v : Nat) (k val : Bytes)
  | del (v : Nat) (k : Bytes)
  | delp (v : Nat) (p : Bytes)
  | clear (v : Nat)
  | flush (v : Nat)
  | close (v : Nat)
  | iter (v : Nat) (p : Bytes) (d : Dir) (stop : Nat)
  | iterk (v : Nat) (p : Bytes) (d : Dir) (stop : Nat)
  | batch (b v : Nat)
  | bset (b : Nat) (k val : Bytes)
  | bdel (b : Nat) (k : Bytes)
  | commit (b : Nat) (final : Bool)   -- `final`: the handle is released afterwards
  | cancel (b : Nat)
deriving DecidableEq, Repr

inductive Out
  | ok
  | closed          -- ErrStoreClosed
  | notfound        -- ErrKeyNotFound
  | badHandle       -- the request names a handle that was never created (harness-level answer)
  | val (v : Bytes)
  | bool (b : Bool)
  | bytes (r : Bytes)
  | kvs (l : List Entry)
  | keys (l : List Bytes)
deriving DecidableEq, Repr

/-- One entry of a batch's history: `some v` = Set, `none` = Delete. -/
abbrev Write := Bytes × Option Bytes

/-- The last operation a list of writes holds for key `k`. -/
def lastW : List Write → Bytes → Option (Option Bytes)
  | [], _ => none
  | (k', o) :: t, k =>
    match lastW t k with
    | some r => some r
    | none => if k' = k then some o else none

/-! ## line protocol -/
open Hive.Proto

def parseDir : String → Option Dir
  | "fwd" => some .fwd
  | "def" => some .fwd     -- no direction argument: GetIterDirection defaults to forward
  | "bwd" => some .bwd
  | _ => none

def parseOp : List String → Option Op
  | ["view", v, p, r, "abs"] => do pure (.view (← v.toNat?) (← p.toNat?) (← unhex r) .abs)
  | ["view", v, p, r, "ext"] => do pure (.view (← v.toNat?) (← p.toNat?) (← unhex r) .ext)
  | ["wrap", v, p, "f"] => do pure (.wrap (← v.toNat?) (← p.toNat?) .flush)
  | ["wrap", v, p, "d"] => do pure (.wrap (← v.toNat?) (← p.toNat?) .debug)
  | ["realm", v] => do pure (.realm (← v.toNat?))
  | ["get", v, k] => do pure (.get (← v.toNat?) (← unhex k))
  | ["has", v, k] => do pure (.has (← v.toNat?) (← unhex k))
  | ["set", v, k, x] => do pure (.set (← v.toNat?) (← unhex k) (← unhex x))
  | ["del", v, k] => do pure (.del (← v.toNat?) (← unhex k))
  | ["delp", v, p] => do pure (.delp (← v.toNat?) (← unhex p))
  | ["clear", v] => do pure (.clear (← v.toNat?))
  | ["flush", v] => do pure (.flush (← v.toNat?))
  | ["close", v] => do pure (.close (← v.toNat?))
  | ["iter", v, p, d, n] => do pure (.iter (← v.toNat?) (← unhex p) (← parseDir d) (← n.toNat?))
  | ["iterk", v, p, d, n] => do pure (.iterk (← v.toNat?) (← unhex p) (← parseDir d) (← n.toNat?))
  | ["batch", b, v] => do pure (.batch (← b.toNat?) (← v.toNat?))
  | ["bset", b, k, x] => do pure (.bset (← b.toNat?) (← unhex k) (← unhex x))
  | ["bdel", b, k] => do pure (.bdel (← b.toNat?) (← unhex k))
  | ["commit", b] => do pure (.commit (← b.toNat?) false)
  | ["commitf", b] => do pure (.commit (← b.toNat?) true)
  | ["cancel", b] => do pure (.cancel (← b.toNat?))
  | _ => none

def showOut : Out → String
  | .ok => "ok"
  | .closed => "closed"
  | .notfound => "notfound"
  | .badHandle => "bad-handle"
  | .val v => "val " ++ hex v
  | .bool b => showBool b
  | .bytes r => "realm " ++ hex r
  | .kvs l => " ".intercalate ("kvs" :: l.map (fun e => hex e.1 ++ ":" ++ hex e.2))
  | .keys l => " ".intercalate ("keys" :: l.map hex)

end Hive.KV
