import Hive.Base.Proto
/-!
# Model of `kvstore.TypedValue` (kvstore/typedvalue.go) for C06

One raw key of an abstract store (`store : Option Bytes`), the two cache fields of the Go struct
(`valueCached *V` ↦ `cv : Option V`, `hasCached *bool` ↦ `ch : Option Bool`) and a user codec.
Every step takes a *fault vector* saying which call made by the operation fails:

* `kv1` / `kv2` — the first / second call on the underlying `KVStore` made by this operation
  (positions, not kinds: `Compute` calls `Get` then `Set`; if it skips the `Get` its `Set` is call 1),
* `dec` / `enc` — the decode / encode call of the user codec (every operation makes at most one of each),
* the compute function is a parameter of the operation and may return a value, abort with
  `ErrTypedValueNotChanged`, or fail.

Besides injected faults the codec may fail *naturally* (`enc v = none`, `dec b = none`).
Each step also returns the trace of the calls it made with their outcomes; the Go harness records
the same trace through its store wrapper and codec closures, so the control flow is compared too.

The model is the code **after** the `fix:` commit of `Compute` (encode-error branch tests
`newValueBytesErr`); `computeOld` is the unrepaired control flow, kept for the witness theorem.
-/
namespace Hive.Typed

abbrev Bytes := List UInt8

structure Codec (V : Type) where
  enc : V → Option Bytes
  dec : Bytes → Option V

/-- Decoding an encoding gives the value back. -/
def Codec.RoundTrip {V : Type} (C : Codec V) : Prop := ∀ v b, C.enc v = some b → C.dec b = some v

/-- Outcome of the user's compute function. -/
inductive FnRes (V : Type)
  | ok (v : V)
  | notChanged        -- returns ErrTypedValueNotChanged
  | fail              -- returns any other error
deriving Repr, DecidableEq

inductive Err | kv | dec | enc | fn
deriving Repr, DecidableEq

inductive Op (V : Type)
  | get
  | has
  | set (v : V)
  | delete
  | compute (f : V → Bool → FnRes V)
  | reopen            -- a new TypedValue object over the same store and key (cache dropped)

structure Faults where
  kv1 : Bool := false
  kv2 : Bool := false
  dec : Bool := false
  enc : Bool := false
deriving Repr, DecidableEq

def noFaults : Faults := {}

inductive Call | kvGet | kvHas | kvSet | kvDel | dec | enc | fn
deriving Repr, DecidableEq

/-- `nf`: the store answered `ErrKeyNotFound`; `nc`: the function answered `ErrTypedValueNotChanged`. -/
inductive CallRes | ok | nf | nc | fail
deriving Repr, DecidableEq

structure Ev where
  call : Call
  res : CallRes
deriving Repr, DecidableEq

inductive Out (V : Type)
  | ok                                  -- Set / Delete succeeded
  | val (v : V)                         -- Get
  | has (b : Bool)                      -- Has
  | computed (v : V) (changed : Bool)   -- Compute: new value, or current value when not changed
  | notfound                            -- Get: ErrKeyNotFound
  | err (e : Err)                       -- the error of the failed call, wrapped
  | panic                               -- nil dereference (unreachable corner, see `compute`)
deriving Repr, DecidableEq

structure St (V : Type) where
  store : Option Bytes      -- raw bytes under the key
  cv : Option V             -- valueCached
  ch : Option Bool          -- hasCached
deriving Repr, DecidableEq

structure Res (V : Type) where
  st : St V
  out : Out V
  tr : List Ev

variable {V : Type}

def decF (C : Codec V) (F : Faults) (b : Bytes) : Option V := if F.dec then none else C.dec b
def encF (C : Codec V) (F : Faults) (v : V) : Option Bytes := if F.enc then none else C.enc v

/-- `Get`: the fast path under the read lock and the re-check under the write lock test the same
two conditions, so sequentially they collapse into one test. -/
def get (C : Codec V) (s : St V) (F : Faults) : Res V :=
  if s.ch = some false then ⟨s, .notfound, []⟩
  else match s.cv with
    | some v => ⟨s, .val v, []⟩
    | none =>
      if F.kv1 then ⟨s, .err .kv, [⟨.kvGet, .fail⟩]⟩
      else match s.store with
        | none => ⟨{ s with ch := some false }, .notfound, [⟨.kvGet, .nf⟩]⟩
        | some b =>
          match decF C F b with
          | none => ⟨s, .err .dec, [⟨.kvGet, .ok⟩, ⟨.dec, .fail⟩]⟩
          | some v => ⟨{ s with cv := some v, ch := some true }, .val v, [⟨.kvGet, .ok⟩, ⟨.dec, .ok⟩]⟩

def has (s : St V) (F : Faults) : Res V :=
  match s.ch with
  | some b => ⟨s, .has b, []⟩
  | none =>
    if F.kv1 then ⟨s, .err .kv, [⟨.kvHas, .fail⟩]⟩
    else ⟨{ s with ch := some s.store.isSome }, .has s.store.isSome, [⟨.kvHas, .ok⟩]⟩

def set (C : Codec V) (s : St V) (v : V) (F : Faults) : Res V :=
  match encF C F v with
  | none => ⟨s, .err .enc, [⟨.enc, .fail⟩]⟩
  | some b =>
    if F.kv1 then ⟨s, .err .kv, [⟨.enc, .ok⟩, ⟨.kvSet, .fail⟩]⟩
    else ⟨{ store := some b, cv := some v, ch := some true }, .ok, [⟨.enc, .ok⟩, ⟨.kvSet, .ok⟩]⟩

def delete (s : St V) (F : Faults) : Res V :=
  if F.kv1 then ⟨s, .err .kv, [⟨.kvDel, .fail⟩]⟩
  else ⟨{ store := none, cv := none, ch := some false }, .ok, [⟨.kvDel, .ok⟩]⟩

/-- `!exists && t.hasCached == nil || *t.hasCached` for the states in which it does not panic. -/
def needsRead (s : St V) : Bool := (s.cv.isNone && s.ch.isNone) || s.ch == some true

/-- Result of the first half of `Compute` (cache inspection, store read, decode). -/
inductive RdRes (V : Type)
  | exit (out : Out V) (tr : List Ev)
  | go (cur : V) (ex : Bool) (tr : List Ev)

/-- Note that the store is read even when a value is cached (`*t.hasCached` is true then): the
cache only saves the read when the key is known to be absent. -/
def computeRead [Inhabited V] (C : Codec V) (s : St V) (F : Faults) : RdRes V :=
  if needsRead s then
    if F.kv1 then .exit (.err .kv) [⟨.kvGet, .fail⟩]
    else match s.store with
      | none => .go (s.cv.getD default) s.cv.isSome [⟨.kvGet, .nf⟩]
      | some b =>
        match decF C F b with
        | none => .exit (.err .dec) [⟨.kvGet, .ok⟩, ⟨.dec, .fail⟩]
        | some v => .go v true [⟨.kvGet, .ok⟩, ⟨.dec, .ok⟩]
  else .go (s.cv.getD default) s.cv.isSome []

/-- Second half of `Compute`: function, encode, store write, cache update. -/
def computeWrite (C : Codec V) (s : St V) (f : V → Bool → FnRes V) (F : Faults) (kvFault : Bool)
    (cur : V) (ex : Bool) (tr : List Ev) : Res V :=
  match f cur ex with
  | .notChanged => ⟨s, .computed cur false, tr ++ [⟨.fn, .nc⟩]⟩
  | .fail => ⟨s, .err .fn, tr ++ [⟨.fn, .fail⟩]⟩
  | .ok nv =>
    match encF C F nv with
    | none => ⟨s, .err .enc, tr ++ [⟨.fn, .ok⟩, ⟨.enc, .fail⟩]⟩
    | some b =>
      if kvFault then ⟨s, .err .kv, tr ++ [⟨.fn, .ok⟩, ⟨.enc, .ok⟩, ⟨.kvSet, .fail⟩]⟩
      else ⟨{ store := some b, cv := some nv, ch := some true }, .computed nv true,
            tr ++ [⟨.fn, .ok⟩, ⟨.enc, .ok⟩, ⟨.kvSet, .ok⟩]⟩

def compute [Inhabited V] (C : Codec V) (s : St V) (f : V → Bool → FnRes V) (F : Faults) : Res V :=
  match s.cv, s.ch with
  | some _, none => ⟨s, .panic, []⟩   -- `*t.hasCached` with a nil pointer; no code path produces this state
  | _, _ =>
    match computeRead C s F with
    | .exit o tr => ⟨s, o, tr⟩
    | .go cur ex tr => computeWrite C s f F (if needsRead s then F.kv2 else F.kv1) cur ex tr

def step [Inhabited V] (C : Codec V) (s : St V) (op : Op V) (F : Faults) : Res V :=
  match op with
  | .get => get C s F
  | .has => has s F
  | .set v => set C s v F
  | .delete => delete s F
  | .compute f => compute C s f F
  | .reopen => ⟨{ s with cv := none, ch := none }, .ok, []⟩

/-- A freshly constructed TypedValue over a store whose key holds `raw`. -/
def fresh (raw : Option Bytes) : St V := { store := raw, cv := none, ch := none }

/-- Histories: a list of operations each with its fault vector. -/
def run [Inhabited V] (C : Codec V) (s : St V) : List (Op V × Faults) → St V × List (Out V)
  | [] => (s, [])
  | (op, F) :: rest =>
    let r := step C s op F
    let (s', os) := run C r.st rest
    (s', r.out :: os)

def final [Inhabited V] (C : Codec V) (s : St V) (h : List (Op V × Faults)) : St V :=
  h.foldl (fun s x => (step C s x.1 x.2).st) s

/-! ## The unrepaired `Compute` (encode-error branch tested `err`, which is nil there) -/

/-- What the encoder hands back next to an error is up to the codec; `junk` is that byte string. -/
def computeWriteOld (C : Codec V) (s : St V) (f : V → Bool → FnRes V) (F : Faults) (kvFault : Bool)
    (junk : Bytes) (cur : V) (ex : Bool) (tr : List Ev) : Res V :=
  match f cur ex with
  | .notChanged => ⟨s, .computed cur false, tr ++ [⟨.fn, .nc⟩]⟩
  | .fail => ⟨s, .err .fn, tr ++ [⟨.fn, .fail⟩]⟩
  | .ok nv =>
    let (b, e) := match encF C F nv with
      | none => (junk, Ev.mk .enc .fail)
      | some b => (b, Ev.mk .enc .ok)
    if kvFault then ⟨s, .err .kv, tr ++ [⟨.fn, .ok⟩, e, ⟨.kvSet, .fail⟩]⟩
    else ⟨{ store := some b, cv := some nv, ch := some true }, .computed nv true,
          tr ++ [⟨.fn, .ok⟩, e, ⟨.kvSet, .ok⟩]⟩

def computeOld [Inhabited V] (C : Codec V) (s : St V) (f : V → Bool → FnRes V) (F : Faults) (junk : Bytes) : Res V :=
  match s.cv, s.ch with
  | some _, none => ⟨s, .panic, []⟩
  | _, _ =>
    match computeRead C s F with
    | .exit o tr => ⟨s, o, tr⟩
    | .go cur ex tr => computeWriteOld C s f F (if needsRead s then F.kv2 else F.kv1) junk cur ex tr

/-! ## Specification: the raw key under the codec (no cache, no faults) -/

/-- What a caller working directly on the raw key with the codec would get. -/
def spec [Inhabited V] (C : Codec V) (raw : Option Bytes) : Op V → Option Bytes × Out V
  | .get =>
    match raw with
    | none => (raw, .notfound)
    | some b => match C.dec b with
      | none => (raw, .err .dec)
      | some v => (raw, .val v)
  | .has => (raw, .has raw.isSome)
  | .set v =>
    match C.enc v with
    | none => (raw, .err .enc)
    | some b => (some b, .ok)
  | .delete => (none, .ok)
  | .reopen => (raw, .ok)
  | .compute f =>
    let rd : Option (V × Bool) := match raw with
      | none => some (default, false)
      | some b => (C.dec b).map (fun v => (v, true))
    match rd with
    | none => (raw, .err .dec)
    | some (cur, ex) =>
      match f cur ex with
      | .notChanged => (raw, .computed cur false)
      | .fail => (raw, .err .fn)
      | .ok nv =>
        match C.enc nv with
        | none => (raw, .err .enc)
        | some b => (some b, .computed nv true)

/-! ## Concrete codec of the correspondence run: `uint64`, 8 bytes big-endian; the all-ones value is
unencodable (natural encoder failure) and byte strings of another length or holding all-ones do not
decode (natural decoder failure). -/

def be8 (v : UInt64) : Bytes :=
  let n := v.toNat
  [UInt8.ofNat (n / 2^56), UInt8.ofNat (n / 2^48), UInt8.ofNat (n / 2^40), UInt8.ofNat (n / 2^32),
   UInt8.ofNat (n / 2^24), UInt8.ofNat (n / 2^16), UInt8.ofNat (n / 2^8), UInt8.ofNat n]

def ofBE (b : Bytes) : Nat := b.foldl (fun a x => a * 256 + x.toNat) 0

def maxU64 : UInt64 := UInt64.ofNat (2^64 - 1)

def codec64 : Codec UInt64 where
  enc v := if v = maxU64 then none else some (be8 v)
  dec b := if b.length = 8 then
      (let v := UInt64.ofNat (ofBE b); if v = maxU64 then none else some v)
    else none

/-! ## line protocol -/
open Hive.Proto

/-- A second value codec of the correspondence run: the value 0 encodes as the **empty** byte string (and the empty byte
string decodes to 0) — a stored key whose value has zero length is present, not absent. -/
def codec64z : Codec UInt64 where
  enc v := if v = 0 then some [] else codec64.enc v
  dec b := if b.isEmpty then some 0 else codec64.dec b

def parseFaults (tok : String) : Option Faults :=
  if tok == "-" then some {} else
  (tok.splitOn ",").foldl (fun acc t =>
    match acc with
    | none => none
    | some F =>
      if t == "kv1" then some { F with kv1 := true }
      else if t == "kv2" then some { F with kv2 := true }
      else if t == "dec" then some { F with dec := true }
      else if t == "enc" then some { F with enc := true }
      else none) (some {})

def u64? (s : String) : Option UInt64 := s.toNat?.map UInt64.ofNat

/-- The compute functions the harness uses, by name. -/
def parseFn : List String → Option (UInt64 → Bool → FnRes UInt64)
  | ["const", n] => (u64? n).map fun n => fun _ _ => .ok n
  | ["add", n] => (u64? n).map fun n => fun cur _ => .ok (cur + n)
  | ["nc"] => some fun _ _ => .notChanged
  | ["fail"] => some fun _ _ => .fail
  | ["boom"] => some fun _ _ => .fail      -- the function panics: for the object a failure of the function (driver prints `boom`)
  | ["ncx", n] => (u64? n).map fun n => fun _ ex => if ex then .notChanged else .ok n
  | ["failx", n] => (u64? n).map fun n => fun _ ex => if ex then .fail else .ok n
  | ["incx", n] => (u64? n).map fun n => fun cur ex => if ex then .ok (cur + 1) else .ok n
  | ["cap", n] => (u64? n).map fun n => fun cur ex => if ex && cur ≥ n then .notChanged else .ok (cur + 1)
  | _ => none

def parseOp : List String → Option (Op UInt64 × Faults)
  | ["get", f] => (parseFaults f).map fun F => (.get, F)
  | ["has", f] => (parseFaults f).map fun F => (.has, F)
  | ["set", v, f] => do let v ← u64? v; let F ← parseFaults f; pure (.set v, F)
  | ["del", f] => (parseFaults f).map fun F => (.delete, F)
  | ["reopen"] => some (.reopen, {})
  | "compute" :: rest =>
    match rest.getLast? with
    | none => none
    | some f => do
      let F ← parseFaults f
      let fn ← parseFn rest.dropLast
      pure (.compute fn, F)
  | _ => none

def showErr : Err → String
  | .kv => "err:kv" | .dec => "err:dec" | .enc => "err:enc" | .fn => "err:fn"

def showOut : Out UInt64 → String
  | .ok => "ok"
  | .val v => s!"val {v.toNat}"
  | .has b => s!"has {showBool b}"
  | .computed v c => s!"computed {v.toNat} {if c then "chg" else "nc"}"
  | .notfound => "notfound"
  | .err e => showErr e
  | .panic => "panic"

def showEv (e : Ev) : String :=
  (match e.call with
   | .kvGet => "G" | .kvHas => "H" | .kvSet => "S" | .kvDel => "X" | .dec => "D" | .enc => "E" | .fn => "F") ++
  (match e.res with
   | .ok => "" | .nf => "?" | .nc => "~" | .fail => "!")

def showTrace (tr : List Ev) : String :=
  if tr.isEmpty then "-" else String.join (tr.map showEv)

def showRaw : Option Bytes → String
  | none => "none"
  | some b => hex b

def showCache (s : St UInt64) : String :=
  (match s.cv with | none => "nil" | some v => toString v.toNat) ++ "/" ++
  (match s.ch with | none => "nil" | some b => showBool b)

/-- Answer line: result, call trace, raw bytes under the key, cache fields. -/
def showRes (r : Res UInt64) : String :=
  s!"{showOut r.out} calls={showTrace r.tr} raw={showRaw r.st.store} cache={showCache r.st}"

def stepLine (s : St UInt64) (toks : List String) : St UInt64 × String :=
  match toks with
  | ["init", "none"] => (fresh none, "ok")
  | ["init", h] =>
    match unhex h with
    | some b => (fresh (some b), "ok")
    | none => (s, "bad-op")
  | _ =>
    match parseOp toks with
    | some (op, F) => let r := step codec64 s op F; (r.st, showRes r)
    | none => (s, "bad-op")

end Hive.Typed
