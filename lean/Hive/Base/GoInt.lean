/-!
# Go fixed-width integer semantics over `Int`

A Go integer of type `T` (signedness + width) is modelled as the mathematical integer it denotes,
kept in range by `IntTy.wrap` after every arithmetic operation (two's-complement wrap-around, as
the Go specification prescribes).  `/` is truncated division; `MinInt / -1` wraps to `MinInt`.
Shifts: `x << n` is `wrap (x * 2^n)` for every count `n ≥ 0` (counts ≥ width give 0), `x >> n` is the
floor division by `2^n` (arithmetic shift for signed types).  `&` is the bitwise AND of the
two's-complement representations.  The differential run of C19 validates these definitions against the real
operators (exhaustively for the 8-bit types).
-/
namespace Hive.GoInt

structure IntTy where
  signed : Bool
  bits : Nat
deriving Repr, DecidableEq

namespace IntTy

def u8 : IntTy := ⟨false, 8⟩
def u16 : IntTy := ⟨false, 16⟩
def u32 : IntTy := ⟨false, 32⟩
def u64 : IntTy := ⟨false, 64⟩
def i8 : IntTy := ⟨true, 8⟩
def i16 : IntTy := ⟨true, 16⟩
def i32 : IntTy := ⟨true, 32⟩
def i64 : IntTy := ⟨true, 64⟩

/-- `2^bits` -/
def modulus (T : IntTy) : Int := 2 ^ T.bits

def minVal (T : IntTy) : Int := if T.signed then -(2 ^ (T.bits - 1)) else 0
def maxVal (T : IntTy) : Int := if T.signed then 2 ^ (T.bits - 1) - 1 else 2 ^ T.bits - 1

/-- The values of the type. -/
def InRange (T : IntTy) (z : Int) : Prop := T.minVal ≤ z ∧ z ≤ T.maxVal

instance (T : IntTy) (z : Int) : Decidable (T.InRange z) := by unfold InRange; exact inferInstance

/-- Two's-complement wrap-around into the type's range. -/
def wrap (T : IntTy) (z : Int) : Int :=
  if T.signed then
    let r := z % T.modulus
    if r < 2 ^ (T.bits - 1) then r else r - T.modulus
  else z % T.modulus

def add (T : IntTy) (x y : Int) : Int := T.wrap (x + y)
def sub (T : IntTy) (x y : Int) : Int := T.wrap (x - y)
def mul (T : IntTy) (x y : Int) : Int := T.wrap (x * y)
def neg (T : IntTy) (x : Int) : Int := T.wrap (-x)
/-- Truncated division (callers guarantee `y ≠ 0`, Go panics otherwise). -/
def div (T : IntTy) (x y : Int) : Int := T.wrap (Int.tdiv x y)
def shl (T : IntTy) (x n : Int) : Int := T.wrap (x * 2 ^ n.toNat)
def shr (_T : IntTy) (x n : Int) : Int := x / 2 ^ n.toNat
/-- Bitwise AND of the two's-complement representations. -/
def and (T : IntTy) (x y : Int) : Int :=
  T.wrap (Int.ofNat (Nat.land (x % T.modulus).toNat (y % T.modulus).toNat))

end IntTy

/-- `bits.Mul64`: the 128-bit product as (hi, lo). -/
def mul64 (x y : Int) : Int × Int := ((x * y) / 2 ^ 64, (x * y) % 2 ^ 64)

/-- `bits.Div64(hi, lo, y)`: quotient and remainder of the 128-bit number; panics (`none`) for
`y = 0` or `y ≤ hi` (quotient overflow). -/
def div64 (hi lo y : Int) : Option (Int × Int) :=
  if y = 0 ∨ y ≤ hi then none else some ((hi * 2 ^ 64 + lo) / y, (hi * 2 ^ 64 + lo) % y)

/-- Result of a safemath function. -/
inductive Res (α : Type)
  | ok (v : α)
  | overflow
  | divzero
  | panic
deriving Repr, DecidableEq

def parseTy : String → Option IntTy
  | "u8" => some .u8 | "u16" => some .u16 | "u32" => some .u32 | "u64" => some .u64
  | "i8" => some .i8 | "i16" => some .i16 | "i32" => some .i32 | "i64" => some .i64
  -- defined types (`type Amount uint64` …) have the arithmetic of their underlying type
  | "du8" => some .u8 | "di8" => some .i8 | "du32" => some .u32 | "di32" => some .i32
  | "du64" => some .u64 | "di64" => some .i64
  | _ => none

def showRes : Res Int → String
  | .ok v => s!"ok {v}"
  | .overflow => "overflow"
  | .divzero => "divzero"
  | .panic => "panic"

end Hive.GoInt
