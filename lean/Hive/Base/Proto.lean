/-!
# Line protocol shared by every driver

One request per line on stdin, one answer per line on stdout.  A line starting with `#` is a case
header: it is echoed verbatim and the model state is reset, so that every case of a correspondence
run is independent and replays from its own lines.
-/
namespace Hive.Proto

def hexDigit (n : Nat) : Char :=
  if n < 10 then Char.ofNat (48 + n) else Char.ofNat (87 + n)

def hexByte (b : UInt8) : String :=
  String.ofList [hexDigit (b.toNat / 16), hexDigit (b.toNat % 16)]

/-- Byte strings are printed in lower-case hex, `-` for the empty string. -/
def hex (bs : List UInt8) : String :=
  if bs.isEmpty then "-" else String.join (bs.map hexByte)

def hexVal (c : Char) : Option Nat :=
  if '0' ≤ c ∧ c ≤ '9' then some (c.toNat - 48)
  else if 'a' ≤ c ∧ c ≤ 'f' then some (c.toNat - 87)
  else none

def unhexAux : List Char → Option (List UInt8)
  | [] => some []
  | a :: b :: rest => do
      let x ← hexVal a
      let y ← hexVal b
      let tl ← unhexAux rest
      pure (UInt8.ofNat (x * 16 + y) :: tl)
  | _ => none

def unhex (s : String) : Option (List UInt8) :=
  if s == "-" then some [] else unhexAux s.toList

def words (line : String) : List String :=
  (line.splitOn " ").filter (· ≠ "")

def showBool (b : Bool) : String := if b then "true" else "false"

def showOptNat : Option Nat → String
  | none => "none"
  | some n => toString n

def showNatList (l : List Nat) : String :=
  "[" ++ " ".intercalate (l.map toString) ++ "]"

def showIntList (l : List Int) : String :=
  "[" ++ " ".intercalate (l.map toString) ++ "]"

def chomp (line : String) : String :=
  String.ofList (line.toList.reverse.dropWhile (fun c => c == Char.ofNat 10 || c == Char.ofNat 13)).reverse

/-- Generic driver loop: `step` consumes the tokens of one line. -/
partial def loop {σ : Type} (init : σ) (step : σ → List String → σ × String)
    (h : IO.FS.Stream) (out : IO.FS.Stream) (s : σ) : IO Unit := do
  let line ← h.getLine
  if line.isEmpty then
    out.flush
    return ()
  let l := chomp line
  if l.startsWith "#" then
    out.putStrLn l
    loop init step h out init
  else
    let (s', o) := step s (words l)
    out.putStrLn o
    loop init step h out s'

def run {σ : Type} (init : σ) (step : σ → List String → σ × String) : IO Unit := do
  let stdin ← IO.getStdin
  let stdout ← IO.getStdout
  loop init step stdin stdout init

end Hive.Proto
