#!/usr/bin/env python3
"""Regenerates MANIFEST.json from checks/*.py (SPEC['manifest']) so the manifest always lists exactly the checks that exist."""
import glob, importlib.util, json, os
V = os.path.dirname(os.path.abspath(__file__))
BASE = json.load(open("/root/.vp/BASELINE.json"))["cmd"] if os.path.exists("/root/.vp/BASELINE.json") else ""
props = [json.loads(l) for l in open(os.path.join(V, "properties.jsonl"))]
checks, na = [], []
READY = set(open(os.path.join(V, "ready.txt")).read().split()) if os.path.exists(os.path.join(V, "ready.txt")) else None
for p in props:
    pid = p["id"]
    if READY is not None and pid not in READY:
        na.append({"property_id": pid, "reason": "check under construction at this commit (see design/ and DESIGN.md section 6); not claimed yet"})
        continue
    f = os.path.join(V, "checks", pid.lower() + ".py")
    spec = None
    if os.path.exists(f):
        s = importlib.util.spec_from_file_location("c", f); m = importlib.util.module_from_spec(s); s.loader.exec_module(m)
        spec = m.SPEC
    if spec is None or spec.get("not_applicable"):
        na.append({"property_id": pid, "reason": (spec or {}).get("not_applicable", "check not built yet (work in progress); see DESIGN.md section 6")})
        continue
    mf = spec.get("manifest", {})
    checks.append({
        "property_id": pid,
        "quick_cmd": f"./check {pid} --tier quick",
        "thorough_cmd": f"./check {pid} --tier thorough",
        "evidence_file": f"evidence/{pid}.json",
        "replay_cmd_template": f"./check {pid} --replay {{path}}",
        "engine": "lean-model+go-harness",
        "level_claimed": {"category": "proof", "text": mf.get("text", ""), "design_ref": f"DESIGN.md section 6, {pid}"},
        "level_note": mf.get("note", ""),
        "technique": mf.get("technique", "Lean 4 theorems over a model + differential correspondence with the Go code"),
    })
hooks = {"source_commits": []}
for hf in sorted(glob.glob(os.path.join(V, "hooks.d", "*.json"))):
    hooks["source_commits"] += json.load(open(hf)).get("source_commits", [])
man = {
    "version": 1,
    "setup_cmd": "./setup.sh",
    "hooks": {"guard": "verif", "enable": "go build -tags verif in the harness module /verif/harness (replace => /repo/<module> for every hive.go module)",
              "baseline_off_cmd": BASE, "source_commits": hooks.get("source_commits", []), "add_only": True},
    "engines": [{"name": "lean-model+go-harness", "path": "check", "serves_properties": [c["property_id"] for c in checks],
                 "kind_free_text": "Lean 4 model + theorems (lean/), compiled core-only Lean drivers, Go correspondence harness built from /repo's working tree (harness/), python orchestration (checklib.py)"}],
    "checks": checks,
    "not_applicable": na,
    "notes": "See DESIGN.md (section 12 = as built). known_findings.json and known_findings/*.json list recorded and fixed defects of hive.go. hooks.add_only is relative to the original source: every hook is a call line plus verif_on.go/verif_off.go; two later hook commits in runtime/timed (195f429, 42ecb04) change the signature of hook functions introduced by earlier hook commits and touch no original line.",
}
json.dump(man, open(os.path.join(V, "MANIFEST.json"), "w"), indent=1)
print(f"{len(checks)} checks, {len(na)} not_applicable")
