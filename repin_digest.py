#!/usr/bin/env python3
"""repin_digest.py [Cxx ...]  — (re)writes lean/Hive/Props/<Cxx>Digest.lean, the source-identity obligation of a property, from
/repo's current working tree: `theorem Cxx_source_digest : Hive.Gen.CxxDigest.digest = [ … ] := rfl` over the digests that
harness/tools/srcdigest computes for every top-level declaration of the anchored files (properties.jsonl) and of
SPEC['digest_extra'].  To be run by a person, after the check of the property has been run green against that tree: the pinned
text is then the text the models were validated against.  Never run by a check."""
import json, os, subprocess, sys
V = os.path.dirname(os.path.abspath(__file__))
sys.path.insert(0, V)
import checklib

pids = sys.argv[1:] or [json.loads(l)["id"] for l in open(os.path.join(V, "properties.jsonl"))]
head = subprocess.check_output(["git", "-C", "/repo", "rev-parse", "--short=10", "HEAD"]).decode().strip()
for pid in pids:
    gen = os.path.join(checklib.LEAN, "Hive", "Gen", f"{pid}_Digest.lean")
    files = checklib.digest_files(pid)
    env = dict(os.environ, **checklib.GOENV)
    subprocess.check_call(["go", "run", "./tools/srcdigest", gen, f"Hive.Gen.{pid}Digest", "/repo"] + files, cwd=checklib.HARNESS, env=env)
    rows = checklib.DIGEST_ROW.findall(open(gen).read())
    body = ",\n".join(f'  ("{a}", "{d}", "{h}")' for a, d, h in rows)
    with open(os.path.join(checklib.LEAN, "Hive", "Props", f"{pid}Digest.lean"), "w") as f:
        f.write(f"import Hive.Gen.{pid}_Digest\n\n"
                f"/-! Source-identity obligation of {pid} (written by repin_digest.py at /repo {head}; {len(rows)} declarations of\n"
                f"{', '.join(files)}).\n"
                "The hand-written models of this property were validated against exactly this text of the anchored declarations\n"
                "(comments and layout excluded).  The digests are regenerated from the tree under check on every run\n"
                f"(`Hive/Gen/{pid}_Digest.lean`); an edited, added or removed declaration breaks the obligation and `./check` names it. -/\n\n"
                f"theorem {pid}_source_digest : Hive.Gen.{pid}Digest.digest = [\n{body}] := rfl\n")
    print(pid, len(rows), "declarations pinned")
