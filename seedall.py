#!/usr/bin/env python3
"""Re-runs every seeded change that still applies to /repo HEAD against the current checks (quick tier) and records the
result as 'final' in its meta.json; changes that no longer apply (later fix commits rewrote the same lines) keep their
recorded verdict.  Usage: seedall.py [ID-prefix ...]   (runs 4 at a time)"""
import glob, json, os, subprocess, sys
from concurrent.futures import ThreadPoolExecutor
V = os.path.dirname(os.path.abspath(__file__))
sel = sys.argv[1:]
dirs = [d for d in sorted(glob.glob(os.path.join(V, "seeded", "*"))) if not sel or any(os.path.basename(d).startswith(s) for s in sel)]
head = subprocess.check_output(["git", "-C", "/repo", "rev-parse", "--short=10", "HEAD"]).decode().strip()


def one(d):
    name = os.path.basename(d)
    pid = name.split("-")[0]
    mp = os.path.join(d, "meta.json")
    m = json.load(open(mp))
    wt = f"/tmp/seedall-{name}"
    subprocess.call(["git", "-C", "/repo", "worktree", "remove", "--force", wt], stderr=subprocess.DEVNULL)
    subprocess.check_call(["git", "-C", "/repo", "worktree", "add", "-q", "--detach", wt, "HEAD"])
    try:
        if subprocess.call(["git", "-C", wt, "apply", os.path.join(d, "patch.diff")], stderr=subprocess.DEVNULL) != 0:
            m["final"] = {"repo_head": head, "verdict": "not re-run: the patch no longer applies to HEAD (later fix commits rewrote these lines); see check_result"}
            json.dump(m, open(mp, "w"), indent=1)
            return f"{name}: n/a (does not apply to HEAD)"
        env = dict(os.environ, VERIF_REPO=wt)
        out = subprocess.run([os.path.join(V, "check"), pid, "--tier", "quick"], cwd=V, env=env, stdout=subprocess.PIPE, stderr=subprocess.STDOUT).stdout.decode()
    finally:
        subprocess.call(["git", "-C", "/repo", "worktree", "remove", "--force", wt], stderr=subprocess.DEVNULL)
    viol = [l for l in out.split("\n") if l.startswith("VIOLATION")]
    with_input = [l for l in viol if "no-failing-input-found" not in l]
    summ = [l for l in out.split("\n") if l.startswith("[" + pid + "] tier=")]
    verdict = "MISSED" if not viol else ("CAUGHT with a failing input" if with_input else "CAUGHT (no-failing-input-found)")
    m["final"] = {"repo_head": head, "verdict": verdict, "summary": summ[-1:] }
    json.dump(m, open(mp, "w"), indent=1)
    return f"{name}: {verdict}"


with ThreadPoolExecutor(max_workers=4) as ex:
    for r in ex.map(one, dirs):
        print(r, flush=True)
