#!/usr/bin/env python3
"""Records in every seeded/*/meta.json the newest /repo commit the patch applies to ('applies_to'); seedtest/seedverify
must be run with SEED_BASE=<that commit> when later fix commits touched the same lines."""
import glob, json, os, subprocess
commits = subprocess.check_output(["git", "-C", "/repo", "log", "--format=%H"]).decode().split()
wt = "/tmp/seedbase-wt"
subprocess.call(["git", "-C", "/repo", "worktree", "remove", "--force", wt], stderr=subprocess.DEVNULL)
subprocess.check_call(["git", "-C", "/repo", "worktree", "add", "-q", "--detach", wt, "HEAD"])
try:
    for d in sorted(glob.glob("/verif/seeded/*")):
        mp = os.path.join(d, "meta.json")
        m = json.load(open(mp))
        found = None
        for c in commits:
            subprocess.check_call(["git", "-C", wt, "checkout", "-q", c])
            if subprocess.call(["git", "-C", wt, "apply", "--check", os.path.join(d, "patch.diff")], stderr=subprocess.DEVNULL) == 0:
                found = c
                break
        m["applies_to"] = found[:10] if found else None
        m["applies_to_head"] = (found == commits[0])
        json.dump(m, open(mp, "w"), indent=1)
        print(os.path.basename(d), m["applies_to"], "HEAD" if m["applies_to_head"] else "")
finally:
    subprocess.call(["git", "-C", "/repo", "worktree", "remove", "--force", wt])
