#!/bin/bash
# seedtest.sh <CHECK-ID> <patch.diff> [tier]  — runs a check against a scratch worktree of /repo HEAD with the patch applied.
# Exit status: 0 if the check reported a VIOLATION (seeded change caught), 1 if it stayed quiet.
id=$1; patch=$2; tier=${3:-quick}
wt=/tmp/seedwt-$id-$$
git -C /repo worktree add -q "$wt" "${SEED_BASE:-HEAD}" || exit 2
if ! git -C "$wt" apply "$patch"; then echo "patch does not apply"; git -C /repo worktree remove --force "$wt"; exit 2; fi
out=$(cd /verif && VERIF_REPO=$wt ./check "$id" --tier "$tier" 2>&1)
git -C /repo worktree remove --force "$wt"
echo "$out" | grep -E "VIOLATION|KNOWN-FINDING|^\[" | head -8
if echo "$out" | grep -q "^VIOLATION"; then echo "CAUGHT"; exit 0; else echo "MISSED"; exit 1; fi
