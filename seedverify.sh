#!/bin/bash
# seedverify.sh <seeded-dir>  — confirms a seeded change: in a scratch worktree of /repo HEAD the demonstration
# passes, then with patch.diff applied the module still builds, its existing tests pass and the demonstration fails.
# Reads seeded-dir/meta.json: demo_file, demo_pkg_dir (repo-relative directory the test file is copied into),
# demo_run (go test -run regex), module_dir (repo-relative module whose test suite must still pass; optional suite_pkgs
# restricts it to the packages the change can affect — the runtime module contains a load-sensitive heap-size test).
set -u
d=$(realpath "$1")
export GOFLAGS=-mod=mod GOPROXY=off GOSUMDB=off GOTOOLCHAIN=local
get() { python3 -c "import json,sys; print(json.load(open('$d/meta.json'))['$1'])"; }
demo_file=$(get demo_file); pkg=$(get demo_pkg_dir); run=$(get demo_run); mod=$(get module_dir)
suite=$(python3 -c "import json; print(json.load(open('$d/meta.json')).get('suite_pkgs','./...'))")
wt=/tmp/seedverify-$$
git -C /repo worktree add -q "$wt" "${SEED_BASE:-HEAD}" || exit 2
trap 'git -C /repo worktree remove --force "$wt" >/dev/null 2>&1' EXIT
demo() { cp "$d/$demo_file" "$wt/$pkg/zz_seed_demo_test.go"; (cd "$wt/$pkg" && go test -mod=mod -vet=off -count=1 -run "$run" . >"$wt/demo.log" 2>&1); rc=$?; rm -f "$wt/$pkg/zz_seed_demo_test.go"; return $rc; }
if demo; then echo "demo passes without the patch: ok"; else echo "FAIL: demo fails WITHOUT the patch"; tail -5 "$wt/demo.log"; exit 1; fi
git -C "$wt" apply "$d/patch.diff" || { echo "FAIL: patch does not apply"; exit 1; }
(cd "$wt/$mod" && go build ./... && (go test -mod=mod -vet=off -count=1 $suite >"$wt/suite.log" 2>&1 || go test -mod=mod -vet=off -count=1 $suite >"$wt/suite.log" 2>&1)) || { echo "FAIL: existing tests fail with the patch"; grep -v "^ok" "$wt/suite.log" | head; exit 1; }
echo "builds and existing tests of $mod pass with the patch: ok"
if demo; then echo "FAIL: demo passes WITH the patch"; exit 1; else echo "demo fails with the patch: ok"; tail -3 "$wt/demo.log" | head -3; fi
echo CONFIRMED
