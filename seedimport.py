#!/usr/bin/env python3
"""seedimport.py <CHECK-ID> <seed-worktree>/out  — imports the seeded changes a sub-agent wrote (out/<i>/{patch.diff,demo_test.go,meta.json}),
confirms each with seedverify.sh, runs the check against it with seedtest.sh and records the verdict in seeded/<ID>-<i>/meta.json."""
import json, os, shutil, subprocess, sys
pid, src = sys.argv[1], sys.argv[2]
tag = sys.argv[3] if len(sys.argv) > 3 else ""
V = os.path.dirname(os.path.abspath(__file__))
for i in sorted(os.listdir(src)):
    s = os.path.join(src, i)
    if not os.path.exists(os.path.join(s, "patch.diff")):
        continue
    dst = os.path.join(V, "seeded", f"{pid}-{tag}{i}")
    os.makedirs(dst, exist_ok=True)
    m = json.load(open(os.path.join(s, "meta.json")))
    for f in ["patch.diff", m.get("demo_file", "demo_test.go")]:
        shutil.copy(os.path.join(s, f), dst)
    m["author"] = "fresh sub-agent given only the property text and a scratch worktree"
    m["demo_cmd"] = f"/verif/seedverify.sh /verif/seeded/{pid}-{tag}{i}"
    json.dump(m, open(os.path.join(dst, "meta.json"), "w"), indent=1)
    v = subprocess.run([os.path.join(V, "seedverify.sh"), dst], stdout=subprocess.PIPE, stderr=subprocess.STDOUT).stdout.decode()
    confirmed = "CONFIRMED" in v
    t = subprocess.run([os.path.join(V, "seedtest.sh"), pid, os.path.join(dst, "patch.diff")], stdout=subprocess.PIPE, stderr=subprocess.STDOUT).stdout.decode()
    caught = "CAUGHT" in t
    lines = [l for l in t.split("\n") if l.startswith("[") or "no-failing-input-found" in l]
    m["confirmed_by"] = ("seedverify.sh: demo passes on HEAD, patched tree builds, module test suite passes, demo fails" if confirmed
                         else "NOT CONFIRMED: " + v[-400:])
    m["check_result"] = {"cmd": f"./seedtest.sh {pid} /verif/seeded/{pid}-{tag}{i}/patch.diff", "verdict": "CAUGHT (quick tier)" if caught else "MISSED (quick tier)",
                         "summary": lines[-2:], "no_failing_input_found": "no-failing-input-found" in t}
    json.dump(m, open(os.path.join(dst, "meta.json"), "w"), indent=1)
    print(f"{pid}-{tag}{i}: confirmed={confirmed} caught={caught} nfi={'no-failing-input-found' in t} :: {lines[-1] if lines else t[-200:]}")
