#!/usr/bin/env python3
"""Prepare scratch worktrees and PROMPT.md files for an independent round of seeded breaking changes.
usage: seedprompt.py <round> <pid>...   — creates /tmp/seed<round>-<pid> (a detached worktree of /repo HEAD) with PROMPT.md.
The prompt holds only the property text and one-line summaries of earlier seeded changes (so that rounds do not repeat);
nothing from /verif's machinery is handed over."""
import json, glob, subprocess, sys
SUITE={'C01':('serializer','./...'),'C02':('serializer','./...'),'C03':('serializer','./...'),'C04':('kvstore','./...'),
'C05':('kvstore','./...'),'C06':('kvstore','./...'),'C07':('kvstore','./...'),'C08':('kvstore','./...'),'C09':('ads','./...'),
'C10':('ds','. ./orderedmap/... ./reactive/...'),'C11':('ds','. ./orderedmap/... ./shrinkingmap/... ./serializableorderedmap/...'),
'C12':('ds / runtime / core / web (the module of the touched container)','./...'),'C13':('ds','./reactive/... .'),
'C14':('ds','./reactive/... .'),'C15':('runtime','./event/... ./promise/... ./valuenotifier/...'),
'C16':('runtime','./workerpool/... ./syncutils/...'),'C17':('runtime','./syncutils/... ./workerpool/...'),
'C18':('runtime','-skip MemLeak ./timed/...'),'C19':('core','./...'),'C20':('app','./daemon/...')}
ORD={'2':'SECOND','3':'THIRD','4':'FOURTH','5':'FIFTH','6':'SIXTH','7':'SEVENTH'}
def main():
    rnd=sys.argv[1]; pids=sys.argv[2:]
    props={json.loads(l)['id']:json.loads(l) for l in open('/verif/properties.jsonl')}
    for pid in pids:
        p=props[pid]; wt=f'/tmp/seed{rnd}-{pid}'
        subprocess.call(['git','-C','/repo','worktree','remove','--force',wt],stderr=subprocess.DEVNULL)
        subprocess.check_call(['git','-C','/repo','worktree','add','-q','--detach',wt,'HEAD'])
        prev=[]
        for d in sorted(glob.glob(f'/verif/seeded/{pid}-*')):
            m=json.load(open(d+'/meta.json')); prev.append('- '+str(m.get('breaks','')).split('. ')[0][:200])
        mod,pk=SUITE[pid]
        txt=f"""# Adversarial seeding, round {rnd} — property {pid}

You are a careful Go engineer asked to play the adversary in a verification study. Work ONLY inside the git worktree {wt}
(a checkout of the Go repository iotaledger/hive.go: 19 Go modules in one repo, no go.work; inside the repository's own tests sibling
modules are resolved from the module cache at pinned versions, not from the worktree). Do NOT read, list or use anything under /verif,
and do not touch /repo. NEVER use `git stash` (all scratch worktrees share one stash); use `git apply` / `git apply -R` / `git checkout -- .`.
Environment for every shell call: `export GOFLAGS=-mod=mod GOPROXY=off GOSUMDB=off GOTOOLCHAIN=local` (no network; nothing can be
fetched). Files named verif_on.go / verif_off.go and calls of functions whose names start with `verif` are no-op test hooks behind the
build tag `verif`: leave them alone (a change may not move or remove them).

## The property

**{p['title']}**

{p['statement']}

Quantified over: {p['quantifier']['text']}

Anchored files: {', '.join(p['anchors']['files'])}

## Task

Produce THREE independent, realistic changes to the hive.go source (the anchored files or code they directly rely on), each a small
patch of the kind that slips through review, that each BREAK this property while the code still compiles and the existing test suite of
the touched module still passes (`cd {wt}/{mod} && go test -mod=mod -vet=off -count=1 {pk}`; wall-clock / heap-size tests such as
ds/reactive TestClock and runtime/timed *MemLeak are flaky under machine load independently of any change).

This is the {ORD.get(rnd,rnd)} round. Earlier rounds produced the changes listed below; a verifier has since been strengthened against all of
them. Choose sites, clauses and mechanisms that are DIFFERENT from all of these, and aim for the hardest-to-notice kind:
* two cooperating edits in different functions (or files) that are each harmless alone;
* a change that is invisible to any single caller and any sequential test and needs one precise interleaving of two or three goroutines
  (only where the property speaks about concurrent use);
* a change that only matters for one unusual but legal configuration (option, size, type parameter, zero-length or maximal value,
  extreme integers, values equal but differently represented, a rarely used API variant or twin type of the same feature);
* a change on an error / early-return / retry path whose twin on the success path stays correct;
* aliasing: handing out or keeping a slice/map/pointer that is later reused or mutated, where a copy was made before;
* keeping lock/unlock/atomic call STRUCTURE textually the same while changing what is protected (e.g. reading a field before the
  lock and using the stale value inside it, publishing a result after unlocking, reusing a buffer);
* a change in a helper of ANOTHER package or module file that the anchored code relies on (the anchored file itself untouched).
Every change must break what the property STATES (re-read the statement: a behaviour the statement does not promise is not a break).

Earlier changes (do not repeat):
{chr(10).join(prev)}

## Deliverables

For each change i in 1..3 write into {wt}/out/<i>/ :
* `patch.diff` — output of `git diff` for that change alone, applicable with `git apply` to a clean checkout of HEAD;
* `demo_test.go` — a Go test file for an existing package directory of the touched module, whose test function names match a regex you
  give, that FAILS with the change applied (reliably: force interleavings with channels / callbacks where the API allows, otherwise loop
  with a bounded number of attempts that you observed to suffice; a hang must become a failure through a timeout; recover panics) and
  PASSES without it. Verify both yourself by copying it into that directory, running
  `go test -mod=mod -vet=off -count=1 -run '<regex>' .` there, and removing it again;
* `meta.json` — {{"property":"{pid}","breaks":"<which clause and how>","needs":"<what it needs in order to manifest>",
  "demo_file":"demo_test.go","demo_pkg_dir":"<repo-relative directory the test file is copied into>","demo_run":"<go test -run regex>",
  "module_dir":"<repo-relative module directory>","suite_pkgs":"<ONLY the space-separated go package patterns (and -skip flags) of the suite you ran, e.g. ./... — no prose>",
  "ran":"<what you ran and observed, with and without the patch>"}}.

Keep the worktree itself clean at the end (`git checkout -- .`; only out/ and PROMPT.md remain, untracked).
Your final message: a short description of the three changes and the paths.
"""
        open(wt+'/PROMPT.md','w').write(txt)
        print(wt)
main()
