# Development configuration of C02, first part only (./check C02A): Deserializer primitives, stream readers, JSON / map
# decoder, numbers.go, ordered map, typeutils - without the serix binary part (harness/c02/serix over harness/serixgen,
# owned by the serix builder).  Used for mutation runs; the check that counts is checks/c02.py.
import os, sys
sys.path.insert(0, os.path.dirname(os.path.abspath(__file__)))
sys.path.insert(0, os.path.dirname(os.path.dirname(os.path.abspath(__file__))))
import c02

SPEC = dict(c02.SPEC)
SPEC["lean_props"] = ["Hive.Props.C02"]
SPEC["lean_namespace"] = ["Hive.C02"]
SPEC["theorem_prefix"] = "C02"
SPEC["parts"] = [c02.SPEC["parts"][0]]
SPEC["theorems"] = [t for t in c02.SPEC["theorems"] if t not in ("C02_no_panic", "C02_consumed_le")]
