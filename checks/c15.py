import os, sys
sys.path.insert(0, os.path.dirname(os.path.dirname(os.path.abspath(__file__))))
import checklib


def regen_twins(ctx):
    """Hive/Gen/C15_Twins.lean: normalised Trigger/LinkTo bodies, type declarations, constructors and method signatures of Event, Event1..Event9 and the list of top-level declarations of events.go (harness/c15/twins)."""
    out = os.path.join(checklib.LEAN, "Hive", "Gen", "C15_Twins.lean")
    tmp = os.path.join(ctx.scratch, "C15_Twins.lean")
    rc, log = checklib.sh(["go", "run", "./c15/twins", tmp, "Hive.Gen.C15Twins",
                           os.path.join(ctx.repo, "runtime/event/events.go")], cwd=checklib.HARNESS, timeout=600)
    if rc != 0 or not os.path.exists(tmp):
        return [{"kind": "twins-normaliser", "detail": checklib.tail(log, 20)}]
    new = open(tmp).read()
    with checklib.LakeLock():
        old = open(out).read() if os.path.exists(out) else None
        if old != new:
            open(out, "w").write(new)
            ctx.notes.append("regenerated Hive/Gen/C15_Twins.lean differs from the previous copy")
    return []


BODIES = [
    "ds/orderedmap/orderedmap.go:type=OrderedMap,OrderedMap.Set,OrderedMap.Delete,OrderedMap.Clear,OrderedMap.ForEach,"
    "OrderedMap.ForEachReverse,OrderedMap.Head,OrderedMap.Tail,OrderedMap.Get,OrderedMap.Has,OrderedMap.Size,OrderedMap.Clone",
    "ds/orderedmap/element.go:type=Element",
]


def regen_bodies(ctx):
    """Hive/Gen/C15_Bodies.lean: source text of the orderedmap functions the pointer-level model mirrors (harness/c15/bodies)."""
    out = os.path.join(checklib.LEAN, "Hive", "Gen", "C15_Bodies.lean")
    tmp = os.path.join(ctx.scratch, "C15_Bodies.lean")
    reqs = [os.path.join(ctx.repo, b) for b in BODIES]
    rc, log = checklib.sh(["go", "run", "./c15/bodies", tmp, "Hive.Gen.C15Bodies"] + reqs, cwd=checklib.HARNESS, timeout=600)
    if rc != 0 or not os.path.exists(tmp):
        return [{"kind": "bodies-extractor", "detail": checklib.tail(log, 20)}]
    new = open(tmp).read()
    with checklib.LakeLock():
        old = open(out).read() if os.path.exists(out) else None
        if old != new:
            open(out, "w").write(new)
            ctx.notes.append("regenerated Hive/Gen/C15_Bodies.lean differs from the previous copy")
    return []


def regen(ctx):
    return regen_skel(ctx) + regen_twins(ctx) + regen_bodies(ctx)


def regen_skel(ctx):
    # the synchronisation skeletons the protocol models of C15 were written against (Hive/Gen/C15_Skel.lean)
    return checklib.regen_skeletons(ctx, [
        "runtime/valuenotifier/listener.go:Listener.Wait",
        "runtime/valuenotifier/listener.go:Listener.Deregister",
        "runtime/valuenotifier/listener.go:Notifier.removeListener",
        "runtime/valuenotifier/listener.go:Notifier.Notify",
        "runtime/valuenotifier/listener.go:Notifier.Listener",
        "runtime/promise/event.go:Event1.OnTrigger",
        "runtime/promise/event.go:Event.OnTrigger",
        "runtime/promise/utils.go:uniqueID.Next",
        "runtime/promise/event.go:Event.Trigger",
        "runtime/event/options.go:triggerSettings.currentTriggerExceedsMaxTriggerCount",
        "runtime/event/options.go:triggerSettings.MaxTriggerCountReached",
        "runtime/event/options.go:type=triggerSettings",
        "runtime/event/event.go:event.linkTo",
        "runtime/event/event.go:event.Hook",
        "runtime/event/hook.go:Hook.Unhook",
        "runtime/event/hook.go:Hook.WorkerPool",
        "runtime/event/options.go:triggerSettings.hasWorkerPool",
        "runtime/event/events.go:Event1.Trigger",
        "ds/orderedmap/orderedmap.go:OrderedMap.ForEach",
        "ds/orderedmap/orderedmap.go:OrderedMap.Delete",
        "ds/orderedmap/orderedmap.go:OrderedMap.Set",
        "ds/orderedmap/orderedmap.go:OrderedMap.Clear",
        "ds/orderedmap/orderedmap.go:OrderedMap.ForEachReverse",
    ], extra_methods=["Delete", "Set", "Get", "Has", "ForEach", "Hook", "Unhook", "Submit", "Next", "MaxTriggerCount",
                      "TriggerCount", "Load"])


SPEC = {
    "lean_props": "Hive.Props.C15",
    "lean_namespace": "Hive.C15",
    "regen": regen,
    "driver": "drv_c15",
    "harness": "c15",
    "race": True,
    "theorems": [
        "C15_trigger_exactly_once", "C15_pre_trigger", "C15_weak_iteration", "C15_max_trigger_count", "C15_max_trigger_count_never_more",
        "C15_max_trigger_count_seq", "C15_max_trigger_count_hooks",
        "C15_link", "C15_link_concurrent", "C15_registry_projection", "C15_pooled_exactly_once", "C15_pooled_drained", "C15_pooled_exactly_once_drained", "C15_promise_once", "C15_notifier", "C15_notifier_wait_race",
        "C15_notifier_count_exact", "C15_notifier_concurrent", "C15_notifier_concurrent_hit", "C15_notifier_stale_listener_witness", "C15_notifier_double_deregister_witness", "C15_notifier_split_deregister_wait_witness",
        "C15_notifier_old_witness", "C15_notifier_wait_race_old_witness",
        "C15_skeleton_Listener_Wait", "C15_skeleton_Listener_Deregister", "C15_skeleton_Notifier_removeListener",
        "C15_skeleton_Notifier_Notify", "C15_skeleton_Notifier_Listener", "C15_skeleton_Event1_OnTrigger",
        "C15_skeleton_Event_Trigger", "C15_skeleton_triggerSettings_currentTriggerExceedsMaxTriggerCount",
        "C15_skeleton_event_linkTo", "C15_skeleton_event_Hook", "C15_skeleton_Hook_Unhook", "C15_skeleton_Event1_Trigger",
        "C15_skeleton_twins_uniform", "C15_skeleton_twins_decls", "C15_skeleton_Event_OnTrigger", "C15_skeleton_uniqueID_Next", "C15_skeleton_triggerSettings_MaxTriggerCountReached",
        "C15_skeleton_type_triggerSettings", "C15_skeleton_Hook_WorkerPool", "C15_skeleton_triggerSettings_hasWorkerPool",
        "C15_skeleton_OrderedMap_ForEach", "C15_skeleton_OrderedMap_Delete", "C15_skeleton_OrderedMap_Set",
        "C15_skeleton_OrderedMap_Clear", "C15_skeleton_OrderedMap_ForEachReverse", "C15_skeleton_orderedmap_bodies",
        "C15_orderedmap_wellformed", "C15_orderedmap_frozen_pointers", "C15_orderedmap_queries", "C15_orderedmap_walk", "C15_registry_simulation", "C15_registry_simulation_step", "C15_weak_iteration_code",
    ],
    "trusted_base": [
        "hand-written models Hive/Model/Events*.lean of runtime/event, runtime/promise, runtime/valuenotifier and of "
        "orderedmap.ForEach/Set/Delete, tied on every run by (a) line-by-line differential execution of sequential and "
        "callback-forced histories, (b) trace predicates evaluated by the Lean driver on recorded concurrent runs and forced "
        "schedules, (c) regenerated synchronisation skeletons (Hive/Gen/C15_Skel.lean) stated as theorems",
        "Go toolchain and runtime (sync, sync/atomic, select, context, channels), compiled Lean driver",
        "verif hook valuenotifier.VerifBeforeSelect (build tag verif) used to park a waiter before its select"],
    "modelled": [
        "event.Event1 Hook/Unhook/Trigger/LinkTo/WithMaxTriggerCount/WithWorkerPool (hook level, event level, nil = in place)/"
        "WithPreTriggerFunc (event and hook level) "
        "as a sequential machine over hook records",
        "orderedmap.ForEach as used by Trigger: linked list with frozen next pointers of removed elements (weak iteration), any interleaving",
        "orderedmap.OrderedMap at pointer level (Hive/Model/EventsOMap.lean): heap of elements with key/value/prev/next, head, tail, "
        "dictionary, size; Set/Delete/Clear assignment by assignment, Head/Tail/Get/Has/Size/Clone, ForEach/ForEachReverse with "
        "mutations from inside the consumer; well-formedness over all histories and frozen pointers of removed elements proved",
        "trigger counters: one atomic Add per Trigger and per visited hook, any number of concurrent Trigger callers; one hook "
        "(EventsMax) and any number of hooks with own limits (EventsMaxN)",
        "LinkTo concurrent with Trigger: linkTo under its mutex (acquire, Unhook, Hook+store+release) against iterating triggers of the "
        "target and user Hook/Unhook callers, registry with frozen next pointers (Hive/Model/EventsRelink.lean)",
        "promise.Event1 Trigger/OnTrigger/unsubscribe with every critical section and every callback invocation as one step",
        "valuenotifier Notifier/Listener: sequential histories with repeated values; Wait's flag check, select and re-check as separate steps; "
        "the entry's reference count and per-listener deregistered flags with Deregister = atomic Swap / close / removeListener for any "
        "number of overlapping callers",
        "the whole valuenotifier as one concurrent system (Hive/Model/EventsNotifierConc.lean): map value -> channel, per-channel counts, "
        "listeners, every critical section one step; also executed call by call on every vn line of the harness",
        "pooled hook delivery: submitting triggers, workers, queue, pending-tasks counter (Hive/Model/EventsPool.lean)",
        "event.Hook / Hook.Unhook / ForEach on the pointer-level ordered map + hook counter as a concurrent system, simulated by the abstract registry",
        "NOT modelled: the generic arities other than Event1 (generated from one template), "
        "link cycles (the generator keeps links acyclic, a cycle recurses forever in the code), uint64 wrap-around of the counters, "
        "shrinkingmap internals, the worker pool itself (C16) — pooled hooks are observed after the pool drained"],
    "manifest": {
        "text": "Lean theorems. Events: C15_trigger_exactly_once / C15_pre_trigger / C15_pooled_exactly_once (every sequential history "
                "of New/Hook/Unhook/Trigger with limits, hook- and event-level pools, WithWorkerPool(nil), pre-trigger functions: a Trigger "
                "invokes exactly the hooks attached before and not unhooked whose limits are not used up, once each, in attachment order, "
                "with its argument, each preceded by the event's and the hook's pre-trigger call; pooled invocations are executed exactly "
                "once by the time the pools drained, given C16's task conservation), C15_weak_iteration (any interleaving of iterating "
                "Triggers with Hook/Unhook callers over the ordered map with frozen next pointers), C15_max_trigger_count(_never_more, "
                "_hooks, _seq) (any number of concurrent Trigger callers, any number of hooks with own limits: the event lets min(n,calls) "
                "through, every hook fires min(m_i,that)), C15_link (all histories incl. LinkTo: exactly one attached link hook, on the "
                "current target), C15_link_concurrent (LinkTo under its mutex concurrent with triggers and hookers: a trigger inside one "
                "link period fires the linked event exactly once, never through a hook removed before it began). Promise: "
                "C15_promise_once (any interleaving of OnTrigger/Trigger/unsubscribe: never twice, winner's argument, exactly once at "
                "quiescence whether registered before, during or after Trigger). Registry data structure: C15_orderedmap_wellformed / "
                "_frozen_pointers / _queries (pointer-level model of orderedmap.OrderedMap, all histories of Set/Delete/Clear: well-formed "
                "doubly linked list + dictionary + size; removed elements are never written again and keep the neighbours they had when "
                "removed — the assumptions of the weak-iteration model). Notifier: C15_notifier (sequential histories with repeated "
                "values), C15_notifier_wait_race (any interleaving of Wait/Deregister/Notify/cancel incl. overlapping Deregister calls of "
                "one listener; removeListener decrements the reference count unconditionally) and C15_notifier_count_exact (the count is "
                "exact under any concurrency - derived from the atomic Swap), and C15_notifier_concurrent / _hit (the whole notifier: any values, "
                "any listener generations, any pool of concurrent Listener / Notify / Deregister / Wait callers - the clause at the full "
                "strength of its quantifier): success only if Notify(value) lies "
                "between creation and deregistration; witnesses of the two repaired defects replayed on the code, and of the dependence on "
                "the atomic Swap. Pooled hooks: C15_pooled_drained (any submitting triggers and workers: when the pending counter is 0 the "
                "executed invocations are a permutation of the submitted ones) and C15_pooled_exactly_once_drained (composed: the "
                "conservation hypothesis discharged for the pool model). Registry refinement: C15_registry_simulation (pointer-level "
                "map + hook counter vs abstract registry, every iterator read agrees) and C15_weak_iteration_code (weak iteration on the "
                "code-level concurrent system by step-by-step simulation). Tie: differential runs of "
                "the ev/it/mn/pr/vn/om machines (it: Hook/Unhook/LinkTo from inside callbacks; mn: nested triggers on the counter protocol; "
                "om: the real OrderedMap with Set/Delete/Clear from inside ForEach/ForEachReverse consumers), "
                "the ar stream over the arity twins Event..Event9 incl. event- and hook-level worker pools (gated single-worker pools, "
                "oracle pool-routing), forced schedules through the verif hook (vr), stress traces "
                "(mt/pt/hw/hc/lk/lm/uu/vd/vy/vc/vx; vx = overlapping deregistrations of one listener, vy = Notify concurrent with creation / "
                "last deregistration / Wait with a logical-clock interval oracle) judged by Lean trace predicates / the notifier machine, "
                "a harness supervisor that turns a panic on a pool worker into a fatal-crash finding with the case's op lines, 24 regenerated synchronisation skeletons / type facts, the pinned "
                "source text of the orderedmap bodies, the uniformity obligations of the ten arity twins (bodies, type declarations, constructors, signatures, list of top-level "
                "declarations), independent Go oracles for every clause.",
        "note": "Trusted: Lean kernel; the hand-written models (tied as described); Go runtime semantics of atomics, select and channels as "
                "written into the protocol models; a trigger overlapping a re-link is only bounded (0..once per link hook), "
                "pooled delivery: own small pool model (queue, workers, pending counter), the real pool is C16's; arities other than Event1 through the uniformity obligation; link cycles not modelled.",
        "technique": "Lean 4 invariant proofs over all histories / all interleavings (Hive.Conc.Sys) + differential correspondence, "
                     "forced schedules and trace predicates",
    },
    "assumptions": [
        "links are acyclic (the code recurses forever on a link cycle)",
        "a callback is registered by one OnTrigger call (pairwise different callbacks) in C15_promise_once",
        "callbacks do not block; worker pools are running and eventually drain"],
}
