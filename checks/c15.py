SPEC = {
    "lean_props": "Hive.Props.C15",
    "lean_namespace": "Hive.C15",
    "driver": "drv_c15",
    "harness": "c15",
    "theorems": ["C15_notifier", "C15_notifier_wait_race", "C15_promise_once", "C15_max_trigger_count",
                 "C15_weak_iteration"],
    "trusted_base": [
        "hand-written models Hive/Model/Events*.lean of runtime/event, runtime/promise, runtime/valuenotifier and of orderedmap.ForEach, "
        "tied by differential execution and by trace predicates evaluated on recorded concurrent runs (harness/c15)",
        "Go toolchain and runtime (sync, sync/atomic, select, context), compiled Lean driver"],
    "modelled": [],
    "manifest": {"text": "", "note": "", "technique": ""},
    "assumptions": [],
}
