import os, sys
sys.path.insert(0, os.path.dirname(os.path.dirname(os.path.abspath(__file__))))
import checklib


def regen(ctx):
    return checklib.regen_skeletons(ctx, [
        "kvstore/batch_writer.go:BatchedWriter.Enqueue", "kvstore/batch_writer.go:BatchedWriter.startBatchWriter",
        "kvstore/batch_writer.go:BatchedWriter.StopBatchWriter", "kvstore/batch_writer.go:BatchedWriter.Flush",
        "kvstore/batch_writer.go:BatchedWriter.runBatchWriter", "kvstore/batch_collector.go:BatchCollector.Add",
        "kvstore/batch_collector.go:BatchCollector.Commit"],
        extra_methods=["BatchWriteScheduled", "ResetBatchWriteScheduled", "BatchWrite", "BatchWriteDone", "Commit", "Cancel", "Batched"])


SPEC = {
    "lean_props": "Hive.Props.C08",
    "regen": regen,
    "lean_namespace": "Hive.BatchWriter",
    "driver": "drv_c08",
    "harness": "c08",
    "race": True,
    "theorems": ["C08_written_before_done", "C08_done_once_per_scheduling", "C08_store_is_last_write",
                 "C08_only_stop_can_fail", "C08_stop_waits_partial", "C08_ok_partial", "C08_stop_waits_state_partial",
                 "C08_racing_enqueue_all_or_nothing_partial", "C08_no_block_forever_partial", "C08_window_counter",
                 "C08_racing_enqueue_witness", "C08_stop_waits_witness", "C08_no_block_forever_witness",
                 "C08_statement_witness", "C08_skeleton_Enqueue", "C08_skeleton_startBatchWriter",
                 "C08_skeleton_StopBatchWriter", "C08_skeleton_Flush", "C08_skeleton_runBatchWriter",
                 "C08_skeleton_collector_Add", "C08_skeleton_collector_Commit"],
    "trusted_base": ["hand-written protocol model Hive/Model/BatchWriter.lean of kvstore/batch_writer.go + batch_collector.go, tied by (a) the trace predicate evaluated on traces of the real code, (b) the witness schedules replayed on the real code with trace equality, (c) regenerated synchronisation skeletons",
                     "Go semantics of sync.Once / Mutex / WaitGroup / atomics / buffered channels / select as written in the model",
                     "Go toolchain, compiled Lean driver, harness trace recorder (one mutex-ordered event log)"],
    "modelled": ["Enqueue, startBatchWriter, StopBatchWriter, Flush, runBatchWriter, BatchCollector.Add/Commit as one atomic step per synchronisation-relevant operation",
                 "the batch time-out timer may fire at any step (abstract time)",
                 "store errors (Batched()/Commit() failing => writer panics), Int32 overflow of scheduledCount and batch size 0 are NOT modelled",
                 "BatchWriteObject implementations are the harness's (flag test-and-set, version counter)"],
    "manifest": {
        "text": "Protocol model (Hive.Conc.Sys) of BatchedWriter Enqueue/Stop/Flush/writer goroutine/collector with arbitrary queue size, batch size and thread pool; the property is the decidable trace predicate Spec.BatchWriter.ok/okFinal. Full-strength theorems over every reachable configuration: C08_written_before_done, C08_done_once_per_scheduling, C08_store_is_last_write, C08_only_stop_can_fail. Partial (hypothesis: no producer between its running check and scheduledCount.Add(1) when Stop clears running, ghost flag raced=false, C08_window_counter): C08_stop_waits_partial, C08_ok_partial, C08_stop_waits_state_partial, C08_racing_enqueue_all_or_nothing_partial, C08_no_block_forever_partial (no reachable deadlock; eventual progress under fairness not formalised). The code violates the full statement (def C08_statement) in that window: C08_racing_enqueue_witness, C08_stop_waits_witness, C08_no_block_forever_witness, C08_statement_witness are proved schedules of the model, and the same schedules are forced on the real code (verif yield point in Enqueue, BatchWriteScheduled callback) with trace equality against the model's witness trace. Tie: every run's event trace (harness BatchWriteObjects + store wrapper, one mutex-ordered log) is judged by the Lean driver with the same predicate and by an independent index-based Go oracle; regenerated synchronisation skeletons (C08_skeleton_*).",
        "note": "Trusted: Lean kernel; hand-written model of batch_writer.go/batch_collector.go (tied by trace predicate on real traces, witness replay, skeleton regeneration); Go sync primitive semantics as modelled; store errors, counter overflow, batch size 0 not modelled; liveness only as deadlock freedom. One defect fixed (writeWg.Add before go), three recorded known findings share the Enqueue/Stop window.",
        "technique": "Lean 4 inductive invariants over an interleaving semantics with arbitrary thread pools + decidable trace predicate evaluated on recorded traces + forced-schedule replay",
    },
    "assumptions": ["producer identifiers distinct; every thread starts outside a call (Init)",
                    "_partial theorems: no producer between its running check and scheduledCount.Add(1) when Stop clears running (ghost flag raced = false)"],
}
