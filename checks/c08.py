SPEC = {
    "lean_props": "Hive.Props.C08",
    "lean_namespace": "Hive.BatchWriter",
    "driver": "drv_c08",
    "harness": "c08",
    "race": True,
    "theorems": [],
    "trusted_base": [],
    "modelled": [],
    "manifest": {"text": "", "note": "", "technique": ""},
    "assumptions": [],
}
