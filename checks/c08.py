import os, sys
sys.path.insert(0, os.path.dirname(os.path.dirname(os.path.abspath(__file__))))
import checklib


STMT_REQUESTS = [
    "kvstore/batch_writer.go:var=defaultOptions", "kvstore/batch_writer.go:NewBatchedWriter",
    "kvstore/batch_writer.go:Options.apply", "kvstore/batch_writer.go:WithQueueSize",
    "kvstore/batch_writer.go:WithBatchSize", "kvstore/batch_writer.go:WithBatchTimeout",
    "kvstore/batch_writer.go:BatchedWriter.startBatchWriter", "kvstore/batch_writer.go:BatchedWriter.StopBatchWriter",
    "kvstore/batch_writer.go:BatchedWriter.Enqueue", "kvstore/batch_writer.go:BatchedWriter.Flush",
    "kvstore/batch_writer.go:BatchedWriter.runBatchWriter", "kvstore/batch_collector.go:newBatchCollector",
    "kvstore/batch_collector.go:BatchCollector.Add", "kvstore/batch_collector.go:BatchCollector.Commit",
    "runtime/timeutil/timeutil.go:CleanupTimer"]


def install(ctx, out, new):
    """checklib.write_gen, except that an unchanged file (the normal case on the unchanged tree) is left alone without
    waiting for the lock of the shared lake project, which other owners' builds hold for minutes when the machine is busy."""
    try:
        if open(out).read() == new:
            return
    except OSError:
        pass
    checklib.write_gen(ctx, out, new)


def regen_stmts(ctx):
    """Regenerates lean/Hive/Gen/C08_Stmts.lean: the normalised statements (guards, arguments, constants, index
    expressions) of the anchored functions, pinned by the `C08_stmts_*` theorems."""
    out = os.path.join(checklib.LEAN, "Hive", "Gen", "C08_Stmts.lean")
    tmp = os.path.join(ctx.scratch, "C08_Stmts.lean")
    args = ["go", "run", "./c08/stmts", tmp, "Hive.Gen.C08Stmts"] + [os.path.join(ctx.repo, r) for r in STMT_REQUESTS]
    rc, log = checklib.sh(args, cwd=checklib.HARNESS, timeout=600)
    if rc != 0 or not os.path.exists(tmp):
        return [{"kind": "skeleton-extractor", "detail": checklib.tail(log, 20)}]
    install(ctx, out, open(tmp).read())
    return []


def regen_coll(ctx):
    """Regenerates lean/Hive/Gen/C08_Coll.lean: kvstore/batch_collector.go translated (go/ast) into terms of the small
    language of Hive/Model/BatchWriterColl.lean; Hive/Props/BatchWriterColl.lean proves what the terms do and that the
    protocol model's collector steps do the same."""
    out = os.path.join(checklib.LEAN, "Hive", "Gen", "C08_Coll.lean")
    tmp = os.path.join(ctx.scratch, "C08_Coll.lean")
    args = ["go", "run", "./c08/collgen", tmp, "Hive.Gen.C08Coll", os.path.join(ctx.repo, "kvstore/batch_collector.go")]
    rc, log = checklib.sh(args, cwd=checklib.HARNESS, timeout=600)
    if rc != 0 or not os.path.exists(tmp):
        return [{"kind": "skeleton-extractor", "detail": checklib.tail(log, 20)}]
    install(ctx, out, open(tmp).read())
    return []


def regen_calls(ctx):
    """Regenerates lean/Hive/Gen/C08_Calls.lean: StopBatchWriter, Flush and startBatchWriter of kvstore/batch_writer.go
    translated (go/ast) into terms of the language of Hive/Model/BatchWriterCalls.lean; Hive/Props/BatchWriterCalls.lean
    proves that the protocol model's stepStop / stepFlush / startBatchWriter steps are the interpreted terms."""
    out = os.path.join(checklib.LEAN, "Hive", "Gen", "C08_Calls.lean")
    tmp = os.path.join(ctx.scratch, "C08_Calls.lean")
    args = ["go", "run", "./c08/callgen", tmp, "Hive.Gen.C08Calls", os.path.join(ctx.repo, "kvstore/batch_writer.go")]
    rc, log = checklib.sh(args, cwd=checklib.HARNESS, timeout=600)
    if rc != 0 or not os.path.exists(tmp):
        return [{"kind": "skeleton-extractor", "detail": checklib.tail(log, 20)}]
    install(ctx, out, open(tmp).read())
    return []


def regen_loop(ctx):
    """Regenerates lean/Hive/Gen/C08_Loop.lean: BatchedWriter.runBatchWriter translated (go/ast) into a term of the language
    of Hive/Model/BatchWriterLoop.lean; Hive/Props/BatchWriterLoop.lean proves that the protocol model's stepWriter is the
    interpreted compiled term at every resting point, and that every reachable writer state is such a point."""
    out = os.path.join(checklib.LEAN, "Hive", "Gen", "C08_Loop.lean")
    tmp = os.path.join(ctx.scratch, "C08_Loop.lean")
    args = ["go", "run", "./c08/loopgen", tmp, "Hive.Gen.C08Loop", os.path.join(ctx.repo, "kvstore/batch_writer.go")]
    rc, log = checklib.sh(args, cwd=checklib.HARNESS, timeout=600)
    if rc != 0 or not os.path.exists(tmp):
        return [{"kind": "skeleton-extractor", "detail": checklib.tail(log, 20)}]
    install(ctx, out, open(tmp).read())
    return []


def regen(ctx):
    fails = checklib.regen_skeletons(ctx, [
        "kvstore/batch_writer.go:BatchedWriter.Enqueue", "kvstore/batch_writer.go:BatchedWriter.startBatchWriter",
        "kvstore/batch_writer.go:BatchedWriter.StopBatchWriter", "kvstore/batch_writer.go:BatchedWriter.Flush",
        "kvstore/batch_writer.go:BatchedWriter.runBatchWriter", "kvstore/batch_collector.go:BatchCollector.Add",
        "kvstore/batch_collector.go:BatchCollector.Commit",
        "kvstore/batch_writer.go:type=BatchedWriter", "kvstore/batch_writer.go:type=Options",
        "kvstore/batch_collector.go:type=BatchCollector", "runtime/syncutils/mutex.go:type=Mutex"],
        extra_methods=["BatchWriteScheduled", "ResetBatchWriteScheduled", "BatchWrite", "BatchWriteDone", "Commit", "Cancel", "Batched"])
    return (fails or []) + regen_stmts(ctx) + regen_coll(ctx) + regen_calls(ctx) + regen_loop(ctx)


SPEC = {
    "lean_props": ["Hive.Props.C08", "Hive.Props.BatchWriterTie", "Hive.Props.BatchWriterColl", "Hive.Props.BatchWriterCalls", "Hive.Props.BatchWriterLoop"],
    "regen": regen,
    "lean_namespace": "Hive.BatchWriter",
    "driver": "drv_c08",
    "harness": "c08",
    "race": True,
    "theorems": ["C08_ok", "C08_written_before_done", "C08_done_once_per_scheduling", "C08_store_is_last_write",
                 "C08_stop_waits", "C08_stop_waits_state", "C08_racing_enqueue_all_or_nothing",
                 "C08_late_enqueue_backs_out", "C08_unbuffered_queue_empty", "C08_counter_in_int32_range", "C08_no_block_forever_partial", "C08_waits_for_ranked", "C08_statement_safety",
                 "C08_no_block_forever", "C08_enqueue_send_unblocked_by_writer", "C08_stop_wait_released", "C08_statement_holds",
                 "C08_store_error_safety", "C08_store_error_crash_is_final", "C08_failed_commit_batch_never_done",
                 "C08_store_error_stop_never_returns_witness", "C08_timeout_alternative_needed_witness",
                 "C08_old_racing_enqueue_witness", "C08_old_stop_waits_witness", "C08_old_no_block_forever_witness",
                 "C08_old_statement_witness", "C08_loop_condition_order_witness", "C08_skeleton_Enqueue", "C08_skeleton_startBatchWriter",
                 "C08_skeleton_StopBatchWriter", "C08_skeleton_Flush", "C08_skeleton_runBatchWriter",
                 "C08_skeleton_collector_Add", "C08_skeleton_collector_Commit",
                 "C08_skeleton_type_BatchedWriter", "C08_skeleton_type_Options", "C08_skeleton_type_BatchCollector", "C08_skeleton_type_Mutex",
                 "C08_collector_methods", "C08_collector_new_derived", "C08_collector_Add_derived", "C08_collector_Commit_derived",
                 "C08_collector_Commit_error_derived", "C08_collector_committed_panics", "C08_model_Add_is_collector_Add",
                 "C08_model_Commit_is_collector_Commit",
                 "C08_calls_flatten", "C08_model_Stop_is_source", "C08_model_Flush_is_source", "C08_model_startBatchWriter_is_source", "C08_calls_flatten_Enqueue", "C08_model_Enqueue_is_source",
                 "C08_loop_compile", "C08_model_writer_is_source", "C08_reachable_writer_is_source", "C08_swapped_source_is_swapped_model", "C08_nil_timer_channel_is_notimer_model", "C08_store_calls_are_source", "C08_stmts_var_defaultOptions", "C08_stmts_NewBatchedWriter", "C08_stmts_Options_apply", "C08_stmts_WithQueueSize", "C08_stmts_WithBatchSize", "C08_stmts_WithBatchTimeout", "C08_stmts_BatchedWriter_startBatchWriter", "C08_stmts_BatchedWriter_StopBatchWriter", "C08_stmts_BatchedWriter_Enqueue", "C08_stmts_BatchedWriter_Flush", "C08_stmts_BatchedWriter_runBatchWriter", "C08_stmts_newBatchCollector", "C08_stmts_BatchCollector_Add", "C08_stmts_BatchCollector_Commit", "C08_stmts_CleanupTimer"],
    "trusted_base": ["the go/ast translators harness/c08/collgen, callgen and loopgen (pattern matching on source text; anything unrecognised becomes `.unsupported`) and the meaning given to their terms in Hive/Model/BatchWriterColl.lean / BatchWriterCalls.lean / BatchWriterLoop.lean (Go semantics of mutex, Once, WaitGroup, atomics, channel send / select as instruction steps): every function of the two anchored files is derived this way",
                     "hand-written protocol model Hive/Model/BatchWriter.lean of kvstore/batch_writer.go + batch_collector.go (now equal, step function by step function, to the interpreted generated programs), tied by (a) the trace predicate evaluated on traces of the real code, (b) the witness schedules replayed on the real code with trace equality, (c) regenerated synchronisation skeletons, type facts and normalised statements (guards, arguments, constants) of every anchored function",
                     "Go semantics of sync.Once / Mutex / WaitGroup / atomics / buffered and unbuffered channels / select as written in the model",
                     "Go toolchain, compiled Lean driver, harness trace recorder (one mutex-ordered event log)"],
    "modelled": ["Enqueue, startBatchWriter, StopBatchWriter, Flush, runBatchWriter, BatchCollector.Add/Commit as one atomic step per synchronisation-relevant operation",
                 "every queue size: buffered (bounded FIFO) and 0 = unbuffered (the send is a rendezvous hand-off to the writer's blocking or non-blocking select)",
                 "the batch time-out timer may fire at any step (abstract time): parameter `armed` of the derived writer - time.NewTimer(d) arms its channel for every d, so armed = true for every WithBatchTimeout value; armed = false (a nil channel) is the writer of sysNoTimer (C08_nil_timer_channel_is_notimer_model)",
                 "every batch size: the collector's size test `writtenValuesCounter >= batchSize` is the model's `bsize <= batch.length + 1`; sizes below 1 (one object per batch since fix 681b215) are the model's b = 0",
                 "store errors: sysE = sys + Batched()/Commit() of the writer goroutine may fail at any call => panic in the writer goroutine = death of the whole system (dead flag, no successor); a failed Commit applies nothing; simulated by sys (sysE_sim)",
                 "the Int32 counter is modelled as an integer, exact below 2^31 (C08_counter_in_int32_range)",
                 "variants kept for witnesses only: sysOld (Enqueue before the second fix), sysSwapped (loop condition loads swapped), sysNoTimer (no time-out alternative + Stop's wake-up flush, seeded r6-3)",
                 "BatchWriteObject implementations are the harness's (flag test-and-set, version counter, write modes set / delete / delete+set / set+delete; a delete is the value 0 of the trace predicate)"],
    "manifest": {
        "text": "Protocol model (Hive.Conc.Sys) of BatchedWriter Enqueue/Stop/Flush/writer goroutine/collector with arbitrary queue size (0 = unbuffered rendezvous), batch size and thread pool; the property is the decidable trace predicate Spec.BatchWriter.ok/okFinal. C08_statement_holds proves the statement at full strength, no hypothesis on the schedule: C08_ok (no check of the predicate ever fails), C08_written_before_done, C08_done_once_per_scheduling, C08_store_is_last_write, C08_stop_waits (per Stop call, any number of overlapping Stop callers), C08_stop_waits_state, C08_racing_enqueue_all_or_nothing (okFinal once the writer has terminated), C08_late_enqueue_backs_out, C08_unbuffered_queue_empty, and the third clause C08_no_block_forever: from every reachable configuration and for every unfinished call there is a continuation, in which the calling thread does not move, after which it can take a step - constructed by well-founded descent (blocked queue send: the writer alone reaches a select, C08_enqueue_send_unblocked_by_writer; Stop in Wait: announced producers finish, the writer drains, commits and exits, C08_stop_wait_released; mutex: the holder releases; Once: the body thread finishes), on top of C08_waits_for_ranked (waits-for ranks Once > startStopMutex > WaitGroup/queue > writer) and C08_no_block_forever_partial (no reachable deadlock). Store errors are modelled as the code has them (sysE: any Batched()/Commit() call of the writer goroutine may fail, the goroutine panics, the process dies; simulated by sys): C08_store_error_safety (the predicate holds up to the crash), C08_store_error_crash_is_final, C08_failed_commit_batch_never_done (objects of a batch whose Commit failed: written, not committed, never done, nothing of it in the store), C08_store_error_stop_never_returns_witness (the third clause cannot hold then: a waiting Stop never returns); C08_timeout_alternative_needed_witness (without the time-out alternative of collectValues, Stop waking the writer by a flush request instead, a proved schedule deadlocks with an object written and never committed). Parts of the model are derived from the source on every run (go/ast translators collgen / callgen -> generated Lean terms -> interpreter): the collector (C08_collector_{new,Add,Commit,Commit_error}_derived, C08_collector_methods, C08_collector_committed_panics; C08_model_Add_is_collector_Add and C08_model_Commit_is_collector_Commit: the model's collector steps do what the translated Add / Commit do, in the same order, for every batch and batch size) and StopBatchWriter, Flush, startBatchWriter, Enqueue (C08_model_Stop_is_source, C08_model_Flush_is_source, C08_model_startBatchWriter_is_source, C08_model_Enqueue_is_source: stepStop / stepFlush / stepProd are the interpreted generated programs, program counter by instruction index, the yield point fused into the running check) and the writer goroutine itself (loopgen: C08_loop_compile, C08_model_writer_is_source - stepWriter is the compiled runBatchWriter at every resting instruction and phase of Add / Commit, the flags fl / again being functions of the instruction index; C08_reachable_writer_is_source - every reachable state of a running writer is such a point, via the invariant FlagsOk). Three defects were repaired (writeWg.Add before go; Enqueue counts before it checks running; the collector appends instead of indexing, so batch sizes below 1 no longer kill the process); the old Enqueue protocol is kept as sysOld with proved violating schedules C08_old_*_witness. Tie: every run's event trace (harness BatchWriteObjects writing set / delete / delete+set / set+delete + store wrapper that reads the store back after every commit, one mutex-ordered log) is judged by the Lean driver with the same predicate and by an independent index-based Go oracle (last BatchWrite per object wins, per commit and at the end); stress runs have 1-3 concurrent Stop callers, batch time-outs negative / 0 / 1ns / 1..50 ms / 250 ms, batch sizes 1..4 or default and - in a child process - 0, -1 and math.MinInt, queue sizes 0 (unbuffered) / 1..4 / default; same-batch scenario re-enqueues one object into one open batch with every pair of write modes; thousands of fresh writers per run race their very first Enqueue with StopBatchWriter (and a second Enqueue) from a spin barrier, each with a watchdog; the formerly failing schedules and a two-overlapping-Stops schedule are forced on the real code (verif yield point in Enqueue, BatchWriteScheduled callback), on buffered and unbuffered queues, and must reproduce, per participant, the model's trace on the corresponding Lean schedule; forced flush scenarios (one flush spanning several batches with the collector replaced inside the flush; a flush request pending while Stop clears running) and store-fail (child process, k-th Commit()/Batched() of the store fails: the process must die there, nothing done / committed / returned afterwards) each reproduce the model's witness run; every run's writer-goroutine log including its store calls (Batched, Cancel) and its termination must be a labelled run of the model's writer (wconfs); regenerated synchronisation skeletons (C08_skeleton_*), type facts (C08_skeleton_type_*) and normalised statements of all anchored functions, option constructors, NewBatchedWriter, newBatchCollector and the default options (C08_stmts_*).",
        "note": "Trusted: Lean kernel; hand-written model of batch_writer.go/batch_collector.go (tied by trace predicate on real traces, forced-schedule replay, skeleton / type / statement regeneration); Go sync primitive semantics (sequentially consistent atomics, Once, Mutex, WaitGroup, buffered and unbuffered channels, select) as modelled; a failed Commit applies nothing (atomic batches); counter exact below 2^31 concurrent announcements; liveness as 'every blocked call can be unblocked by a finite continuation that does not move it' (no scheduler / fairness model).",
        "technique": "Lean 4 inductive invariants over an interleaving semantics with arbitrary thread pools + constructed unblocking continuations by well-founded descent + decidable trace predicate evaluated on recorded traces + forced-schedule replay",
    },
    "assumptions": ["producer identifiers distinct; every thread starts outside a call (Init)",
                    "a writer token is in the pool (C08_no_block_forever, C08_no_block_forever_partial)"],
}
