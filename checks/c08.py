import os, sys
sys.path.insert(0, os.path.dirname(os.path.dirname(os.path.abspath(__file__))))
import checklib


STMT_REQUESTS = [
    "kvstore/batch_writer.go:var=defaultOptions", "kvstore/batch_writer.go:NewBatchedWriter",
    "kvstore/batch_writer.go:Options.apply", "kvstore/batch_writer.go:WithQueueSize",
    "kvstore/batch_writer.go:WithBatchSize", "kvstore/batch_writer.go:WithBatchTimeout",
    "kvstore/batch_writer.go:BatchedWriter.startBatchWriter", "kvstore/batch_writer.go:BatchedWriter.StopBatchWriter",
    "kvstore/batch_writer.go:BatchedWriter.Enqueue", "kvstore/batch_writer.go:BatchedWriter.Flush",
    "kvstore/batch_writer.go:BatchedWriter.runBatchWriter", "kvstore/batch_collector.go:newBatchCollector",
    "kvstore/batch_collector.go:BatchCollector.Add", "kvstore/batch_collector.go:BatchCollector.Commit"]


def regen_stmts(ctx):
    """Regenerates lean/Hive/Gen/C08_Stmts.lean: the normalised statements (guards, arguments, constants, index
    expressions) of the anchored functions, pinned by the `C08_stmts_*` theorems."""
    out = os.path.join(checklib.LEAN, "Hive", "Gen", "C08_Stmts.lean")
    tmp = os.path.join(ctx.scratch, "C08_Stmts.lean")
    args = ["go", "run", "./c08/stmts", tmp, "Hive.Gen.C08Stmts"] + [os.path.join(ctx.repo, r) for r in STMT_REQUESTS]
    rc, log = checklib.sh(args, cwd=checklib.HARNESS, timeout=600)
    if rc != 0 or not os.path.exists(tmp):
        return [{"kind": "skeleton-extractor", "detail": checklib.tail(log, 20)}]
    checklib.write_gen(ctx, out, open(tmp).read())
    return []


def regen(ctx):
    fails = checklib.regen_skeletons(ctx, [
        "kvstore/batch_writer.go:BatchedWriter.Enqueue", "kvstore/batch_writer.go:BatchedWriter.startBatchWriter",
        "kvstore/batch_writer.go:BatchedWriter.StopBatchWriter", "kvstore/batch_writer.go:BatchedWriter.Flush",
        "kvstore/batch_writer.go:BatchedWriter.runBatchWriter", "kvstore/batch_collector.go:BatchCollector.Add",
        "kvstore/batch_collector.go:BatchCollector.Commit",
        "kvstore/batch_writer.go:type=BatchedWriter", "kvstore/batch_writer.go:type=Options",
        "kvstore/batch_collector.go:type=BatchCollector"],
        extra_methods=["BatchWriteScheduled", "ResetBatchWriteScheduled", "BatchWrite", "BatchWriteDone", "Commit", "Cancel", "Batched"])
    return (fails or []) + regen_stmts(ctx)


SPEC = {
    "lean_props": ["Hive.Props.C08", "Hive.Props.BatchWriterTie"],
    "regen": regen,
    "lean_namespace": "Hive.BatchWriter",
    "driver": "drv_c08",
    "harness": "c08",
    "race": True,
    "theorems": ["C08_ok", "C08_written_before_done", "C08_done_once_per_scheduling", "C08_store_is_last_write",
                 "C08_stop_waits", "C08_stop_waits_state", "C08_racing_enqueue_all_or_nothing",
                 "C08_late_enqueue_backs_out", "C08_unbuffered_queue_empty", "C08_no_block_forever_partial", "C08_waits_for_ranked", "C08_statement_safety",
                 "C08_old_racing_enqueue_witness", "C08_old_stop_waits_witness", "C08_old_no_block_forever_witness",
                 "C08_old_statement_witness", "C08_skeleton_Enqueue", "C08_skeleton_startBatchWriter",
                 "C08_skeleton_StopBatchWriter", "C08_skeleton_Flush", "C08_skeleton_runBatchWriter",
                 "C08_skeleton_collector_Add", "C08_skeleton_collector_Commit",
                 "C08_skeleton_type_BatchedWriter", "C08_skeleton_type_Options", "C08_skeleton_type_BatchCollector", "C08_stmts_var_defaultOptions", "C08_stmts_NewBatchedWriter", "C08_stmts_Options_apply", "C08_stmts_WithQueueSize", "C08_stmts_WithBatchSize", "C08_stmts_WithBatchTimeout", "C08_stmts_BatchedWriter_startBatchWriter", "C08_stmts_BatchedWriter_StopBatchWriter", "C08_stmts_BatchedWriter_Enqueue", "C08_stmts_BatchedWriter_Flush", "C08_stmts_BatchedWriter_runBatchWriter", "C08_stmts_newBatchCollector", "C08_stmts_BatchCollector_Add", "C08_stmts_BatchCollector_Commit"],
    "trusted_base": ["hand-written protocol model Hive/Model/BatchWriter.lean of kvstore/batch_writer.go + batch_collector.go, tied by (a) the trace predicate evaluated on traces of the real code, (b) the witness schedules replayed on the real code with trace equality, (c) regenerated synchronisation skeletons",
                     "Go semantics of sync.Once / Mutex / WaitGroup / atomics / buffered channels / select as written in the model",
                     "Go toolchain, compiled Lean driver, harness trace recorder (one mutex-ordered event log)"],
    "modelled": ["Enqueue, startBatchWriter, StopBatchWriter, Flush, runBatchWriter, BatchCollector.Add/Commit as one atomic step per synchronisation-relevant operation",
                 "the batch time-out timer may fire at any step (abstract time)",
                 "store errors (Batched()/Commit() failing => writer panics), Int32 overflow of scheduledCount and batch size 0 are NOT modelled",
                 "BatchWriteObject implementations are the harness's (flag test-and-set, version counter)"],
    "manifest": {
        "text": "Protocol model (Hive.Conc.Sys) of BatchedWriter Enqueue/Stop/Flush/writer goroutine/collector with arbitrary queue size, batch size and thread pool; the property is the decidable trace predicate Spec.BatchWriter.ok/okFinal. Full-strength theorems over every reachable configuration, no hypothesis on the schedule: C08_ok (no check of the predicate ever fails), C08_written_before_done, C08_done_once_per_scheduling, C08_store_is_last_write, C08_stop_waits (per Stop call, any number of overlapping Stop callers), C08_stop_waits_state, C08_racing_enqueue_all_or_nothing (okFinal once the writer has terminated), C08_late_enqueue_backs_out, C08_statement_safety. Partial: C08_no_block_forever_partial proves that no reachable configuration is a deadlock, C08_waits_for_ranked that every blocked call waits, through at most three resources taken in the fixed order Once > startStopMutex > WaitGroup/queue > writer goroutine, for a thread that can move (the Once is a lock class); eventual progress of every blocked call under fair scheduling (third clause of C08_statement) is not formalised. Two defects were repaired (writeWg.Add before go; Enqueue counts before it checks running); the old Enqueue protocol is kept as sysOld with proved violating schedules C08_old_racing_enqueue_witness, C08_old_stop_waits_witness, C08_old_no_block_forever_witness, C08_old_statement_witness. Tie: every run's event trace (harness BatchWriteObjects + store wrapper, one mutex-ordered log) is judged by the Lean driver with the same predicate and by an independent index-based Go oracle; stress runs have 1-3 concurrent Stop callers, batch time-outs negative / 0 / 1ns / 1..50 ms / 250 ms and batch and queue sizes 1..4 or the defaults; thousands of fresh writers per run race their very first Enqueue with StopBatchWriter (and a second Enqueue) from a spin barrier, each with a watchdog; the three formerly failing schedules and a two-overlapping-Stops schedule (BatchWrite held on a channel) are forced on the real code (verif yield point in Enqueue, BatchWriteScheduled callback) and must reproduce, per participant, the model's trace on the corresponding Lean schedule; regenerated synchronisation skeletons (C08_skeleton_*).",
        "note": "Trusted: Lean kernel; hand-written model of batch_writer.go/batch_collector.go (tied by trace predicate on real traces, forced-schedule replay, skeleton regeneration); Go sync primitive semantics (sequentially consistent atomics, Once, Mutex, WaitGroup, buffered channels, select) as modelled; store errors, counter overflow, batch size 0 not modelled; liveness only as deadlock freedom.",
        "technique": "Lean 4 inductive invariants over an interleaving semantics with arbitrary thread pools + decidable trace predicate evaluated on recorded traces + forced-schedule replay",
    },
    "assumptions": ["producer identifiers distinct; every thread starts outside a call (Init)",
                    "a writer token is in the pool (C08_no_block_forever_partial)"],
}
