# Development configuration of C12 part A (./check C12A); merged with part B into checks/c12.py.
import os, subprocess, sys
sys.path.insert(0, os.path.dirname(os.path.dirname(os.path.abspath(__file__))))
import checklib

SM, RM = "ds/shrinkingmap/shrinkingmap.go", "ds/randommap/random_map.go"
GH, PQ, TPQ = "ds/generalheap/generalheap.go", "ds/priorityqueue/priorityqueue.go", "runtime/timed/priority_queue.go"
QU, RB = "ds/queue/queue.go", "ds/ringbuffer/ringbuffer.go"
SS, TS, ST = "ds/stack/simple_stack.go", "ds/stack/threadsafe_stack.go", "ds/stack/stack.go"

SM_METHODS = ["Set", "Get", "GetOrCreate", "Compute", "Has", "ForEachKey", "ForEach", "Pop", "Keys", "Values", "Size", "IsEmpty",
              "DeleteAndReturn", "Delete", "Clear", "delete", "AsMap", "shouldShrink", "Shrink", "shrink"]
RM_METHODS = ["Set", "Get", "Has", "Delete", "Size", "ForEach", "RandomKey", "RandomEntry", "RandomUniqueEntries", "Keys", "Values",
              "randomKey", "forEach"]
PQ_METHODS = ["Push", "Peek", "Pop", "PopUntil", "PopAll", "Size", "IsEmpty"]
QU_METHODS = ["Size", "Capacity", "ForceOffer", "Offer", "Poll", "poll"]
STACK_METHODS = ["Push", "Pop", "Peek", "Clear", "Size", "IsEmpty"]

# lock / callback skeletons (token lists), source pins (normalised statement text of the functions the models
# mirror line by line), declared functions per file, type facts
SKEL = ([f"{SM}:ShrinkingMap.{m}" for m in SM_METHODS] + [f"{RM}:RandomMap.{m}" for m in RM_METHODS] +
        [f"{PQ}:PriorityQueue.{m}" for m in PQ_METHODS] + [f"{QU}:Queue.{m}" for m in QU_METHODS] +
        [f"{RB}:RingBuffer.Add", f"{RB}:RingBuffer.ToSlice"] + [f"{TS}:threadSafeStack.{m}" for m in STACK_METHODS])
SRC = ([f"{SM}:src=ShrinkingMap.{m}" for m in ["Set", "GetOrCreate", "Compute", "Pop", "DeleteAndReturn", "Delete", "Clear", "delete",
                                                "shouldShrink", "shrink", "ForEach", "ForEachKey"]] +
       [f"{SM}:src=New"] +
       [f"{RM}:src=RandomMap.{m}" for m in ["Set", "Get", "Delete", "RandomKey", "RandomEntry", "RandomUniqueEntries", "Keys", "Values",
                                             "randomKey", "forEach"]] + [f"{RM}:src=New"] +
       [f"{GH}:src=Heap.{m}" for m in ["Len", "Less", "Swap", "Push", "Pop"]] + [f"{GH}:src=HeapElement.Index"] +
       [f"{PQ}:src=PriorityQueue.{m}" for m in PQ_METHODS] + [f"{PQ}:src=New"] +
       [f"{TPQ}:src={m}" for m in ["NewPriorityQueue", "priorityQueueAscending.Push", "priorityQueueAscending.PopUntil",
                                    "timeAscending.CompareTo", "priorityQueueDescending.Push", "priorityQueueDescending.PopUntil",
                                    "timeDescending.CompareTo"]] +
       [f"{QU}:src=Queue.{m}" for m in ["ForceOffer", "Offer", "poll"]] + [f"{QU}:src=New"] +
       [f"{RB}:src=RingBuffer.Add", f"{RB}:src=RingBuffer.ToSlice", f"{RB}:src=NewRingBuffer"] +
       [f"{SS}:src=simpleStack.{m}" for m in STACK_METHODS] + [f"{ST}:src=New"])
FUNCS = [f"{f}:funcs" for f in (SM, RM, GH, PQ, TPQ, QU, RB, SS, TS)]
TYPES = [f"{SM}:type=ShrinkingMap", f"{SM}:type=Options", f"{RM}:type=RandomMap", f"{RM}:type=randomMapEntry",
         f"{GH}:type=Heap", f"{GH}:type=HeapElement", f"{PQ}:type=PriorityQueue", f"{TPQ}:type=priorityQueueAscending",
         f"{TPQ}:type=priorityQueueDescending", f"{TPQ}:type=timeAscending", f"{TPQ}:type=timeDescending",
         f"{QU}:type=Queue", f"{RB}:type=RingBuffer", f"{SS}:type=simpleStack", f"{TS}:type=threadSafeStack"]
# container/heap of the toolchain: the model's up / down / Push / Pop / Remove are these functions verbatim
STDHEAP = ["src=up", "src=down", "src=Push", "src=Pop", "src=Remove", "src=Fix", "src=Init"]
CALLS = ["delete", "shouldShrink", "shrink", "Get", "Set", "Delete", "Size", "Has", "ForEach", "forEach", "randomKey", "Push", "Pop",
         "Peek", "Clear", "IsEmpty", "Len", "poll", "Remove", "Index"]


def regen(ctx):
    """Regenerates lean/Hive/Gen/C12a_Skel.lean (the same file for ./check C12A and ./check C12) with harness/c12/skel."""
    out = os.path.join(checklib.LEAN, "Hive", "Gen", "C12a_Skel.lean")
    tmp = os.path.join(ctx.scratch, "C12a_Skel.lean")
    goroot = subprocess.run(["go", "env", "GOROOT"], capture_output=True, text=True).stdout.strip()
    stdheap = os.path.join(goroot, "src", "container", "heap", "heap.go")
    args = (["go", "run", "./c12/skel", tmp, "Hive.Gen.C12aSkel"] + ["+" + m for m in CALLS] +
            [os.path.join(ctx.repo, r) for r in SKEL + SRC + FUNCS + TYPES] + [stdheap + ":" + r for r in STDHEAP])
    rc, log = checklib.sh(args, cwd=checklib.HARNESS, timeout=600)
    if rc != 0 or not os.path.exists(tmp):
        return [{"kind": "skeleton-extractor", "detail": checklib.tail(log, 20)}]
    checklib.write_gen(ctx, out, open(tmp).read())
    return []


# obligations of Hive/Props/C12aSkel.lean (one per regenerated definition)
SKELETON_THEOREMS = [
    "C12_skeleton_ShrinkingMap_Set", "C12_skeleton_ShrinkingMap_Get", "C12_skeleton_ShrinkingMap_GetOrCreate",
    "C12_skeleton_ShrinkingMap_Compute", "C12_skeleton_ShrinkingMap_Has", "C12_skeleton_ShrinkingMap_ForEachKey",
    "C12_skeleton_ShrinkingMap_ForEach", "C12_skeleton_ShrinkingMap_Pop", "C12_skeleton_ShrinkingMap_Keys",
    "C12_skeleton_ShrinkingMap_Values", "C12_skeleton_ShrinkingMap_Size", "C12_skeleton_ShrinkingMap_IsEmpty",
    "C12_skeleton_ShrinkingMap_DeleteAndReturn", "C12_skeleton_ShrinkingMap_Delete",
    "C12_skeleton_ShrinkingMap_Clear", "C12_skeleton_ShrinkingMap_delete", "C12_skeleton_ShrinkingMap_AsMap",
    "C12_skeleton_ShrinkingMap_shouldShrink", "C12_skeleton_ShrinkingMap_Shrink", "C12_skeleton_ShrinkingMap_shrink",
    "C12_skeleton_RandomMap_Set", "C12_skeleton_RandomMap_Get", "C12_skeleton_RandomMap_Has",
    "C12_skeleton_RandomMap_Delete", "C12_skeleton_RandomMap_Size", "C12_skeleton_RandomMap_ForEach",
    "C12_skeleton_RandomMap_RandomKey", "C12_skeleton_RandomMap_RandomEntry",
    "C12_skeleton_RandomMap_RandomUniqueEntries", "C12_skeleton_RandomMap_Keys", "C12_skeleton_RandomMap_Values",
    "C12_skeleton_RandomMap_randomKey", "C12_skeleton_RandomMap_forEach", "C12_skeleton_PriorityQueue_Push",
    "C12_skeleton_PriorityQueue_Peek", "C12_skeleton_PriorityQueue_Pop", "C12_skeleton_PriorityQueue_PopUntil",
    "C12_skeleton_PriorityQueue_PopAll", "C12_skeleton_PriorityQueue_Size", "C12_skeleton_PriorityQueue_IsEmpty",
    "C12_skeleton_Queue_Size", "C12_skeleton_Queue_Capacity", "C12_skeleton_Queue_ForceOffer",
    "C12_skeleton_Queue_Offer", "C12_skeleton_Queue_Poll", "C12_skeleton_Queue_poll", "C12_skeleton_RingBuffer_Add",
    "C12_skeleton_RingBuffer_ToSlice", "C12_skeleton_threadSafeStack_Push", "C12_skeleton_threadSafeStack_Pop",
    "C12_skeleton_threadSafeStack_Peek", "C12_skeleton_threadSafeStack_Clear", "C12_skeleton_threadSafeStack_Size",
    "C12_skeleton_threadSafeStack_IsEmpty", "C12_source_shrinkingmap_ShrinkingMap_Set",
    "C12_source_shrinkingmap_ShrinkingMap_GetOrCreate", "C12_source_shrinkingmap_ShrinkingMap_Compute",
    "C12_source_shrinkingmap_ShrinkingMap_Pop", "C12_source_shrinkingmap_ShrinkingMap_DeleteAndReturn",
    "C12_source_shrinkingmap_ShrinkingMap_Delete", "C12_source_shrinkingmap_ShrinkingMap_Clear",
    "C12_source_shrinkingmap_ShrinkingMap_delete", "C12_source_shrinkingmap_ShrinkingMap_shouldShrink",
    "C12_source_shrinkingmap_ShrinkingMap_shrink", "C12_source_shrinkingmap_ShrinkingMap_ForEach",
    "C12_source_shrinkingmap_ShrinkingMap_ForEachKey", "C12_source_shrinkingmap_New",
    "C12_source_random_map_RandomMap_Set", "C12_source_random_map_RandomMap_Get",
    "C12_source_random_map_RandomMap_Delete", "C12_source_random_map_RandomMap_RandomKey",
    "C12_source_random_map_RandomMap_RandomEntry", "C12_source_random_map_RandomMap_RandomUniqueEntries",
    "C12_source_random_map_RandomMap_Keys", "C12_source_random_map_RandomMap_Values",
    "C12_source_random_map_RandomMap_randomKey", "C12_source_random_map_RandomMap_forEach",
    "C12_source_random_map_New", "C12_source_generalheap_Heap_Len", "C12_source_generalheap_Heap_Less",
    "C12_source_generalheap_Heap_Swap", "C12_source_generalheap_Heap_Push", "C12_source_generalheap_Heap_Pop",
    "C12_source_generalheap_HeapElement_Index", "C12_source_priorityqueue_PriorityQueue_Push",
    "C12_source_priorityqueue_PriorityQueue_Peek", "C12_source_priorityqueue_PriorityQueue_Pop",
    "C12_source_priorityqueue_PriorityQueue_PopUntil", "C12_source_priorityqueue_PriorityQueue_PopAll",
    "C12_source_priorityqueue_PriorityQueue_Size", "C12_source_priorityqueue_PriorityQueue_IsEmpty",
    "C12_source_priorityqueue_New", "C12_source_priority_queue_NewPriorityQueue",
    "C12_source_priority_queue_priorityQueueAscending_Push",
    "C12_source_priority_queue_priorityQueueAscending_PopUntil", "C12_source_priority_queue_timeAscending_CompareTo",
    "C12_source_priority_queue_priorityQueueDescending_Push",
    "C12_source_priority_queue_priorityQueueDescending_PopUntil",
    "C12_source_priority_queue_timeDescending_CompareTo", "C12_source_queue_Queue_ForceOffer",
    "C12_source_queue_Queue_Offer", "C12_source_queue_Queue_poll", "C12_source_queue_New",
    "C12_source_ringbuffer_RingBuffer_Add", "C12_source_ringbuffer_RingBuffer_ToSlice",
    "C12_source_ringbuffer_NewRingBuffer", "C12_source_simple_stack_simpleStack_Push",
    "C12_source_simple_stack_simpleStack_Pop", "C12_source_simple_stack_simpleStack_Peek",
    "C12_source_simple_stack_simpleStack_Clear", "C12_source_simple_stack_simpleStack_Size",
    "C12_source_simple_stack_simpleStack_IsEmpty", "C12_source_stack_New", "C12_skeleton_funcs_shrinkingmap",
    "C12_skeleton_funcs_random_map", "C12_skeleton_funcs_generalheap", "C12_skeleton_funcs_priorityqueue",
    "C12_skeleton_funcs_priority_queue", "C12_skeleton_funcs_queue", "C12_skeleton_funcs_ringbuffer",
    "C12_skeleton_funcs_simple_stack", "C12_skeleton_funcs_threadsafe_stack", "C12_skeleton_type_ShrinkingMap",
    "C12_skeleton_type_Options", "C12_skeleton_type_RandomMap", "C12_skeleton_type_randomMapEntry",
    "C12_skeleton_type_Heap", "C12_skeleton_type_HeapElement", "C12_skeleton_type_PriorityQueue",
    "C12_skeleton_type_priorityQueueAscending", "C12_skeleton_type_priorityQueueDescending",
    "C12_skeleton_type_timeAscending", "C12_skeleton_type_timeDescending", "C12_skeleton_type_Queue",
    "C12_skeleton_type_RingBuffer", "C12_skeleton_type_simpleStack", "C12_skeleton_type_threadSafeStack",
    "C12_source_heap_up", "C12_source_heap_down", "C12_source_heap_Push", "C12_source_heap_Pop",
    "C12_source_heap_Remove", "C12_source_heap_Fix", "C12_source_heap_Init",
]

SPEC = {
    "regen": regen,
    "lean_props": ["Hive.Props.C12", "Hive.Props.C12aSkel"],
    "lean_namespace": "Hive.C12a",
    "theorem_prefix": "C12",
    "driver": "drv_c12",
    "harness": "c12",
    "theorems": SKELETON_THEOREMS + [
                 "C12_shrink_callbacks_atomic", "C12_shrink_callbacks_no_deadlock", "C12_shrink_early_condition_witness",
                 "C12_shrink_history_check_sound", "C12_shrink_foreach_snapshot",
                 "C12_shrink_refines_plain_map", "C12_shrink_rule_unobservable", "C12_shrink_thresholds_unobservable", "C12_shrink_rule_ieee_specials",
                 "C12_plain_map_laws", "C12_shrink_garbage_le_deleted", "C12_shrink_count_threshold_bounds_garbage",
                 "C12_rmap_index_invariant", "C12_rmap_refines_plain_map", "C12_rmap_pick_is_member", "C12_rmap_unique_entries", "C12_rmap_keys_owned", "C12_rmap_keys_view_is_model", "C12_rmap_keys_alias_witness", "C12_rmap_keys_scratch_witness",
                 "C12_heap_invariant", "C12_heap_pop_is_best", "C12_heap_remove_idempotent", "C12_heap_pop_in_priority_order",
                 "C12_heap_refines_priority_multiset", "C12_heap_depends_only_on_sign",
                 "C12_queue_bounded_fifo", "C12_queue_ring_invariant", "C12_ring_refines_window", "C12_ring_toSlice_last_min_n_cap",
                 "C12_stack_lifo"],
    "trusted_base": ["hand-written models Hive/Model/C12a*.lean of ds/shrinkingmap, ds/randommap (incl. the memory-level model C12aOwn of the key slice and of the slices Keys() hands out), ds/generalheap + container/heap (comparator abstract: any CompareTo whose sign is a total preorder), ds/priorityqueue, runtime/timed/priority_queue.go, ds/queue, ds/ringbuffer, ds/stack, tied by differential execution with the white-box state compared after every operation (harness/c12) and by regenerated skeleton / source / type obligations (harness/c12/skel, Hive/Props/C12aSkel.lean)",
                     "sync.RWMutex excludes (lock bit of the protocol model Cb.sys); go/ast extractor harness/c12/skel",
                     "Go toolchain, compiled Lean driver"],
    "modelled": ["Go map iteration order is not modelled: iteration results are compared sorted",
                 "math/rand is an explicit oracle argument in the model; the tie compares membership, count and distinctness of random picks",
                 "float32 rounding of the shrink ratio is not modelled (ratio = exact fraction; NaN / +Inf / -Inf are modelled by their effect on shouldShrink, C12_shrink_rule_ieee_specials)",
                 "the Priority / Key type parameter of the heaps is an abstract comparator (every CompareTo whose sign is a total preorder); a CompareTo that wraps around (a - b on keys more than 2^63 apart) is outside",
                 "aliasing: answers are values in the pure models; the memory-level model Own (RandomMap.keys and the slices Keys() returns, callers writing into them) justifies that for RandomMap, the retained-answer / scribble oracles test it for every container that hands out collections",
                 "mutexes: ShrinkingMap's callback-taking operations have a lock protocol model (Cb.sys, any number of callers) tied by forced callback-window schedules; the other containers are modelled as atomicity of each method (sequential histories), their lock structure is pinned by skeleton obligations",
                 "capacity 0 of Queue/RingBuffer (panics) is outside the property"],
    "manifest": {
        "text": "Part A of C12: refinement theorems (every history, every option setting) for ShrinkingMap, RandomMap, generalheap/PriorityQueue/timed.PriorityQueue, Queue, RingBuffer, Stack against their abstract models; atomicity of ShrinkingMap's callback-taking operations for any number of callers (lock protocol invariant, linearizability check of forced callback-window schedules); the heap theorems hold for every legal comparator of the Priority / Key type parameter (abstract Heap.Cmp; C12_heap_depends_only_on_sign) and the tie instantiates it with six Go types (-1/0/1, a-b, +-2^40, MinInt/MaxInt, -3/5, -2/1); a memory-level model of RandomMap's key slice with callers writing into the slices Keys() returned (C12_rmap_keys_owned) tied by its own stream; line-by-line differential tie with the white-box state after every operation, retained-answer / aliasing oracles, an in-Go abstract-model oracle per container, and 144 regenerated skeleton / source / type obligations.",
        "note": "Trusted: Lean kernel; hand-written models (tie = differential execution).",
        "technique": "Lean 4 refinement / invariant proofs by induction over operation histories + differential correspondence",
    },
    "assumptions": ["sequential use (one call at a time); capacities > 0"],
}
