# Development configuration of C12 part A (./check C12A); merged with part B into checks/c12.py.
SPEC = {
    "lean_props": "Hive.Props.C12",
    "lean_namespace": "Hive.C12a",
    "theorem_prefix": "C12",
    "driver": "drv_c12",
    "harness": "c12",
    "trusted_base": ["hand-written models Hive/Model/C12a*.lean of ds/shrinkingmap, ds/randommap, ds/generalheap + container/heap, ds/priorityqueue, runtime/timed/priority_queue.go, ds/queue, ds/ringbuffer, ds/stack, tied by differential execution (harness/c12)",
                     "Go toolchain, compiled Lean driver"],
    "modelled": ["Go map iteration order is not modelled: iteration results are compared sorted",
                 "math/rand is an explicit oracle argument in the model; the tie compares membership, count and distinctness of random picks",
                 "float32 rounding of the shrink ratio is not modelled (ratio = fraction of naturals)",
                 "mutexes are modelled as atomicity of each method (sequential histories only)",
                 "capacity 0 of Queue/RingBuffer (panics) is outside the property"],
    "manifest": {
        "text": "Part A of C12: refinement theorems (every history, every option setting) for ShrinkingMap, RandomMap, generalheap/PriorityQueue/timed.PriorityQueue, Queue, RingBuffer, Stack against their abstract models; line-by-line differential tie plus an in-Go abstract-model oracle per container.",
        "note": "Trusted: Lean kernel; hand-written models (tie = differential execution).",
        "technique": "Lean 4 refinement / invariant proofs by induction over operation histories + differential correspondence",
    },
    "assumptions": ["sequential use (one call at a time); capacities > 0"],
}
