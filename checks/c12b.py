SPEC = {
    "theorem_prefix": "C12",
    "lean_props": "Hive.Props.C12b",
    "lean_namespace": "Hive.C12b",
    "driver": "drv_c12b",
    "harness": "c12b",
    "trusted_base": ["hand-written models Hive/Model/C12b*.lean of bytesfilter, walker, timeheap, indexedstorage, onchangemap, subscriptionmanager, tied by differential execution (harness/c12b)",
                     "Go toolchain, compiled Lean driver"],
    "modelled": [],
    "manifest": {},
    "assumptions": [],
}
