# Development configuration for part B of C12 (./check C12B); merged into checks/c12.py with part A.
SPEC = {
    "theorem_prefix": "C12",
    "lean_props": "Hive.Props.C12b",
    "lean_namespace": "Hive.C12b",
    "driver": "drv_c12b",
    "harness": "c12b",
    "theorems": [
        "C12_bytesfilter_refines", "C12_bytesfilter_last_n", "C12_bytesfilter_accepted",
        "C12_walker_refines", "C12_walker_every_element_once", "C12_walker_revisit_yields_all",
        "C12_walker_next_is_front", "C12_walker_push_semantics", "C12_walker_old_pushfront_witness",
        "C12_timeheap_refines", "C12_timeheap_total_is_heap_sum", "C12_timeheap_fixed_window",
        "C12_timeheap_old_clear_witness",
        "C12_indexedstorage_refines", "C12_indexedstorage_iteration_mirrors", "C12_indexedstorage_no_aliasing",
        "C12_onchangemap_keyed_store", "C12_onchangemap_changed_snapshot", "C12_onchangemap_callbacks_mirror",
        "C12_submgr_topic_count_is_sum", "C12_submgr_topic_iff_client", "C12_submgr_events_mirror",
        "C12_submgr_forced_drop", "C12_submgr_old_limit_path_witness",
    ],
    "trusted_base": [
        "hand-written models Hive/Model/C12b*.lean of ds/bytesfilter, ds/walker, ds/timeheap, core/memstorage/indexedstorage.go, "
        "ds/onchangemap, web/subscriptionmanager, tied by differential execution (harness/c12b, driver drv_c12b)",
        "Go toolchain, compiled Lean driver",
        "TimeHeap has no clock injection: the harness's shift clock rewrites the timestamps of the heap entries through reflect/unsafe "
        "(layout checked at start-up) and is cross-checked by cases against the real clock with sleeps",
    ],
    "modelled": [
        "Go maps / ShrinkingMaps as duplicate-free association lists (shrinking is unobservable: part A); iteration order canonicalised by sorting",
        "BytesFilter: slice + set, size 0 panics on Add (totalised); identifiers are Nat, newIdentifierFunc is injective in the harness",
        "Walker: queue + insertion-ordered pushed set + flags; Next on an empty queue panics (totalised)",
        "TimeHeap: container/heap up/down over a slice + running total over an explicit clock; uint64 wrap-around and the float32 rounding of the "
        "returned average are NOT modelled (the harness recovers the integer total from the float exactly for the generated sizes)",
        "IndexedStorage: cache index->storage pointer (allocation numbers), storages as association lists",
        "OnChangeMap: map + enabled switch + 4 optional callbacks with injected failures; the mutexes are not modelled (sequential histories)",
        "SubscriptionManager: per-client topic counts + global topic counts + limit; events in emission order, batches from map iteration sorted; "
        "the RWMutex is not modelled (sequential histories); cleanup thresholds are unobservable and ignored by the model",
    ],
    "manifest": {
        "text": "Part B of C12. Lean theorems over every operation history and option setting: BytesFilter refines 'the last N accepted identifiers' "
                "with slice/set consistency (C12_bytesfilter_refines, _last_n); Walker refines a deque+seen-set, every offered element is yielded or queued "
                "exactly once without revisiting and as often as offered with revisiting, closed-form Push/PushFront semantics (C12_walker_*); TimeHeap "
                "(container/heap array + running total over an explicit clock) refines the windowed-sum specification, total = sum of the heap, closed form for "
                "a fixed window (C12_timeheap_*); IndexedStorage refines a partial function of storages, ForEach/Clear enumerate exactly the cached pairs, no "
                "aliasing (C12_indexedstorage_*); OnChangeMap is a keyed store for every callback configuration/failure pattern, the changed callback sees the "
                "post-state and the item callbacks mirror every change (C12_onchangemap_*); SubscriptionManager: topics[t] = sum over clients in every reachable "
                "state for every limit, a listener folding all events reconstructs clients, per-client counts and topics, forced drop characterised "
                "(C12_submgr_*). Witness theorems about the three unrepaired code paths. The hand-written models are re-validated against the working tree "
                "on every run by a line-by-line differential run (12 000 histories x ~40 requests in the quick tier) plus an independent in-Go abstract "
                "model per container.",
        "note": "Trusted: Lean kernel; models Hive/Model/C12b*.lean (tie = differential execution, random + corpus histories); sequential histories only "
                "(mutexes not modelled); TimeHeap clock driven by timestamp shifting (reflect/unsafe) cross-checked against the real clock.",
        "technique": "Lean 4 refinement / invariant proofs by induction over operation histories + differential correspondence",
    },
    "assumptions": [
        "single-threaded use of each container (the internal mutexes serialise calls; concurrency is not part of C12)",
        "OnChangeMap mirror theorem: callbacks enabled, item callbacks installed, changed-callback does not fail, mutating Modify callbacks report",
    ],
}
