import os, sys
sys.path.insert(0, os.path.dirname(os.path.dirname(os.path.abspath(__file__))))
import checklib

MAPDB = "kvstore/mapdb/mapdb.go:"
SYNCED = "kvstore/mapdb/synced_map.go:"


FLUSH = "kvstore/flushkv/flushkv.go:"
DEBUG = "kvstore/debug/debug.go:"

# functions whose exact (gofmt-normalised, comment-free) text is pinned: the ones the protocol model summarises without
# a lock skeleton of their own - "loads the flag, touches no lock, returns a NEW object with a zero-valued lock" - and the
# whole mutation path of the flushkv wrapper (wrapped mutation, then Flush, ErrStoreClosed of that Flush swallowed)
SRCPIN = [
    MAPDB + "NewMapDB", MAPDB + "mapDB.WithRealm", MAPDB + "mapDB.WithExtendedRealm", MAPDB + "mapDB.Realm", MAPDB + "mapDB.Batched",
    MAPDB + "mapDB.Flush",
    FLUSH + "flushAfterMutation", FLUSH + "New", FLUSH + "flushKVStore.WithRealm", FLUSH + "flushKVStore.Set", FLUSH + "flushKVStore.Delete",
    FLUSH + "flushKVStore.DeletePrefix", FLUSH + "flushKVStore.Clear", FLUSH + "flushKVStore.Get", FLUSH + "flushKVStore.Has",
    FLUSH + "flushKVStore.Iterate", FLUSH + "flushKVStore.IterateKeys", FLUSH + "flushKVStore.Flush", FLUSH + "flushKVStore.Close",
    FLUSH + "flushKVStore.Batched", FLUSH + "batchedMutations.Commit=flush_batch_Commit", FLUSH + "batchedMutations.Set=flush_batch_Set",
    FLUSH + "batchedMutations.Delete=flush_batch_Delete", FLUSH + "batchedMutations.Cancel=flush_batch_Cancel",
    FLUSH + "flushKVStore.WithExtendedRealm", FLUSH + "flushKVStore.Realm",
    # the debug wrapper, completely: "if the callback is set and the command passes the filter: callback; then the wrapped call"
    DEBUG + "New=debug_New", DEBUG + "debugStore.WithRealm", DEBUG + "debugStore.WithExtendedRealm", DEBUG + "debugStore.Realm",
    DEBUG + "debugStore.Iterate", DEBUG + "debugStore.IterateKeys", DEBUG + "debugStore.Clear", DEBUG + "debugStore.Get",
    DEBUG + "debugStore.Set", DEBUG + "debugStore.Has", DEBUG + "debugStore.Delete", DEBUG + "debugStore.DeletePrefix",
    DEBUG + "debugStore.Flush", DEBUG + "debugStore.Close", DEBUG + "debugStore.Batched",
    DEBUG + "batchedMutations.Set=debug_batch_Set", DEBUG + "batchedMutations.Delete=debug_batch_Delete",
    DEBUG + "batchedMutations.Cancel=debug_batch_Cancel", DEBUG + "batchedMutations.Commit=debug_batch_Commit",
]

# every method of the two wrappers: their call skeletons (which wrapped method is called, in which order, behind which early
# return) - what `compile` of the wrapper calls (fset ..., callback) mirrors
WRAP_METHODS = ["Set", "Get", "Has", "Delete", "DeletePrefix", "Clear", "Iterate", "IterateKeys", "Flush", "Close", "Batched",
                "Commit", "Cancel", "WithRealm", "Realm", "accessCallback", "HasBits"]
STORE_METHODS = ["WithRealm", "WithExtendedRealm", "Realm", "Iterate", "IterateKeys", "Clear", "Get", "Set", "Has", "Delete",
                 "DeletePrefix", "Flush", "Close", "Batched"]
BATCH_METHODS = ["Set", "Delete", "Cancel", "Commit"]
WRAPSKEL = [
    ("Hive.Gen.C05WrapSkel.Flush", [FLUSH + "flushAfterMutation", FLUSH + "New"] + [FLUSH + "flushKVStore." + m for m in STORE_METHODS]
     + [FLUSH + "batchedMutations." + m for m in BATCH_METHODS] + [FLUSH + "type=flushKVStore", FLUSH + "type=batchedMutations"]),
    ("Hive.Gen.C05WrapSkel.Debug", [DEBUG + "New"] + [DEBUG + "debugStore." + m for m in STORE_METHODS]
     + [DEBUG + "batchedMutations." + m for m in BATCH_METHODS] + [DEBUG + "type=debugStore", DEBUG + "type=batchedMutations"]),
]


def regen_wrapskel(ctx):
    """Regenerates lean/Hive/Gen/C05_WrapSkel.lean: two namespaces (the two wrappers both have a type batchedMutations)."""
    out = os.path.join(checklib.LEAN, "Hive", "Gen", "C05_WrapSkel.lean")
    text = ""
    for i, (ns, reqs) in enumerate(WRAPSKEL):
        tmp = os.path.join(ctx.scratch, "C05_WrapSkel_%d.lean" % i)
        args = ["go", "run", "./tools/extract-sync", tmp, ns] + ["+" + m for m in WRAP_METHODS]
        args += [os.path.join(ctx.repo, r) for r in reqs]
        rc, log = checklib.sh(args, cwd=checklib.HARNESS, timeout=600)
        if rc != 0 or not os.path.exists(tmp):
            return [{"kind": "skeleton-extractor", "detail": "wrapper skeletons: " + checklib.tail(log, 20)}]
        text += open(tmp).read() + "\n"
    checklib.write_gen(ctx, out, text)
    return []


def regen_srcpin(ctx):
    """Regenerates lean/Hive/Gen/C05_Src.lean (namespace Hive.Gen.C05Src) with harness/c05/srcpin."""
    out = os.path.join(checklib.LEAN, "Hive", "Gen", "C05_Src.lean")
    tmp = os.path.join(ctx.scratch, "C05_Src.lean")
    args = ["go", "run", "./c05/srcpin", tmp, "Hive.Gen.C05Src"]
    for rq in SRCPIN:
        path, name = rq.rsplit(":", 1)
        args.append(os.path.join(ctx.repo, path) + ":" + name)
    rc, log = checklib.sh(args, cwd=checklib.HARNESS, timeout=600)
    if rc != 0 or not os.path.exists(tmp):
        return [{"kind": "skeleton-extractor", "detail": "srcpin: " + checklib.tail(log, 20)}]
    checklib.write_gen(ctx, out, open(tmp).read())
    return []


LOCKSET_PKGS = ["kvstore/mapdb", "kvstore/flushkv", "kvstore/debug"]


def regen_lockset(ctx):
    """Regenerates lean/Hive/Gen/C05_Lockset.lean (namespace Hive.Gen.C05Lockset) with harness/c05/lockset: for EVERY function of
    the three packages the source-order list of lock operations, control structure and struct-field accesses."""
    out = os.path.join(checklib.LEAN, "Hive", "Gen", "C05_Lockset.lean")
    tmp = os.path.join(ctx.scratch, "C05_Lockset.lean")
    args = ["go", "run", "./c05/lockset", tmp, "Hive.Gen.C05Lockset"] + [os.path.join(ctx.repo, p) for p in LOCKSET_PKGS]
    rc, log = checklib.sh(args, cwd=checklib.HARNESS, timeout=600)
    if rc != 0 or not os.path.exists(tmp):
        return [{"kind": "skeleton-extractor", "detail": "lockset: " + checklib.tail(log, 20)}]
    checklib.write_gen(ctx, out, open(tmp).read())
    return []


def build_race_probe(ctx):
    """Quick tier: a second build of the harness with the race detector, used by the harness for two crash-probe children
    (C05_RACE_BIN), so that a pure data race gives a failing input in the quick tier as well.  The thorough tier builds the
    whole harness with -race."""
    os.environ.pop("C05_RACE_BIN", None)
    if ctx.tier != "quick":
        return []
    binp = os.path.join(ctx.scratch, "h_c05_race")
    cmd = ["go", "build", "-tags", "verif", "-race"] + checklib.modfile_args(ctx) + ["-o", binp, "./c05"]
    rc, out = checklib.sh(cmd, cwd=checklib.HARNESS, timeout=900)
    if rc == 0 and os.path.exists(binp):
        os.environ["C05_RACE_BIN"] = binp
    else:
        ctx.notes.append("race-detector build of the probe not available: " + checklib.tail(out, 3))
    return []


def regen(ctx):
    fails = checklib.regen_skeletons(ctx, [
        MAPDB + "mapDB.Get", MAPDB + "mapDB.Has", MAPDB + "mapDB.Set", MAPDB + "mapDB.Delete", MAPDB + "mapDB.DeletePrefix",
        MAPDB + "mapDB.Clear", MAPDB + "mapDB.Iterate", MAPDB + "mapDB.IterateKeys", MAPDB + "mapDB.Close",
        MAPDB + "batchedMutations.Commit", MAPDB + "mapDB.set", MAPDB + "mapDB.delete",
        SYNCED + "syncedKVMap.get", SYNCED + "syncedKVMap.has", SYNCED + "syncedKVMap.set", SYNCED + "syncedKVMap.delete",
        SYNCED + "syncedKVMap.deletePrefix", SYNCED + "syncedKVMap.iterate", SYNCED + "syncedKVMap.iterateKeys",
        # flag-only calls, batch-local calls, and the types whose embedded locks the model's LockIds stand for
        MAPDB + "mapDB.WithRealm", MAPDB + "mapDB.WithExtendedRealm", MAPDB + "mapDB.Flush", MAPDB + "mapDB.Batched",
        MAPDB + "batchedMutations.Set", MAPDB + "batchedMutations.Delete", MAPDB + "batchedMutations.Cancel",
        MAPDB + "type=mapDB", MAPDB + "type=batchedMutations", SYNCED + "type=syncedKVMap",
    ], extra_methods=["Load", "Swap"])
    return (fails or []) + regen_srcpin(ctx) + regen_wrapskel(ctx) + regen_lockset(ctx) + build_race_probe(ctx)


SPEC = {
    "lean_props": ["Hive.Props.C05", "Hive.Props.C05Lock"],
    "lean_namespace": ["Hive.KV.Conc", "Hive.KV.Lin", "Hive.KV.Lockset"],
    "regen": regen,
    "driver": "drv_c05",
    "harness": "c05",
    "race": True,
    "theorems": ["C05_linearizable", "C05_linearizable_open", "C05_linearizable_close", "C05_recorded_wrapped_history_linearizable", "C05_checker_complete_on_model", "C05_checker_complete",
                 "C05_lin_points_in_window", "C05_no_effect_after_close", "C05_finished_complete", "C05_iterate_snapshot", "C05_iterate_one_instant",
                 "C05_well_locked", "C05_locks_exclusive", "C05_map_access_only_at_eff", "C05_deadlock_free",
                 "C05_code_well_bracketed", "C05_effects_are_C04_spec", "C05_commit_effects_are_C04_spec",
                 "C05_checker_sound", "C05_skeleton_get", "C05_skeleton_has", "C05_skeleton_set", "C05_skeleton_delete",
                 "C05_skeleton_deletePrefix", "C05_skeleton_clear", "C05_skeleton_iterate", "C05_skeleton_close",
                 "C05_skeleton_commit", "C05_skeleton_map_primitives", "C05_skeleton_map_iterate",
                 "C05_unused_lock_is_free", "C05_flag_only_calls", "C05_flag_call_contract",
                 "C05_skeleton_flag_calls", "C05_skeleton_batch_ops", "C05_skeleton_type_locks",
                 "C05_source_fresh_objects", "C05_source_flushkv", "C05_source_flushkv_forwarders",
                 "C05_flushkv_calls", "C05_closed_answer_means_no_effect", "C05_unrepaired_flushkv_history_witness", "C05_debug_callback", "C05_source_flushkv_realm", "C05_source_debug",
                 "C05_skeleton_flushkv_mutators", "C05_skeleton_flushkv_forwarders", "C05_skeleton_debug",
                 "C05_compile_is_assembled", "C05_compile_is_assembled_commit", "C05_compile_is_assembled_wrappers",
                 "C05_lockset_guard_table", "C05_lockset_mapdb", "C05_lockset_access_sites", "C05_lockset_views_immutable",
                 "C05_lockset_wrappers_stateless", "C05_lockset_words_cover", "C05_lockset_sound", "C05_lockset_mapdb_all_paths"],
    "trusted_base": [
        "protocol model Hive/Model/KVConc.lean of kvstore/mapdb's locking (closed-flag load, view RWMutex, map RWMutex, "
        "batch Mutex, one atomic access per map primitive); tied to the working tree by (i) the regenerated synchronisation "
        "skeletons (C05_skeleton_* are proof obligations against Hive/Gen/C05_Skel.lean / C05_WrapSkel.lean, regenerated on every run), "
        "(ii) C05_compile_is_assembled*: compile(op) IS what the token interpreter Hive/Model/KVAsm.lean makes of those skeletons - "
        "hand-written and trusted is only the interpreter's reading of the tokens (and that a primitive's critical section is one atomic "
        "access of the model) - and (iii) recorded concurrent histories of the real code decided by the Lean checker",
        "semantics of sync.RWMutex (writer preference: a pending Lock blocks new RLocks), sync.Mutex and atomic.Bool as written "
        "in the model; Go's memory model (lock = happens-before) is assumed; data-race freedom of the real code: lockset obligations "
        "(C05_lockset_*: go/ast extractor harness/c05/lockset is trusted, owner types resolved syntactically, unresolved selectors refused) "
        "+ the -race build of the thorough tier",
        "the history checker decideHist (total Wing-Gong search with memoisation + witness validation) is proved sound and "
        "complete (C05_checker_sound, C05_checker_complete); trusted about it: the Lean compiler/runtime and Std.HashSet of the "
        "toolchain (the proofs use its contains/insert lemmas)",
        "Go toolchain, compiled Lean driver drv_c05; go/parser + go/printer for the regenerated skeletons / pinned source text",
    ],
    "modelled": [
        "mapDB.Get/Has/Set/Delete/DeletePrefix/Clear/Iterate/IterateKeys/Close, batchedMutations.Commit, syncedKVMap primitives; "
        "since the extension round also the flag-only calls WithRealm/WithExtendedRealm/Batched/Flush (closed-flag load + ghost "
        "access nop) and the batch-local calls batch Set/Delete/Cancel (batch mutex only); a created view/batch is a LockId not used "
        "before, free by C05_unused_lock_is_free",
        "the wrappers (round 6): a flushkv mutator (fset/fdel/fdelp/fclear/fcommit) = the wrapped mutator's code followed by `load`, the "
        "closed.Load() of the Flush() issued by flushAfterMutation whose outcome is dropped (no Flush when the mutator's own flag load "
        "failed); the debug wrapper's access callback = a call of its own without instruction in front of the wrapped call (script "
        "fragment [callback, op]); every other wrapper method forwards (pinned source + call skeletons of every wrapper method)",
        "NOT modelled: the contents of a batch's private maps (a commit carries its write list)",
        "an operation that loaded the flag before a concurrent Close still takes effect afterwards (as in the code): the ghost "
        "linearisation in trace order is sequential w.r.t. the specification in which a call fails with ErrStoreClosed iff it saw "
        "the flag set (seqOk); C05_linearizable_close proves that the recorded history of every trace is nevertheless linearizable "
        "w.r.t. the full C04 contract with Close (the straddling calls are moved before the Close point; they were invoked before it)",
        "flushkv's mutators run the wrapped mutation and then Flush(): a Close in between made the call answer ErrStoreClosed "
        "although the mutation took effect (exhibited by the forced-schedule scenario 'flushclose', fixed in /repo b5d5462; the "
        "scenario stays as a regression test)",
    ],
    "manifest": {
        "text": "Theorems over every reachable configuration of the protocol model, for every number of goroutines, every scripts, "
                "every schedule: the ghost linearisation (appended at the single atomic map access of each call / each write of a "
                "Commit) is a sequential execution of the C04 ordered-map specification producing exactly the returned answers, "
                "every linearisation point lies between its call's invocation and response and determines the response "
                "(C05_linearizable, C05_linearizable_open, C05_finished_complete, C05_lin_points_in_window; C05_no_effect_after_close: a call invoked after a Close point never takes effect); the recorded history of every "
                "trace is linearizable w.r.t. the full C04 contract including Close: "
                "C05_linearizable_close; the very function drv_c05 runs accepts the history of every reachable trace of the model "
                "(C05_checker_complete_on_model) and is a sound and complete decision procedure for linearizability of recorded "
                "histories, up to an explicitly reported node budget (C05_checker_sound, C05_checker_complete); Iterate reports the range scan of one map state, "
                "the one at an instant strictly inside the call's window: exactly the writes linearised before it (C05_iterate_snapshot, C05_iterate_one_instant); every map access happens under the map lock, write accesses exclusively (C05_well_locked, "
                "C05_locks_exclusive, C05_map_access_only_at_eff); no reachable deadlock with writer-preferring RWMutexes "
                "(C05_deadlock_free, from rank order batch<view<map, C05_code_well_bracketed); the accesses are the C04 "
                "specification's steps (C05_effects_are_C04_spec, C05_commit_effects_are_C04_spec); the history checker is sound "
                "(C05_checker_sound). Tie: regenerated lock skeletons of mapdb.go/synced_map.go as proof obligations "
                "(C05_skeleton_*, incl. the flag-only and batch-local calls and the type facts of the three lock-carrying structs) and pinned "
                "source text of the object constructors and of the whole flushkv wrapper (C05_source_*, regenerated by harness/c05/srcpin); "
                "a lock nobody uses is free, so a freshly created view cannot block (C05_unused_lock_is_free); "
                "the flushkv and debug wrappers are part of the protocol model (C05_flushkv_calls: wrapped mutator ++ dropped flag load, same accesses, "
                "so a Close between mutation and Flush cannot change the answer; C05_closed_answer_means_no_effect: a call - in particular a flushkv mutator - that answers "
                "ErrStoreClosed made no access, the theorem the unrepaired flushkv falsifies; C05_debug_callback), every theorem therefore covers wrapped stores; what a harness records of a wrapped store - windows stamped at the "
                "wrapper, i.e. wider than the model's - is linearizable too (C05_recorded_wrapped_history_linearizable); "
                "tie of the wrappers: call skeletons of every wrapper method and the complete pinned source of flushkv and debug "
                "(C05_skeleton_flushkv_*, C05_skeleton_debug, C05_source_flushkv*, C05_source_debug); "
                "the instruction sequences of the model are DERIVED from the regenerated skeletons: an interpreter of the token language (Hive/Model/KVAsm.lean) "
                "turns the skeleton of every mapdb method + the call's access into exactly compile(op), Commit for all write lists, and the wrapper "
                "skeletons into the code blocks of fset/.../fcommit and [callback, op] (C05_compile_is_assembled, _commit, _wrappers); "
                "lockset tie for data-race freedom: for every function of mapdb/flushkv/debug the regenerated list of lock operations, control "
                "structure and struct-field accesses is accepted by an analysis proved sound over ALL paths (C05_lockset_sound, C05_lockset_mapdb, "
                "C05_lockset_mapdb_all_paths: every access to a Go map under the owner's mutex, writes exclusively, no escape, no lock leak; "
                "C05_lockset_access_sites, C05_lockset_guard_table), views and wrappers have no other mutable field (C05_lockset_views_immutable, "
                "C05_lockset_wrappers_stateless); "
                "a crash probe in a child process turns fatal runtime errors / race reports / hangs into findings with the plan as replay; "
                "stress + forced-schedule histories of the real packages (2..16 goroutines, shared views of "
                "overlapping realms, bare / flushkv / debug / flushkv(debug) / debug(flushkv) with four filter settings and a callback that reads the store, "
                "atomic logical clock, Close in a quarter of them) decided by the Lean checker and, independently, by a Go checker; "
                "watchdog for hangs; scenario families: snapshot, flushkv/Close, read-only phase, torn values, batch Delete+Set, large store with "
                "DeletePrefix/Clear of more than half (final-state oracle), Commit racing Close (failed-commit-wrote), views created while their parent's "
                "lock is held (freshview); caller-owned buffers are overwritten after every call (aliasing); a corpus of 18 hand-written histories with known verdicts (10 rejected) "
                "decided by both checkers first; rejected histories are minimised (reads removed while still rejected) and the minimised history is the replay; "
                "a parked debug access callback (cbpark); the quick tier runs two crash-probe plans in a -race build, the thorough tier is a -race build as a whole.",
        "note": "Data-race freedom: proved for the model's lock discipline (C05_well_locked), tied to the source statically by the lockset "
                "obligations (sound analysis over regenerated token lists of every function; trusted: the syntactic extractor) and "
                "dynamically by the race detector runs of the thorough tier. Fixed finding (b5d5462): behind flushkv a mutation racing Close took effect and still answered "
                "ErrStoreClosed (forced-schedule scenario, design/C05.md). Trusted: Lean kernel, the protocol model (tied by skeleton obligations + histories), RWMutex semantics.",
        "technique": "Lean 4 invariant proofs over an interleaving model with arbitrary thread pool (ghost linearisation, lock "
                     "counting invariants, rank-based deadlock freedom) + verified-witness linearizability checking of recorded histories",
    },
    "assumptions": ["goroutines use the store only through the modelled methods; concurrent use of ONE batch object is modelled as far as "
                    "its mutex goes (batchOp), the contents of its private maps are not (exercised by the crash probe only)"],
}
