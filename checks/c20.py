import os, sys
sys.path.insert(0, os.path.dirname(os.path.dirname(os.path.abspath(__file__))))
import checklib


def regen_wrappers(ctx):
    """lean/Hive/Gen/C20_Wrap.lean: the package-level wrappers of app/daemon/daemon.go as data (harness/c20/wrapgen)."""
    out = os.path.join(checklib.LEAN, "Hive", "Gen", "C20_Wrap.lean")
    tmp = os.path.join(ctx.scratch, "C20_Wrap.lean")
    rc, log = checklib.sh(["go", "run", "./c20/wrapgen", os.path.join(ctx.repo, "app/daemon/daemon.go"), tmp],
                          cwd=checklib.HARNESS, timeout=600)
    if rc != 0 or not os.path.exists(tmp):
        return [{"kind": "wrapper-extractor", "detail": checklib.tail(log, 20)}]
    checklib.write_gen(ctx, out, open(tmp).read())
    return []


def regen(ctx):
    if os.environ.get("C20_NO_SKEL"):   # development aid: judge a mutation by the dynamic tie alone
        return []
    f = "app/daemon/daemon.go:OrderedDaemon."
    return regen_wrappers(ctx) + checklib.regen_skeletons(ctx, [f + m for m in (
        "BackgroundWorker", "runBackgroundWorker", "Start", "Run", "shutdown",
        "stopWorkers", "getWorkersAndShutdownOrder", "cleanupWorker", "clear", "Shutdown", "ShutdownAndWait",
        "GetRunningBackgroundWorkers", "IsStopped", "IsRunning", "ContextStopped")]
        + ["app/daemon/daemon.go:type=OrderedDaemon", "app/daemon/daemon.go:type=worker",
           "app/daemon/interfaces.go:type=Daemon", "app/daemon/interfaces.go:type=WorkerFunc"],
        extra_methods=["IsStopped", "IsRunning", "ctxCancel", "stoppedCtxCancel", "Slice", "backgroundWorker"])


SPEC = {
    "lean_props": "Hive.Props.C20",
    "regen": regen,
    "lean_namespace": "Hive.Daemon",
    "driver": "drv_c20",
    "harness": "c20",
    "race": False,
    "theorems": ["C20_order", "C20_equal_order_together", "C20_wait_returns_after_all",
                 "C20_no_add_after_shutdown", "C20_running_name_refused", "C20_run_returns_after_all",
                 "C20_statement", "C20_old_run_wait_witness", "C20_old_bw_window_witness",
                 "C20_skeleton_BackgroundWorker", "C20_skeleton_runBackgroundWorker", "C20_skeleton_Start", "C20_skeleton_Run",
                 "C20_skeleton_shutdown", "C20_skeleton_stopWorkers", "C20_skeleton_cleanupWorker",
                 "C20_shutdown_progress", "C20_run_progress", "C20_shutdown_not_stuck",
                 "C20_skeleton_GetRunningBackgroundWorkers", "C20_skeleton_IsStopped", "C20_skeleton_IsRunning",
                 "C20_skeleton_ContextStopped", "C20_skeleton_type_OrderedDaemon", "C20_skeleton_type_worker",
                 "C20_running_list_ascending", "C20_running_list_complete", "C20_registered_all_running",
                 "C20_reregistration_branch_dead", "C20_cancel_only_by_shutdown",
                 "C20_ext_refines", "C20_ext_statement", "C20_stopped_ctx_after_flag", "C20_stopped_ctx_before_cancel",
                 "C20_stopped_ctx_before_return", "C20_stopped_monotone", "C20_stopped_observations",
                 "C20_wrappers_forward_all_arguments", "C20_driver_step_sound", "C20_shutdown_terminates",
                 "C20_handler_shutdownandwait_selfwait_witness", "C20_no_waitgroup_add_after_stop",
                 "C20_skeleton_type_Daemon", "C20_skeleton_type_WorkerFunc", "C20_refused_only_when_stopped",
                 "C20_run_repaired_example", "C20_bw_window_repaired_example", "C20_skeleton_Shutdown", "C20_skeleton_ShutdownAndWait",
                 "C20_skeleton_getWorkersAndShutdownOrder", "C20_skeleton_clear"] + ["C20_decisions_" + m for m in (
                     "GetRunningBackgroundWorkers", "getWorkersAndShutdownOrder", "runBackgroundWorker", "BackgroundWorker", "DebugLogger", "Start", "Run", "shutdown", "stopWorkers", "cleanupWorker", "removeWorkerFromShutdownOrder", "clear", "Shutdown", "ShutdownAndWait", "IsRunning", "IsStopped", "ContextStopped")],
    "trusted_base": [
        "hand-written protocol model Hive/Model/Daemon.lean of app/daemon/daemon.go (critical sections of d.lock atomic; "
        "lock-free reads as separate steps), tied by (a) differential execution of sequential histories against the model "
        "and (b) the C20 trace predicates evaluated on event logs of the real code (harness/c20)",
        "harness event log: atomic logical clock; `ret` logged before the handler returns, `seen`/`start` after the "
        "observation, call events before / return events after the call",
        "Go toolchain, Go runtime scheduler (concurrent cases are sampled, not exhaustive), compiled Lean driver",
    ],
    "modelled": [
        "OrderedDaemon: BackgroundWorker (unlocked stopped check + critical section), Start, Run (waits under the lock for runningWorkers == 0), "
        "Shutdown/ShutdownAndWait (stopOnce, shutdown, stopWorkers, clear), runBackgroundWorker goroutine, cleanupWorker",
        "sort.Slice is modelled as 'any arrangement sorted by descending order'",
        "workers map + shutdownOrderWorker slice are one list of instances (both are always updated in the same critical section)",
        "GetRunningBackgroundWorkers = runningList (reverse of the flagged part of the registry); the variadic order = effOrder "
        "(first value, 0 when none); the package-level wrappers are driven as the same api on the default daemon",
        "extension layer Hive/Model/DaemonX.lean on top of the same step function: stoppedCtx (cancelled by the stopOnce body between "
        "the store of the stopped flag and the IsRunning read), pollers of ContextStopped(), worker goroutines whose handlers call "
        "back into the daemon (BackgroundWorker / Start / IsStopped / Shutdown(AndWait) / Run from inside a handler); it refines the "
        "base model (C20_ext_refines)",
        "NOT modelled: the logger, WaitGroup misuse panics (Add concurrent with Wait)",
    ],
    "manifest": {
        "text": "Lean 4 invariant proofs over an interleaving model of app/daemon (arbitrary thread pool: any number of "
                "BackgroundWorker/Start/Run/Shutdown(AndWait) callers, worker goroutines returning at any time, arbitrary integer "
                "orders, re-registration): C20_order (a running worker is cancelled only after every started worker of higher order "
                "returned), C20_equal_order_together (no WaitGroup wait between cancellations of one order), "
                "C20_wait_returns_after_all (every stopOnce.Do return happens after every started worker returned), "
                "C20_no_add_after_shutdown, C20_running_name_refused, C20_run_returns_after_all (every Run return happens after "
                "every started worker returned, incl. workers added or re-registered while running), and C20_statement (all six "
                "clauses). Three defects of the unrepaired code were exhibited on the real code and fixed: BackgroundWorker / Start "
                "racing Shutdown (verif hook / stress; C20_old_bw_window_witness) and Run copying the per-order WaitGroups once "
                "(returned before later workers, rare sync.WaitGroup misuse panic; C20_old_run_wait_witness over the old model "
                "variant). Tie: ~6k (quick) / ~120k (thorough) scripted and "
                "random life-cycle histories on the real daemon: sequential ones are compared answer by answer with the Lean model, "
                "every event log is judged by the same Lean trace predicates the theorems are about and by an independent Go oracle. "
                "Extension layer (stopped context, handlers that call back into the daemon): C20_ext_refines / C20_ext_statement (the six "
                "clauses also hold when handlers register / start / shut down from inside), C20_stopped_ctx_after_flag / _before_cancel / "
                "_before_return / _monotone / _observations (ContextStopped is cancelled after the flag is set and before any worker "
                "context; observed on the real daemon by ~43k observations per quick run, oracle `ctx`), C20_shutdown_terminates "
                "(termination measure once the handlers returned), C20_wrappers_forward_all_arguments (regenerated package-level "
                "wrappers), C20_decisions_* (regenerated conditions / returns / assignments of every method), C20_no_waitgroup_add_after_stop "
                "(no WaitGroup.Add once a Wait can be in progress), C20_driver_step_sound (the driver's registration step is a successor "
                "of the model).",
        "note": "Trusted: Lean kernel; the hand-written model (tie = differential + trace-predicate validation, sampled schedules); "
                "the harness's event stamping; hang detection by generous timeouts; harness/c20/wrapgen and harness/tools/extract-sync (go/ast).",
        "technique": "Lean 4 inductive invariants over an interleaving semantics + trace-predicate conformance + differential execution",
    },
    "assumptions": ["a handler that blocks for ever (also: one that calls ShutdownAndWait or Run from inside, which waits for itself) is outside "
                    "the liveness theorems; the safety theorems cover it",
                    "one daemon instance per case; names are compared as integers"],
}
