import os, sys
sys.path.insert(0, os.path.dirname(os.path.dirname(os.path.abspath(__file__))))
import checklib


def regen(ctx):
    # lock / trie / store-cell skeletons of every method of the authenticated map (the set flavour embeds it)
    ms = ["Set", "Delete", "Size", "Commit", "Root", "Has", "Get", "Stream", "WasRestoredFromStorage", "has", "addSize"]
    return checklib.regen_skeletons(ctx, ["ads/map_impl.go:authenticatedMap." + m for m in ms],
                                    extra_methods=["Get", "Set", "Delete", "Update", "Commit", "Root", "IterateKeys"])


SPEC = {
    "lean_props": "Hive.Props.C09",
    "regen": regen,
    "lean_namespace": ["Hive.Ads"],
    "parts": [{"driver": "drv_c09", "harness": "c09"},          # the hive.go glue over real ads.Map / ads.Set
              {"driver": "drv_c09", "harness": "c09/trie"},    # the trie model against a real smt.SMT
              {"driver": "drv_c09", "harness": "c09/conc", "race": True}],  # goroutines sharing one map, judged by the Lean trace predicates
    "theorems": ["C09_contents", "C09_refines", "C09_refines_run", "C09_size_eq_card", "C09_stream",
                 "C09_root_content_only", "C09_root_injective", "C09_root_eq_iff", "C09_class_sound",
                 "C09_restored_iff_commit", "C09_reopen_after_commit", "C09_reopen_faithful", "C09_no_tree_error",
                 "C09_trie_refines_map", "C09_trie_canonical", "C09_trie_history_independent", "C09_trie_root_function",
                 "C09_trie_root_injective", "C09_trie_ext_expand", "C09_trie_ext_history_independent",
                 "C09_trie_ext_shape_depends_on_history_witness",
                 "C09_instances_independent", "C09_instances_independent_run", "C09_key_spaces_disjoint", "C09_shared_tree_realm_witness",
                 "C09_serialised", "C09_concurrent_quiescent", "C09_concurrent_readers", "C09_unlocked_has_witness",
                 "C09_skeleton_set", "C09_skeleton_delete", "C09_skeleton_size", "C09_skeleton_commit", "C09_skeleton_root",
                 "C09_skeleton_has", "C09_skeleton_get", "C09_skeleton_stream", "C09_skeleton_restored",
                 "C09_skeleton_has_helper", "C09_skeleton_addSize"],
    "trusted_base": ["hand-written model Hive/Model/Ads.lean of ads/map_impl.go + ads/set_impl.go, tied by differential execution (harness/c09) on every run",
                     "the third-party trie pokt-network/smt and SHA-256 are abstracted: contents {mem, disk}, Root = rootOf(contents) for an arbitrary rootOf; "
                     "its history independence is validated by the root-equality-class comparison of the tie and proved (C09_trie_*) for a Lean model of the trie algorithm over uninterpreted hash functions (Hive/Model/AdsTrie.lean)",
                     "that trie model (with extension nodes) is itself tied to the real smt.SMT by the second part harness/c09/trie: Get/Delete answers, root classes, and after every Commit the walked shape of the node store (leaf/inner/extension nodes with their bit runs) and its record count",
                     "Go toolchain, compiled Lean driver",
                     "Go's sync.RWMutex semantics as written in Hive/Model/AdsConc.lean; the lock / call skeletons of every method of ads/map_impl.go are regenerated on every run (Hive/Gen/C09_Skel.lean) and compared with the ones the protocol model was written against (C09_skeleton_*)"],
    "modelled": ["ads.Map/ads.Set: Set/Add, Get, Has, Delete, Size, Stream, Commit, Root, WasRestoredFromStorage, the constructor (reopen over the same store)",
                 "kvstore.TypedValue / TypedStore / mapdb as plain store cells (one live instance per store; mapdb iterates keys in byte order)",
                 "root injectivity is a hypothesis of C09_root_injective (Function.Injective rootOf), never an axiom",
                 "size is an unbounded Int (exact for histories shorter than 2^63 calls); store I/O errors and key-decoding errors are not modelled",
                 "concurrent use: protocol model Hive/Model/AdsConc.lean (RWMutex, micro-steps has / tree write / raw-key write / size read / size write, Commit = root.Set + flush; RLock without writer preference); "
                 "WasRestoredFromStorage (takes no lock of the map) and reopen are not part of concurrent scripts; the trie and the stores are assumed to be touched only inside the map's lock"],
    "manifest": {
        "text": "Theorems over every history of Set/Add/Get/Has/Delete/Size/Stream/Commit/Root/WasRestoredFromStorage/reopen with arbitrary keys, values (incl. empty values, failing serializers, an arbitrary decoder) and reopens at commit points: every answer is the plain-map answer (C09_refines, C09_refines_run, C09_contents), Size is the cardinality (C09_size_eq_card), Stream delivers exactly the map (C09_stream), equal contents give equal roots whatever the histories (C09_root_content_only), different contents give different roots under the explicit hypothesis Function.Injective rootOf (C09_root_injective, C09_root_eq_iff), a new instance opened after Commit is in exactly the committed state and reports restored (C09_reopen_after_commit, C09_reopen_faithful), WasRestoredFromStorage is true iff a Commit happened (C09_restored_iff_commit). The hand-written model of the hive.go glue over an abstract trie is re-validated against the working tree on every run: sessions of several real map/set instances over mapdb, keys mined to share 8..16+ leading sha256-path bits, roots compared as equality classes over all instances and time points, plus an independent Go oracle (plain Go map, root equality vs contents equality, reopened instance vs committed one). The trie is additionally modelled itself (update/delete/Get/digest with smt's extension-node surgery over uninterpreted hash functions): canonical shape, history independence and 'Root = rootOf contents' are theorems (C09_trie_*), and that model is tied to a real smt.SMT (sha256 paths, raw values, in-memory node store) by a second differential part: Get/Delete answers, root equality classes over histories, and after every Commit the shape of the trie walked from the node store (extension bit runs, inner nodes with an empty child) and the number of records, plus an independent oracle (store complete, no stale records, expanded trie = canonical trie of the contents built from scratch). Several instances in one database: the constructor's four key spaces are derived from the realm of the store view (Hive/Model/AdsRealm.lean); calls on one instance never change another instance's state and every instance behaves as if alone (C09_instances_independent, C09_instances_independent_run), the key spaces of compatible realms are disjoint in the flat store (C09_key_spaces_disjoint); 2 of 5 sessions of the differential run put all instances over sibling / nested / prefix-related realm views of ONE shared mapdb, hold the same entries in several of them, delete+commit in one and reopen the others. Concurrent use: a protocol theorem over every schedule and any number of goroutines (C09_serialised: write sections are mutually exclusive, the log of completed calls is a run of the sequential machine, so every history theorem applies; C09_concurrent_quiescent: Size = card and Stream = present keys whenever no write is in progress; C09_concurrent_readers), the lock/call skeletons of all map_impl.go methods regenerated from the source on every run (C09_skeleton_*), and a stress part (goroutines released together on the same fresh key and on fresh keys of their own, quiescent observations judged by the Lean trace predicates, -race in the thorough tier).",
        "note": "Trusted: Lean kernel; model Hive/Model/Ads.lean (tie = differential execution); pokt-network/smt and SHA-256 abstracted as Root = rootOf(contents), injectivity of rootOf only as theorem hypothesis; one live instance per store; Int size; store I/O errors not modelled.",
        "technique": "Lean 4 refinement proof (invariant + abstraction function, induction over histories) + canonical-form proof for the trie + interleaving-protocol invariant + differential correspondence (glue, trie shapes, root equality classes) + regenerated lock skeletons + stress judged by Lean trace predicates",
    },
    "assumptions": ["several instances in one database: realms pairwise compatible (no region id realm+{0,1,2,3} of one is a prefix of a region id of another; C09_key_spaces_disjoint); the database is modelled at the granularity of these regions",
                    "one live instance per store view at a time; an instance replaced by reopen is never used again",
                    "reopen at commit points for the property theorems (the model itself also follows the code for reopens with un-committed changes, and the tie compares those too)"],
}
