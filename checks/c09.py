import os, re, sys
sys.path.insert(0, os.path.dirname(os.path.dirname(os.path.abspath(__file__))))
import checklib


MAP_METHODS = ["Set", "Delete", "Size", "Commit", "Root", "Has", "Get", "Stream", "WasRestoredFromStorage", "has", "addSize"]


def regen_consts(ctx):
    """Hive/Gen/C09_Consts.lean: the persistent layout as the source states it — the values of the prefix constants
    (the iota block), their type, and the wiring of the constructor (which store view / cell key every component is
    opened with, the codec of the size cell, the condition under which the trie is imported).  Pinned by
    C09_layout_regenerated against `Hive.Ads.layout`."""
    src = open(os.path.join(ctx.repo, "ads", "map_impl.go")).read()
    fails = []
    consts, ctype = [], "?"
    m = re.search(r"const\s*\(([^)]*\biota\b[^)]*)\)", src)
    if m:
        val = None
        for line in m.group(1).split("\n"):
            line = line.split("//")[0].strip()
            if not line:
                continue
            m2 = re.match(r"(\w+)\s+(\w+)\s*=\s*iota$", line)
            if m2 and val is None:
                ctype, val = m2.group(2), 0
                consts.append((m2.group(1), 0))
            elif re.match(r"\w+$", line) and val is not None:
                val += 1
                consts.append((line, val))
            else:
                fails.append({"kind": "const-extractor", "detail": "unexpected line in the prefix constant block: " + line})
    else:
        fails.append({"kind": "const-extractor", "detail": "no iota constant block in ads/map_impl.go"})
    body = src[src.find("func newAuthenticatedMap"):]
    body = body[:body.find("\n}\n")]

    def grab(pat, fmt):
        mm = re.search(pat, body)
        return fmt.format(*mm.groups()) if mm else "?"

    wiring = [
        grab(r"rawKeysStore:\s*kvstore\.NewTypedStore\(lo\.PanicOnErr\((\w+)\.(\w+)\(\[\]byte\{(\w+)\}\)\),\s*([\w.]+),\s*([\w.]+),\s*([\w.]+),\s*([\w.]+)\)",
             "rawKeysStore {0}.{1} {2} {3} {4} {5} {6}"),
        grab(r"size:\s*kvstore\.NewTypedValue\((\w+),\s*\[\]byte\{(\w+)\},\s*([\w.]+),\s*([\w.]+)\)", "size {0} key {1} {2} {3}"),
        grab(r"root:\s*kvstore\.NewTypedValue\((\w+),\s*\[\]byte\{(\w+)\},\s*([\w.]+),\s*([\w.]+)\)", "root {0} key {1} {2} {3}"),
        grab(r"newMapStoreAdapter\(lo\.PanicOnErr\((\w+)\.(\w+)\(\[\]byte\{(\w+)\}\)\)\)", "tree {0}.{1} {2}"),
        grab(r"if\s+root,\s*err\s*:=\s*newMap\.root\.Get\(\);\s*(err\s*[!=]=\s*nil)\s*\{\s*newMap\.tree\s*=\s*smt\.(\w+)\((\w+),\s*sha256\.New\(\),\s*(root\[:\]),\s*(smt\.WithValueHasher\(nil\))\)"
             r"\s*\}\s*else\s*\{\s*newMap\.tree\s*=\s*smt\.(\w+)\((\w+),\s*sha256\.New\(\),\s*(smt\.WithValueHasher\(nil\))\)",
             "trie if {0} then {1} {2} {3} {4} else {5} {6} {7}"),
    ]
    wiring = [" ".join(w.split()) for w in wiring]
    ssrc = open(os.path.join(ctx.repo, "ads", "set_impl.go")).read()

    def grab2(pat, fmt):
        mm = re.search(pat, ssrc, re.S)
        return " ".join(fmt.format(*mm.groups()).split()) if mm else "?"

    set_wiring = [
        grab2(r"authenticatedMap:\s*newAuthenticatedMap\[IdentifierType\]\(([^)]*)\)", "map {0}"),
        grab2(r"\) Add\(key K\) error \{\s*(.*?)\n\}", "Add {0}"),
        grab2(r"\) Stream\(callback func\(key K\) error\) error \{\s*(.*?)\n\}", "Stream {0}"),
    ]
    restored = re.search(r"func \(m \*authenticatedMap\[[^\]]*\]\) WasRestoredFromStorage\(\) bool \{\s*(.*?)\n\}", src, re.S)
    restored_lines = [" ".join(l.split()) for l in restored.group(1).split("\n") if l.strip()] if restored else ["?"]
    addsize = re.search(r"m\.size\.Set\(([^\n]*)\); err != nil", src)
    sizeret = re.search(r"func \(m \*authenticatedMap\[[^\]]*\]\) Size\(\) int \{.*?\n\treturn ([^\n]*)\n\}", src, re.S)

    # the calls through which keys, values and the root pass, per method, in source order and with their arguments:
    # where the code hands on the typed object (through a serializer / a typed store) and where the bytes
    call_pat = re.compile(r"\b((?:m\.(?:valueToBytes|keyToBytes|bytesToValue|tree\.\w+|rawKeysStore\.\w+|has|addSize|root\.\w+|size\.\w+))|callback)\(([^()]*)\)?")
    calls = []
    for meth in ["Set", "Get", "Has", "Delete", "Stream", "Commit", "Root", "has", "addSize", "Size"]:
        mb = re.search(r"func \(m \*authenticatedMap\[[^\]]*\]\) " + meth + r"\(.*?\n}\n", src, re.S)
        toks = []
        for mm in call_pat.finditer(mb.group(0) if mb else ""):
            toks.append(mm.group(1) + "(" + (" ".join(mm.group(2).split()) if mm.group(0).endswith(")") else "...") + ")")
        calls.append((meth, toks))
    # the conditions of every `if` (and of the `}); cond {` that closes Stream's iteration), in source order: the error handling
    conds = []
    for meth in ["Set", "Get", "Has", "Delete", "Stream", "Commit", "has", "addSize", "Size"]:
        mb = re.search(r"func \(m \*authenticatedMap\[[^\]]*\]\) " + meth + r"\(.*?\n}\n", src, re.S)
        cs = [" ".join(c.split()) for c in re.findall(r"(?:\bif |\}\); )([^\n]*?) \{\n", mb.group(0) if mb else "")]
        conds.append((meth, [re.sub(r"func\(.*$", "func...", c) for c in cs]))
    # kvstore/typedvalue.go (the root and size cells): serializer calls, store calls, cache assignments and returns of Set / Get in
    # source order - a failed Set caches nothing; Get caches "absent" only for ErrKeyNotFound and a value only after it decoded
    tvsrc = open(os.path.join(ctx.repo, "kvstore", "typedvalue.go")).read()
    tv_pat = re.compile(r"(t\.vToBytes\(|t\.bytesToV\(|t\.kv\.\w+\(|t\.valueCached = [^\n]*|t\.hasCached = [^\n]*|return [^\n]*)")
    tv = []
    for meth in ["Set", "Get"]:
        mb = re.search(r"func \(t \*TypedValue\[V\]\) " + meth + r"\(.*?\n}\n", tvsrc, re.S)
        tv.append((meth, [" ".join(x.split()).rstrip("(") for x in tv_pat.findall(mb.group(0) if mb else "")]))
    nilrule = re.search(r"if valueBytes == nil \{\s*(valueBytes = [^\n]*)\s*\}", src)

    def lstr(xs):
        return "[" + ", ".join('"' + x.replace('\\', '\\\\').replace('"', '\\"') + '"' for x in xs) + "]"

    out = ["/-! GENERATED by checks/c09.py (regen_consts) from ads/map_impl.go — the persistent layout as the source states it; do not edit. -/",
           "namespace Hive.Gen.C09Consts", ""]
    for n, v in consts:
        out.append(f"def {n} : Nat := {v}")
    out += ["", f"def constNames : List String := {lstr([n for n, _ in consts])}",
            f"def constType : String := \"{ctype}\"",
            f"def wiring : List String := {lstr(wiring)}",
            f"def setWiring : List String := {lstr(set_wiring)}",
            f"def restoredBody : List String := {lstr(restored_lines)}",
            f"def addSizeWrites : String := {lstr([' '.join(addsize.group(1).split()) if addsize else '?'])[1:-1]}",
            f"def sizeReturns : String := {lstr([' '.join(sizeret.group(1).split()) if sizeret else '?'])[1:-1]}",
            f"def nilValueRule : String := {lstr([' '.join(nilrule.group(1).split()) if nilrule else '?'])[1:-1]}"]
    for meth, toks in calls:
        out.append(f"def calls_{meth} : List String := {lstr(toks)}")
    for meth, toks in tv:
        out.append(f"def typedValue_{meth} : List String := {lstr(toks)}")
    for meth, cs in conds:
        out.append(f"def conds_{meth} : List String := {lstr(cs)}")
    out += ["", "end Hive.Gen.C09Consts", ""]
    checklib.write_gen(ctx, os.path.join(checklib.LEAN, "Hive", "Gen", "C09_Consts.lean"), "\n".join(out))
    return fails


def regen(ctx):
    # lock / trie / store-cell skeletons of every method of the authenticated map, of the constructor, of the set
    # flavour's own methods and of the node-store adapter; type facts of the two structs
    reqs = ["ads/map_impl.go:authenticatedMap." + m for m in MAP_METHODS]
    reqs += ["ads/map_impl.go:newAuthenticatedMap", "ads/map_impl.go:type=authenticatedMap",
             "ads/set_impl.go:authenticatedSet.Add", "ads/set_impl.go:authenticatedSet.Stream", "ads/set_impl.go:newAuthenticatedSet",
             "ads/set_impl.go:type=authenticatedSet"]
    reqs += ["ads/map_store_adapter.go:mapStoreAdapter." + m for m in ["Get", "Set", "Delete", "Len", "ClearAll"]]
    reqs += ["ads/map_store_adapter.go:type=mapStoreAdapter"]
    fails = checklib.regen_skeletons(ctx, reqs,
                                     extra_methods=["Get", "Set", "Delete", "Update", "Commit", "Root", "IterateKeys", "Clear", "Stream",
                                                    "WithExtendedRealm", "WithRealm", "NewTypedValue", "NewTypedStore",
                                                    "ImportSparseMerkleTrie", "NewSparseMerkleTrie", "WithValueHasher", "PanicOnErr"])
    return (fails or []) + regen_consts(ctx)


SPEC = {
    "lean_props": "Hive.Props.C09",
    "regen": regen,
    "lean_namespace": ["Hive.Ads"],
    "parts": [{"driver": "drv_c09", "harness": "c09"},          # the hive.go glue over real ads.Map / ads.Set
              {"driver": "drv_c09", "harness": "c09/trie"},    # the trie model against a real smt.SMT
              {"driver": "drv_c09", "harness": "c09/conc", "race": True}],  # goroutines sharing one map, judged by the Lean trace predicates
    "theorems": ["C09_contents", "C09_refines", "C09_refines_run", "C09_size_eq_card", "C09_stream",
                 "C09_root_content_only", "C09_root_injective", "C09_root_eq_iff", "C09_class_sound",
                 "C09_restored_iff_commit", "C09_reopen_after_commit", "C09_reopen_faithful", "C09_no_tree_error",
                 "C09_trie_refines_map", "C09_trie_canonical", "C09_trie_history_independent", "C09_trie_root_function",
                 "C09_trie_root_injective", "C09_trie_ext_expand", "C09_trie_ext_history_independent",
                 "C09_trie_ext_shape_depends_on_history_witness",
                 "C09_trie_insertion_order_independent", "C09_trie_delete_is_never_inserted",
                 "C09_glue_over_trie_contents", "C09_glue_over_trie_root_content_only", "C09_glue_over_trie_root_injective",
                 "C09_instances_independent", "C09_instances_independent_run", "C09_key_spaces_disjoint", "C09_shared_tree_realm_witness",
                 "C09_serialised", "C09_concurrent_quiescent", "C09_concurrent_readers", "C09_unlocked_has_witness",
                 "C09_skeleton_set", "C09_skeleton_delete", "C09_skeleton_size", "C09_skeleton_commit", "C09_skeleton_root",
                 "C09_skeleton_has", "C09_skeleton_get", "C09_skeleton_stream", "C09_skeleton_restored",
                 "C09_skeleton_has_helper", "C09_skeleton_addSize",
                 "C09_skeleton_constructor", "C09_skeleton_set_flavour", "C09_skeleton_type_map", "C09_skeleton_adapter",
                 "C09_layout_regenerated", "C09_calls_regenerated", "C09_conditions_regenerated", "C09_typed_value_cells_regenerated",
                 "C09_id_codec_invisible", "C09_id_codec_run", "C09_id_reopen_after_commit", "C09_id_restored_iff_commit",
                 "C09_id_decoder_failure", "C09_id_import_through_codec_witness",
                 "C09_typed_refines", "C09_typed_root_eq_iff", "C09_stack_refines", "C09_typed_size_eq_card", "C09_typed_stream_complete", "C09_typed_stream", "C09_typed_stream_key_decode_error_witness", "C09_typed_set_flavour",
                 "C09_fault_root_write_noop", "C09_fault_trie_follows_attempts", "C09_fault_what_lags", "C09_fault_size_lags_witness",
                 "C09_adapter_buffers_stay_intact", "C09_adapter_reused_buffer_witness"],
    "trusted_base": ["hand-written model Hive/Model/Ads.lean of ads/map_impl.go + ads/set_impl.go, tied by differential execution (harness/c09) on every run",
                     "the third-party trie pokt-network/smt and SHA-256 are abstracted: contents {mem, disk}, Root = rootOf(contents) for an arbitrary rootOf; "
                     "its history independence is validated by the root-equality-class comparison of the tie and proved (C09_trie_*) for a Lean model of the trie algorithm over uninterpreted hash functions (Hive/Model/AdsTrie.lean)",
                     "that trie model (with extension nodes) is itself tied to the real smt.SMT by the second part harness/c09/trie: Get/Delete answers, root classes, and after every Commit the walked shape of the node store (leaf/inner/extension nodes with their bit runs) and its record count",
                     "the abstraction Root = rootOf(contents) is discharged for the composed model: C09_glue_over_trie_* run the trie calls the glue issues (trieCalls) on the trie model with extension nodes, "
                     "for a path hasher with fixed output length that does not collide on the occurring keys (hypothesis InjOn; SHA-256 itself is not modelled)",
                     "the persistent layout (prefix constants, constructor wiring, size arithmetic, restored test) is regenerated from the source on every run (Hive/Gen/C09_Consts.lean) and pinned by C09_layout_regenerated; "
                     "the differential op `peek` reads the four regions from the database below the view",
                     "identifier / key / value serializers: hand-written layers Hive/Model/AdsId.lean, AdsTyped.lean over the sequential model, tied by differential execution "
                     "(instances constructed with identity / tag-byte / reversed / length-byte serializers; failing identifier encoder and decoder; keys whose stored form does not decode); "
                     "the driver's digest comparison is the constant true: its identifiers are contents as functions, and in the driver the cell and the flushed digest are loaded from one slot, so the comparison is only ever asked about a value and itself; the theorems assume a lawful comparison",
                     "store write faults: Hive/Model/AdsFault.lean (root cell, size cell, raw-key store), tied through a fault-injecting kvstore.KVStore under the instances; "
                     "write faults of the trie's node store and read faults are not modelled (observation in the evidence)",
                     "the node-store adapter at the level of buffers (Hive/Model/AdsAdapter.lean): hand-written, tied only by the regenerated skeleton C09_skeleton_adapter (Get/Set/Delete forwarded one to one) "
                     "and by C04's theorems about what mapdb copies; that the trie keeps sub-slices of what Get returns is read from the third-party source",
                     "Go toolchain, compiled Lean driver",
                     "Go's sync.RWMutex semantics as written in Hive/Model/AdsConc.lean; the lock / call skeletons of every method of ads/map_impl.go are regenerated on every run (Hive/Gen/C09_Skel.lean) and compared with the ones the protocol model was written against (C09_skeleton_*)"],
    "modelled": ["ads.Map/ads.Set: Set/Add, Get, Has, Delete, Size, Stream, Commit, Root, WasRestoredFromStorage, the constructor (reopen over the same store)",
                 "kvstore.TypedValue / TypedStore / mapdb as plain store cells (one live instance per store; mapdb iterates keys in byte order)",
                 "value types whose deserializers do not copy (flavour mapa) and read-modify-write-back of a value obtained from Get (rmw)",
                 "kvstore.TypedValue's internal cache is not modelled (one writing instance per store)",
                 "identifier serializers (any round-tripping pair, failing encoder = Commit is a no-op, failing decoder = new trie but restored; the import receives the raw root), "
                 "key / value serializers (typed surface for arbitrary round-tripping serializers, Stream's key decoding / re-encoding and its errors)",
                 "write faults of the root cell, the size cell and the raw-key store (answers and the state left behind; no roll-back)",
                 "root injectivity is a hypothesis of C09_root_injective (Function.Injective rootOf), never an axiom",
                 "size is an unbounded Int (exact for histories shorter than 2^63 calls); write faults of the node store and read faults are not modelled",
                 "concurrent use: protocol model Hive/Model/AdsConc.lean (RWMutex, micro-steps has / tree write / raw-key write / size read / size write, Commit = root.Set + flush; RLock without writer preference); "
                 "WasRestoredFromStorage (takes no lock of the map) and reopen are not part of concurrent scripts; the trie and the stores are assumed to be touched only inside the map's lock"],
    "manifest": {
        "text": "Theorems over every history of Set/Add/Get/Has/Delete/Size/Stream/Commit/Root/WasRestoredFromStorage/reopen with arbitrary keys, values (incl. empty values, failing serializers, an arbitrary decoder) and reopens at commit points: every answer is the plain-map answer (C09_refines, C09_refines_run, C09_contents), Size is the cardinality (C09_size_eq_card), Stream delivers exactly the map (C09_stream), equal contents give equal roots whatever the histories (C09_root_content_only), different contents give different roots under the explicit hypothesis Function.Injective rootOf (C09_root_injective, C09_root_eq_iff), a new instance opened after Commit is in exactly the committed state and reports restored (C09_reopen_after_commit, C09_reopen_faithful), WasRestoredFromStorage is true iff a Commit happened (C09_restored_iff_commit). The hand-written model of the hive.go glue over an abstract trie is re-validated against the working tree on every run: sessions of several real map/set instances over mapdb, keys mined to share 8..16+ leading sha256-path bits, roots compared as equality classes over all instances and time points, plus an independent Go oracle (plain Go map, root equality vs contents equality, reopened instance vs committed one). The trie is additionally modelled itself (update/delete/Get/digest with smt's extension-node surgery over uninterpreted hash functions): canonical shape, history independence and 'Root = rootOf contents' are theorems (C09_trie_*), and that model is tied to a real smt.SMT (sha256 paths, raw values, in-memory node store) by a second differential part: Get/Delete answers, root equality classes over histories, and after every Commit the shape of the trie walked from the node store (extension bit runs, inner nodes with an empty child) and the number of records, plus an independent oracle (store complete, no stale records, expanded trie = canonical trie of the contents built from scratch). Several instances in one database: the constructor's four key spaces are derived from the realm of the store view (Hive/Model/AdsRealm.lean); calls on one instance never change another instance's state and every instance behaves as if alone (C09_instances_independent, C09_instances_independent_run), the key spaces of compatible realms are disjoint in the flat store (C09_key_spaces_disjoint); 2 of 5 sessions of the differential run put all instances over sibling / nested / prefix-related realm views of ONE shared mapdb, hold the same entries in several of them, delete+commit in one and reopen the others. End to end over the trie model: the trie calls issued by the glue along any history, run on the trie with extension nodes, give equal root digests for equal plain maps and (collision-free hashes, no path collision among the occurring keys) different digests for different maps (C09_glue_over_trie_contents, C09_glue_over_trie_root_content_only, C09_glue_over_trie_root_injective). The persistent layout is regenerated from the source and pinned (C09_layout_regenerated, C09_skeleton_constructor, C09_skeleton_set_flavour, C09_skeleton_adapter, C09_skeleton_type_map) and read back from the database below the store view by the differential op peek. The independent Go oracle also compares every root with a fresh map fed the same contents, opens a probe instance after every Commit, checks Stream exactly in the store's key order, drives maps whose deserializers do not copy through read-modify-write-back histories, and shrinks failing sessions to a few lines. Serializers and store faults (round 6): the identifier serializers are modelled where the code uses them (root cell through the codec, import from the raw decoded root): any round-tripping pair, whatever its stored form, is invisible and a Commit whose encoder fails or whose root cell cannot be written is a no-op (C09_id_codec_invisible, C09_id_codec_run, C09_id_reopen_after_commit, C09_fault_root_write_noop), restored iff a Commit wrote the cell for any pair (C09_id_restored_iff_commit), a failing decoder starts a new trie (C09_id_decoder_failure), handing the stored form to the import breaks reopen (C09_id_import_through_codec_witness); the typed surface over arbitrary round-tripping key/value serializers is a plain map K -> Option V and its Stream is the decoded stream (C09_typed_refines, C09_typed_stream); Set/Delete under write faults of the size cell / raw-key store have no roll-back and the trie is always ahead (C09_fault_trie_follows_attempts, C09_fault_what_lags). The differential run constructs half of its sessions with tag-byte / reversed / length-byte identifier, key and value serializers (oracle on the stored contents), makes identifier serializers and store writes fail (a probe instance after a failed Commit must be exactly the last committed state), streams over raw keys that do not decode, and runs bulk sessions of 30-90 keys. Concurrent use: a protocol theorem over every schedule and any number of goroutines (C09_serialised: write sections are mutually exclusive, the log of completed calls is a run of the sequential machine, so every history theorem applies; C09_concurrent_quiescent: Size = card and Stream = present keys whenever no write is in progress; C09_concurrent_readers), the lock/call skeletons of all map_impl.go methods regenerated from the source on every run (C09_skeleton_*), and a stress part (goroutines released together on the same fresh key and on fresh keys of their own, quiescent observations judged by the Lean trace predicates, -race in the thorough tier).",
        "note": "Trusted: Lean kernel; model Hive/Model/Ads.lean (tie = differential execution); pokt-network/smt and SHA-256 abstracted as Root = rootOf(contents), injectivity of rootOf only as theorem hypothesis; one live instance per store; Int size; write faults of the node store and read faults not modelled; serializer theorems assume round-tripping pairs and a lawful digest comparison.",
        "technique": "Lean 4 refinement proof (invariant + abstraction function, induction over histories) + canonical-form proof for the trie + interleaving-protocol invariant + differential correspondence (glue, trie shapes, root equality classes) + regenerated lock skeletons + stress judged by Lean trace predicates",
    },
    "assumptions": ["several instances in one database: realms pairwise compatible (no region id realm+{0,1,2,3} of one is a prefix of a region id of another; C09_key_spaces_disjoint); the database is modelled at the granularity of these regions",
                    "one live instance per store view at a time; an instance replaced by reopen is never used again",
                    "reopen at commit points for the property theorems (the model itself also follows the code for reopens with un-committed changes, and the tie compares those too)"],
}
