# C12 = part A (checks/c12a.py: ShrinkingMap, RandomMap, heaps, Queue, RingBuffer, Stack) + part B (checks/c12b.py:
# BytesFilter, Walker, TimeHeap, IndexedStorage, OnChangeMap, SubscriptionManager), merged.
import os, sys
sys.path.insert(0, os.path.dirname(os.path.dirname(os.path.abspath(__file__))))
import checklib
SPEC = checklib.merge_specs([checklib.load_dev_spec(n) for n in ("c12a", "c12b")],
                            technique="Lean 4 refinement / invariant proofs by induction over operation histories + differential correspondence (two harness/driver pairs)")
