# C12 = part A (checks/c12a.py: ShrinkingMap, RandomMap, heaps, Queue, RingBuffer, Stack) + part B (checks/c12b.py:
# BytesFilter, Walker, TimeHeap, IndexedStorage, OnChangeMap, SubscriptionManager), merged.
import importlib.util, os
_d = os.path.dirname(os.path.abspath(__file__))


def _load(n):
    s = importlib.util.spec_from_file_location(n, os.path.join(_d, n + ".py"))
    m = importlib.util.module_from_spec(s)
    s.loader.exec_module(m)
    return m.SPEC


_a, _b = _load("c12a"), _load("c12b")
SPEC = {
    "lean_props": [_a["lean_props"], _b["lean_props"]],
    "lean_namespace": [_a["lean_namespace"], _b["lean_namespace"]],
    "parts": [{"driver": _a["driver"], "harness": _a["harness"]}, {"driver": _b["driver"], "harness": _b["harness"]}],
    "theorems": _a["theorems"] + _b["theorems"],
    "trusted_base": _a["trusted_base"] + _b["trusted_base"],
    "modelled": _a["modelled"] + _b["modelled"],
    "assumptions": _a.get("assumptions", []) + _b.get("assumptions", []),
    "manifest": {
        "text": _a["manifest"]["text"] + " || " + _b["manifest"]["text"],
        "note": _a["manifest"]["note"] + " " + _b["manifest"].get("note", ""),
        "technique": "Lean 4 refinement / invariant proofs by induction over operation histories + differential correspondence (two harness/driver pairs)",
    },
}
