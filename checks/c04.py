import os, sys
sys.path.insert(0, os.path.dirname(os.path.dirname(os.path.abspath(__file__))))
import checklib

CALL_FILES = ["kvstore/kvstore.go", "kvstore/mapdb/mapdb.go", "kvstore/mapdb/synced_map.go", "kvstore/flushkv/flushkv.go",
              "kvstore/debug/debug.go", "kvstore/utils/utils.go"]


WRAP_FILES = ["kvstore/flushkv/flushkv.go", "kvstore/debug/debug.go", "kvstore/kvstore.go", "kvstore/utils/utils.go",
              "serializer/byteutils/byteutils.go"]


def regen(ctx):
    """Five regenerated modules (the first two pinned by `rfl` obligations in Hive/Props/C04.lean, C04_Wrap / C04_Map / C04_Sync are the INPUT
    of the theorems C04_wrapper_model_is_the_source_* / C04_mapdb_*model_is_the_source / C04_synced_map_model_is_the_source):
    Hive/Gen/C04_Skel.lean  - type facts (struct fields of the stores and batches, underlying types of IterDirection / Command / BitMask);
    Hive/Gen/C04_Calls.lean - for every function of the anchored kvstore files the calls it makes, in source order, with the
                              arguments expressed by parameter positions (harness/c04/gen)."""
    fails = checklib.regen_skeletons(ctx, [
        "kvstore/mapdb/mapdb.go:type=mapDB", "kvstore/mapdb/mapdb.go:type=batchedMutations", "kvstore/mapdb/synced_map.go:type=syncedKVMap",
        "kvstore/flushkv/flushkv.go:type=flushKVStore", "kvstore/debug/debug.go:type=debugStore", "kvstore/debug/debug.go:type=Command",
        "kvstore/kvstore.go:type=IterDirection", "ds/bitmask/bitmask.go:type=BitMask"])
    out = os.path.join(checklib.LEAN, "Hive", "Gen", "C04_Calls.lean")
    tmp = os.path.join(ctx.scratch, "C04_Calls.lean")
    if os.path.exists(tmp):
        os.remove(tmp)
    rc, log = checklib.sh(["go", "run", "./c04/gen", tmp, "Hive.Gen.C04Calls"] + [os.path.join(ctx.repo, f) for f in CALL_FILES],
                          cwd=checklib.HARNESS, timeout=600)
    if rc != 0 or not os.path.exists(tmp):
        return fails + [{"kind": "call-extractor", "detail": checklib.tail(log, 20)}]
    checklib.write_gen(ctx, out, open(tmp).read())
    # Hive/Gen/C04_Wrap.lean: the method bodies of flushkv.go / debug.go translated into the statement language of
    # Hive/Model/KVWrapSrc.lean (harness/c04/wgen); the wrapper model is proved to be their interpretation
    out = os.path.join(checklib.LEAN, "Hive", "Gen", "C04_Wrap.lean")
    tmp = os.path.join(ctx.scratch, "C04_Wrap.lean")
    if os.path.exists(tmp):
        os.remove(tmp)
    rc, log = checklib.sh(["go", "run", "./c04/wgen", tmp, "Hive.Gen.C04Wrap"] + [os.path.join(ctx.repo, f) for f in WRAP_FILES],
                          cwd=checklib.HARNESS, timeout=600)
    if rc != 0 or not os.path.exists(tmp):
        return fails + [{"kind": "wrapper-translator", "detail": checklib.tail(log, 20)}]
    checklib.write_gen(ctx, out, open(tmp).read())
    # Hive/Gen/C04_Map.lean: the method bodies of mapdb.go translated into the statement language of Hive/Model/KVMapSrc.lean
    # (harness/c04/mgen); the value model of views and batches is proved to be their interpretation
    out = os.path.join(checklib.LEAN, "Hive", "Gen", "C04_Map.lean")
    tmp = os.path.join(ctx.scratch, "C04_Map.lean")
    if os.path.exists(tmp):
        os.remove(tmp)
    rc, log = checklib.sh(["go", "run", "./c04/mgen", tmp, "Hive.Gen.C04Map", os.path.join(ctx.repo, "kvstore/mapdb/mapdb.go")],
                          cwd=checklib.HARNESS, timeout=600)
    if rc != 0 or not os.path.exists(tmp):
        return fails + [{"kind": "mapdb-translator", "detail": checklib.tail(log, 20)}]
    checklib.write_gen(ctx, out, open(tmp).read())
    # Hive/Gen/C04_Sync.lean: the method bodies of synced_map.go (harness/c04/sgen); the map primitives of the model
    # (aget/aset/adel/adelPfx, the snapshot / sort / strip / stop pipeline) are proved to be their interpretation
    out = os.path.join(checklib.LEAN, "Hive", "Gen", "C04_Sync.lean")
    tmp = os.path.join(ctx.scratch, "C04_Sync.lean")
    if os.path.exists(tmp):
        os.remove(tmp)
    rc, log = checklib.sh(["go", "run", "./c04/sgen", tmp, "Hive.Gen.C04Sync", os.path.join(ctx.repo, "kvstore/mapdb/synced_map.go")],
                          cwd=checklib.HARNESS, timeout=600)
    if rc != 0 or not os.path.exists(tmp):
        return fails + [{"kind": "synced-map-translator", "detail": checklib.tail(log, 20)}]
    checklib.write_gen(ctx, out, open(tmp).read())
    return fails


SPEC = {
    "lean_props": "Hive.Props.C04",
    "lean_namespace": "Hive.KV",
    "regen": regen,
    "driver": "drv_c04",
    "harness": "c04",
    "theorems": ["C04_refines", "C04_refines_all_histories", "C04_inv_reachable", "C04_wrappers_transparent",
                 "C04_get_after_set", "C04_get_after_delete", "C04_has_iff_get", "C04_has_iff_get_iff_iterated", "C04_iterate_exact",
                 "C04_deletePrefix_exact", "C04_batch_last_wins", "C04_cancel_noop", "C04_batch_handles_independent",
                 "C04_closed_everything_fails", "C04_close_is_final", "C04_copy_refines", "C04_copy_spec", "C04_prefix_range",
                 "C04_upperBound_none", "C04_concatBytes", "C04_copyBytes", "C04_readAvailable", "C04_copyBatched_loop_is_chunks", "C04_closed_forever", "C04_iterate_backward_is_reverse",
                 "C04_wrapper_trace", "C04_debug_reports", "C04_flush_follows_mutation", "C04_trace_tables_agree", "C04_fault_free_is_model",
                 "C04_flush_error_surfaces", "C04_copy_stops_at_first_error", "C04_private_inv_reachable",
                 "C04_caller_writes_do_not_reach_the_store", "C04_set_stores_a_copy", "C04_get_returns_a_private_copy", "C04_iterate_hands_out_copies", "C04_commit_stores_copies",
                 "C04_mem_inv_reachable", "C04_store_never_writes_existing_buffers", "C04_private_buffers_are_frozen",
                 "C04_mem_caller_writes_do_not_reach_the_store", "C04_mem_keyed_calls_read_their_buffers_at_call_time",
                 "C04_mem_get_returns_a_private_copy", "C04_extended_realm_is_a_private_copy", "C04_withRealm_keeps_the_callers_slice",
                 "C04_batch_keeps_private_key_copies", "C04_mem_commit_stores_copies", "C04_iterate_keys_hands_out_copies",
                 "C04_iterate_hands_out_key_and_value_copies", "C04_mem_stored_data_evolves_by_value",
                 "C04_mem_step_refines_value_model", "C04_mem_refines_value_model", "C04_mem_stored_data_is_the_ordered_map",
                 "C04_wrapper_model_is_the_source_flushkv", "C04_wrapper_model_is_the_source_debug", "C04_wrapper_constructors_text",
                 "C04_trace_model_is_sem",
                 "C04_mapdb_model_is_the_source", "C04_mapdb_batch_model_is_the_source", "C04_mapdb_constructor_text",
                 "C04_synced_map_model_is_the_source", "C04_helper_functions_text",
                 "C04_calls_mapdb", "C04_calls_flushkv", "C04_calls_debug", "C04_calls_kvstore_utils", "C04_skeleton_types"],
    "trusted_base": [
        "model Hive/Model/KV.lean of kvstore/mapdb (+ flushkv, debug wrappers): its view / batch functions (dbGet ... dbCommit, the batch "
        "bookkeeping) and the wrapper trace model are proved to be the interpretation of the method bodies translated from the working tree "
        "on every run (Hive/Gen/C04_Map.lean, C04_Sync.lean, C04_Wrap.lean; theorems C04_mapdb_*model_is_the_source, "
        "C04_synced_map_model_is_the_source, C04_wrapper_model_is_the_source_*); "
        "trusted there: the three go/ast translators (harness/c04/mgen, sgen, wgen: unknown statement forms become `.other`), the interpreters "
        "Hive/Model/KVMapSrc.lean / KVWrapSrc.lean / KVSyncSrc.lean (what a closed check, a Go map operation, a range loop, a callback guard "
        "mean; syncedKVMap's methods are derived too - C04_synced_map_model_is_the_source - so the primitives left are the Go map, "
        "strings.HasPrefix, the slice copies, utils.SortSlice); all of it validated by line-by-line differential execution (harness/c04) "
        "on every run - answers and, below a recording store, the forwarded calls / debug callbacks - and by the regenerated call lists and "
        "type facts (Hive/Gen/C04_Calls.lean, C04_Skel.lean; obligations C04_calls_*)",
        "the memory model Hive/Model/KVMem.lean (every slice a reference: keys, prefixes, realms, values) is driven line by line against the "
        "real code (memory stream: buffers overwritten and reused at any time); the older value-only memory model KVHeap.lean is tied by its "
        "erasure and the pinned ConcatBytes call sites",
        "specification Hive/Spec/KV.lean (one key-sorted list keyed by realm||key) - this is what 'ordered-map contract' means",
        "Go toolchain, compiled Lean driver drv_c04",
    ],
    "modelled": [
        "mapdb.mapDB / syncedKVMap / batchedMutations, flushkv and debug stores and their batches: every KVStore and "
        "BatchedMutations method, sequentially (locks are C05's subject)",
        "Go map = association list without order; byteutils.ConcatBytes copies = value semantics of the model "
        "(aliasing is what the harness's buffer scribbling looks for)",
        "sort.Sort(sort.StringSlice) = insertion sort by bytewise order; strings.HasPrefix = List.isPrefixOf",
        "kvstore.Copy / CopyBatched (Hive/Model/KVCopy.lean: Iterate snapshot + Set per entry / batches of n with a final commit), "
        "kvstore.GetIterDirection, utils.KeyPrefixUpperBound, utils.CopyBytes, byteutils.ConcatBytes(ToString); two store trees = a pair "
        "of independent model instances",
        "what the wrappers forward (Hive/Model/KVTrace.lean): debug callbacks by filter / nil callback with command and arguments, the calls "
        "reaching the wrapped store in order, flushkv's Flush after each successful mutation, WithExtendedRealm = Realm + WithRealm; "
        "error paths with an injected Flush failure (Hive/Model/KVFault.lean: flushAfterMutation, Copy / CopyBatched stopping at the first "
        "error); an unknown iteration direction (panic, nothing changes); mapdb with memory (Hive/Model/KVHeap.lean: which buffers are "
        "copied, which are kept) for the private-copy clause",
        "mapdb with memory, second level (Hive/Model/KVMem.lean): key / prefix / realm / value buffers as references - WithRealm keeps the "
        "caller's realm slice, WithExtendedRealm / Realm() copy, keyed calls read their buffers at call time, batch Set / Delete copy the key "
        "and keep the value slice, Commit reads the realm buffer and copies the values when it runs, the iterations make a new buffer per key; "
        "driven line by line (m ... requests)",
        "the method bodies of mapdb.go, synced_map.go, flushkv.go, debug.go as translated terms (Hive/Gen/C04_Map.lean, C04_Sync.lean, "
        "C04_Wrap.lean) with interpreters (Hive/Model/KVMapSrc.lean, KVSyncSrc.lean, KVWrapSrc.lean)",
        "nil vs empty slices: one byte string in the model (`~` and `-` of the line protocol)",
        "NOT modelled: concurrency (C05); kvstore.Copy / CopyBatched with a target that is closed DURING the copy (probed on every run, "
        "evidence coverage.extra observation_Copy*: CopyBatched with a batch size calls Cancel on a nil batch there - outside the statement)",
    ],
    "manifest": {
        "text": "Theorems (no bounds on history length, view tree, realm/key/prefix bytes, wrapper stack): the model of mapdb with views, "
                "batches and the flushkv/debug wrappers refines a single key-sorted list keyed by realm||key, per request "
                "(C04_refines) and for all histories from a fresh store (C04_refines_all_histories); wrappers are transparent "
                "(C04_wrappers_transparent); Get/Has see the last write through every overlapping view (C04_get_after_set, "
                "C04_get_after_delete, C04_has_iff_get); Iterate/IterateKeys report exactly the realm-stripped keys carrying the prefix, "
                "strictly ordered in the requested direction, cut at the consumer's stop (C04_iterate_exact); DeletePrefix/Clear remove "
                "exactly the prefixed keys (C04_deletePrefix_exact); Commit applies the last call per key, Cancel nothing "
                "(C04_batch_last_wins, C04_cancel_noop), and whatever is done with a batch handle - also a finished one - changes no "
                "other batch (C04_batch_handles_independent); after Close every read/write/iteration/view/batch/Flush/Commit fails with "
                "ErrStoreClosed forever (C04_closed_everything_fails, C04_close_is_final); two independent store trees with kvstore.Copy / "
                "CopyBatched (any batch size) between or within them refine 'insert every entry of the source view under the target realm' "
                "(C04_copy_refines, C04_copy_spec); a key carries prefix p iff p <= k < KeyPrefixUpperBound(p), no bound exactly for the "
                "empty / all-0xff prefix (C04_prefix_range, C04_upperBound_none); ConcatBytes / CopyBytes (C04_concatBytes, C04_copyBytes). Tie: differential run of the real packages "
                "against the compiled model over random view trees (depth<=3) x wrapper stacks x 40-op histories, with every buffer "
                "passed to Set / finished batches and every buffer returned by reads scribbled over (private-copy clause), plus an "
                "independent sorted-map oracle in Go; every second history runs over two store trees with Copy/CopyBatched (batch sizes around the "
                "view size) between them; a pure-helper stream (KeyPrefixUpperBound on all 781 prefixes of length <= 4 over {00,01,7f,fe,ff}, "
                "ConcatBytes/ConcatBytesToString incl. aliasing with arguments that have spare capacity, CopyBytes, GetIterDirection) is compared "
                "with the Lean definitions and with Go reference oracles. Extension round: the side effects of the wrappers - debug callbacks "
                "(by filter, nil callback, command constant, arguments) and the calls reaching the wrapped store in order, incl. flushkv's Flush after "
                "each successful mutation - have a model (KVTrace) with a normal-form theorem for every stack (C04_wrapper_trace, C04_debug_reports, "
                "C04_flush_follows_mutation, C04_trace_tables_agree) and are observed below a recording store in two of three trees; the error paths "
                "(a Flush that fails other than with ErrStoreClosed: flushAfterMutation, Copy / CopyBatched stopping at the first error) have a model "
                "(KVFault; C04_fault_free_is_model, C04_flush_error_surfaces, C04_copy_stops_at_first_error) and are injected by the recording store; "
                "C04_closed_forever, C04_iterate_backward_is_reverse; the private-copy clause is proved over a model of mapdb with memory (KVHeap: "
                "C04_private_inv_reachable, C04_caller_writes_do_not_reach_the_store, C04_set_stores_a_copy, C04_get_returns_a_private_copy, "
                "C04_commit_stores_copies); the calls every function of the anchored kvstore files makes (source order, arguments by parameter "
                "position) and the declared types are regenerated on every run and pinned (C04_calls_mapdb/_flushkv/_debug/_kvstore_utils, "
                "C04_skeleton_types). Failing histories are minimised by delta debugging before they are reported; every request runs under a watchdog. "
                "Round 6: (1) derived models - harness/c04/mgen, sgen and wgen translate every method body of mapdb.go, synced_map.go, flushkv.go, "
                "debug.go on every run (Hive/Gen/C04_Map.lean, C04_Sync.lean, C04_Wrap.lean); the interpreted bodies of syncedKVMap are aget / aset / "
                "adel / adelPfx and the snapshot-sort-strip-stop pipeline of the iterations (C04_synced_map_model_is_the_source); interpreting the generated bodies gives exactly the model's dbGet/dbHas/dbSet/dbDelete/"
                "dbDeletePrefix/dbClear/dbCheck/dbIterate/dbIterateKeys/dbCommit, view and batch creation and the batch bookkeeping "
                "(C04_mapdb_model_is_the_source, C04_mapdb_batch_model_is_the_source), and one layer of the wrapper trace model over any stack, "
                "for every method and every debug.New configuration (C04_wrapper_model_is_the_source_flushkv/_debug, C04_trace_model_is_sem); "
                "constructors pinned as source text. (2) memory model with key / prefix / realm buffers (KVMem), driven line by line by a "
                "memory stream in which the harness holds numbered buffers, overwrites and reuses them at any time: C04_mem_inv_reachable, "
                "C04_store_never_writes_existing_buffers, C04_private_buffers_are_frozen, C04_mem_caller_writes_do_not_reach_the_store, "
                "C04_mem_keyed_calls_read_their_buffers_at_call_time, C04_mem_get_returns_a_private_copy, C04_batch_keeps_private_key_copies, "
                "C04_mem_commit_stores_copies, C04_iterate_keys_hands_out_copies, C04_iterate_hands_out_key_and_value_copies, "
                "C04_extended_realm_is_a_private_copy, C04_withRealm_keeps_the_callers_slice (the code keeps that slice; outside the statement), "
                "C04_mem_stored_data_evolves_by_value, and the simulation C04_mem_step_refines_value_model / C04_mem_refines_value_model: while no "
                "caller write hits a buffer a live view or pending batch still references, every request of the memory model is the value-model "
                "request with the arguments as the buffers read at the call, with corresponding answers (chain: memory model -> value model -> spec); "
                "Go oracles caller-write-changed-stored-data, caller-buffer-changed, batch-commit-contract. (3) nil vs empty slices for keys, "
                "prefixes, realms, values on every call incl. batches; C04_has_iff_get_iff_iterated (Has <=> Get succeeds <=> the iterations "
                "report the key, zero-length keys and values included). (4) bulk histories (120..400 entries through one big batch, long values), "
                "occasional long keys / values, negative CopyBatched batch sizes; Copy / CopyBatched probed with a target that is closed during "
                "the copy; every hand-modelled helper (Copy, CopyBatched, GetIterDirection, KeyPrefixUpperBound, SortSlice, CopyBytes, ConcatBytes, "
                "ConcatBytesToString, ReadAvailableBytesToBuffer, the constructors) pinned as normalised source text (C04_helper_functions_text).",
        "note": "Trusted: Lean kernel; the three go/ast translators and the interpreters of the translated method bodies (the map / view / batch / "
                "wrapper functions of the model are proved equal to the interpreted source; primitive: Go map, HasPrefix, copies, SortSlice), all "
                "validated differentially on every run; the specification file. The private-copy clause is proved over the memory models KVHeap "
                "(values) and KVMem (keys, prefixes, realms, values; driven line by line by the memory stream). Concurrency is C05.",
        "technique": "Lean 4 refinement proof (model -> ordered-map spec, lifted by induction to all histories) + model functions derived from "
                     "go/ast-translated method bodies + differential correspondence (answers, forwarded calls, buffer contents)",
    },
    "assumptions": ["sequential use (C05 covers concurrent use)",
                    "for the value-level theorems only: a batch's value buffers are not mutated while the batch may still be committed and realm "
                    "buffers passed to WithRealm are not mutated - this is the hypothesis `Safe` of C04_mem_refines_value_model, under which the "
                    "memory model (which covers both, and is driven by the memory stream) is proved to simulate the value model"],
}
