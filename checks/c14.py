import os, sys
sys.path.insert(0, os.path.dirname(os.path.dirname(os.path.abspath(__file__))))
import checklib

R = "ds/reactive/"
SKELETONS = [
    R + "variable_impl.go:variable.Compute", R + "variable_impl.go:variable.updateValue",
    R + "variable_impl.go:readableVariable.OnUpdate", R + "variable_impl.go:readableVariable.Get",
    R + "variable_impl.go:variable.InheritFrom",
    R + "utils.go:callback.LockExecution", R + "utils.go:callback.MarkUnsubscribed",
    R + "set_impl.go:set.Apply", R + "set_impl.go:readableSet.OnUpdate",
    R + "set_impl.go:derivedSet.inheritMutations", R + "set_impl.go:derivedSet.applyInheritedMutations",
    R + "counter_impl.go:counter.Monitor",
    R + "sorted_set_impl.go:sortedSet.addSorted", R + "sorted_set_impl.go:sortedSet.deleteSorted",
    R + "sorted_set_impl.go:sortedSet.Ascending",
    R + "wait_group_impl.go:waitGroup.Add", R + "wait_group_impl.go:waitGroup.Done",
    R + "eviction_state_impl.go:evictionState.Evict", R + "eviction_state_impl.go:evictionState.evict",
    R + "eviction_state_impl.go:evictionState.EvictionEvent",
]
EXTRA = ["LockExecution", "UnlockExecution", "MarkUnsubscribed", "Invoke", "Trigger", "OnUpdate", "Compute", "Set", "Get",
         "Add", "Delete", "unsubscribeFromWeightUpdates", "updatePosition", "Apply"]


def regen(ctx):
    return checklib.regen_skeletons(ctx, SKELETONS, extra_methods=EXTRA)


SPEC = {
    "lean_props": "Hive.Props.C14",
    "regen": regen,
    "lean_namespace": ["Hive.Derived", "Hive.Gen.C14Skel"],
    "driver": "drv_c14",
    "harness": "c14",
    "harness_timeout": {"quick": 900, "thorough": 6000},
    "theorems": [
        "C14_derived_var", "C14_derived_var_steady", "C14_inherit",
        "C14_derived_set", "C14_derived_set_counts", "C14_subtract", "C14_counter",
        "C14_sorted_set", "C14_sorted_set_spec", "C14_sorted_set_members", "C14_sorted_set_absent_weight",
        "C14_eviction", "C14_eviction_unique", "C14_eviction_pre",
        "C14_waitgroup_sequential", "C14_waitgroup_counter", "C14_waitgroup_only_if", "C14_waitgroup",
        "C14_deadlock_free", "C14_scripts_ranked",
        "C14_derived_set_old_replace_witness", "C14_counter_old_unsubscribe_witness", "C14_waitgroup_old_race_witness",
        "C14_sorted_set_inversion_witness",
        "C14_skeleton_variable_Compute", "C14_skeleton_readableVariable_OnUpdate", "C14_skeleton_sortedSet_deleteSorted",
        "C14_skeleton_sortedSet_addSorted", "C14_skeleton_waitGroup_Add", "C14_skeleton_waitGroup_Done",
        "C14_skeleton_evictionState_evict", "C14_skeleton_derivedSet_inheritMutations", "C14_skeleton_callback_LockExecution",
    ],
    "trusted_base": [
        "hand-written models lean/Hive/Model/Derived*.lean of ds/reactive, tied by (1) line-by-line differential execution of the sequential models, "
        "(2) quiescence predicates (Hive/Spec/Derived.lean) evaluated by the Lean driver on values read from the real code after concurrent stress, "
        "(3) regenerated synchronisation skeletons (Hive/Gen/C14_Skel.lean) compared with the skeletons the protocol models and lock scripts were written against",
        "Go toolchain, compiled Lean driver, harness/tools/extract-sync",
    ],
    "modelled": [],
    "manifest": {},
    "assumptions": [],
}
