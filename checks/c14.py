import os, sys
sys.path.insert(0, os.path.dirname(os.path.dirname(os.path.abspath(__file__))))
import checklib

R = "ds/reactive/"
SKELETONS = [
    R + "variable_impl.go:variable.Compute", R + "variable_impl.go:variable.updateValue",
    R + "variable_impl.go:readableVariable.OnUpdate", R + "variable_impl.go:readableVariable.Get",
    R + "variable_impl.go:variable.InheritFrom",
    R + "variable.go:NewDerivedVariable", R + "variable.go:NewDerivedVariable2", R + "variable.go:NewDerivedVariable3",
    R + "variable.go:NewDerivedVariable4",
    R + "utils.go:callback.LockExecution", R + "utils.go:callback.MarkUnsubscribed",
    R + "set_impl.go:set.Apply", R + "set_impl.go:readableSet.OnUpdate",
    R + "set_impl.go:set.apply", R + "sorted_set_impl.go:sortedSet.updatePosition", R + "sorted_set_impl.go:sortedSet.swap",
    R + "set_impl.go:set.Compute", R + "set_impl.go:readableSet.SubtractReactive", R + "set_impl.go:derivedSet.InheritFrom",
    R + "set_impl.go:derivedSet.inheritMutations", R + "set_impl.go:derivedSet.applyInheritedMutations",
    R + "counter_impl.go:counter.Monitor",
    R + "sorted_set_impl.go:sortedSet.addSorted", R + "sorted_set_impl.go:sortedSet.deleteSorted",
    R + "sorted_set_impl.go:sortedSet.Ascending",
    R + "wait_group_impl.go:waitGroup.Add", R + "wait_group_impl.go:waitGroup.Done",
    R + "eviction_state_impl.go:evictionState.Evict", R + "eviction_state_impl.go:evictionState.evict",
    R + "eviction_state_impl.go:evictionState.EvictionEvent",
    "ds/shrinkingmap/shrinkingmap.go:ShrinkingMap.GetOrCreate",
    # type facts: counter widths, the slot types EvictionState admits, fields that could shadow an embedded one
    R + "wait_group_impl.go:type=waitGroup", R + "eviction_state_impl.go:type=evictionState", "ds/set_impl.go:type=setArithmetic",
    R + "variable_impl.go:type=derivedVariable", R + "counter_impl.go:type=counter", R + "eviction_state.go:type=EvictionStateSlotType",
    R + "sorted_set_impl.go:type=sortedSetElement", R + "set_impl.go:type=derivedSet",
    R + "variable_impl.go:derivedVariable.Unsubscribe", R + "variable_impl.go:variable.DeriveValueFrom",
    # every write path of the reactive Set notifies its subscribers inside the same write mutex (sixth round: Compute moved the
    # notification behind the Unlock; Add/AddAll/Delete/DeleteAll go through Apply, Replace has its own copy of the loop)
    R + "set_impl.go:set.Add", R + "set_impl.go:set.AddAll", R + "set_impl.go:set.Delete", R + "set_impl.go:set.DeleteAll",
    R + "set_impl.go:set.Replace", R + "set_impl.go:set.replace",
]
EXTRA = ["LockExecution", "UnlockExecution", "MarkUnsubscribed", "Invoke", "Trigger", "OnUpdate", "Compute", "Set", "Get",
         "Add", "Delete", "unsubscribeFromWeightUpdates", "updatePosition", "Apply", "Subtract", "ForEachKey", "DeleteAndReturn"]


def regen_facts(ctx):
    """lean/Hive/Gen/C14_Facts.lean: the OnUpdate subscriptions of the constructors (receiver + triggerWithInitialZeroValue
    argument, source order) and the guard of OnUpdate's initial invocation (harness/c14/facts, go/ast), rewritten from the
    working tree on every run; the DerivedVariable protocol theorem is instantiated with these flags (C14_derived_var_code)."""
    out = os.path.join(checklib.LEAN, "Hive", "Gen", "C14_Facts.lean")
    tmp = os.path.join(ctx.scratch, "C14_Facts.lean")
    rc, log = checklib.sh(["go", "run", "./c14/facts", tmp, "Hive.Gen.C14Facts", ctx.repo], cwd=checklib.HARNESS, timeout=600)
    if rc != 0 or not os.path.exists(tmp):
        return [{"kind": "facts-extractor", "detail": checklib.tail(log, 20)}]
    checklib.write_gen(ctx, out, open(tmp).read())
    return []


def regen(ctx):
    return checklib.regen_skeletons(ctx, SKELETONS, extra_methods=EXTRA) + regen_facts(ctx)


SPEC = {
    "lean_props": "Hive.Props.C14",
    "regen": regen,
    "lean_namespace": ["Hive.Derived", "Hive.Gen.C14Skel"],
    "driver": "drv_c14",
    "harness": "c14",
    "harness_timeout": {"quick": 900, "thorough": 6000},
    "theorems": [
        "C14_derived_var", "C14_derived_var_code", "C14_derived_var_needs_last_flag", "C14_facts_subscriptions", "C14_facts_onupdate_guard", "C14_derived_var_steady", "C14_inherit", "C14_derived_var_unsubscribe", "C14_derived_var_frozen",
        "C14_derived_set", "C14_derived_set_counts", "C14_subtract", "C14_counter",
        "C14_derived_set_concurrent", "C14_subtract_concurrent", "C14_skeleton_readableSet_SubtractReactive", "C14_counter_concurrent", "C14_counter_concurrent_code", "C14_counter_needs_flag_witness", "C14_sorted_set_concurrent",
        "C14_sorted_set", "C14_sorted_set_spec", "C14_sorted_set_members", "C14_sorted_set_absent_weight",
        "C14_eviction", "C14_eviction_unique", "C14_eviction_pre", "C14_eviction_concurrent", "C14_eviction_concurrent_safety", "C14_skeleton_ShrinkingMap_GetOrCreate",
        "C14_compose_quiescent", "C14_compose_derived_set", "C14_compose_subtract", "C14_compose_unique", "C14_compose_unique_general", "C14_compose_shapes_acyclic", "C14_compose_settle_is_run", "C14_derived_var_replay_is_run", "C14_compose_late_publication_witness",
        "C14_eviction_refines", "C14_eviction_locked", "C14_eviction_test_outside_lock_witness",
        "C14_skeleton_set_Add", "C14_skeleton_set_AddAll", "C14_skeleton_set_Delete", "C14_skeleton_set_DeleteAll", "C14_skeleton_set_Replace", "C14_skeleton_set_replace",
        "C14_eviction_fire", "C14_eviction_old_negative_witness", "C14_eviction_old_fractional_witness", "C14_eviction_old_loop_witness", "C14_eviction_old_loop_below_top",
        "C14_waitgroup_sequential", "C14_waitgroup_counter", "C14_waitgroup_only_if", "C14_waitgroup",
        "C14_deadlock_free", "C14_scripts_ranked", "C14_ranked_deadlock_free",
        "C14_derived_set_old_replace_witness", "C14_counter_old_unsubscribe_witness", "C14_waitgroup_old_race_witness",
        "C14_sorted_set_inversion_witness", "C14_sorted_set_add_window_witness", "C14_sorted_set_callback_locked",
        "C14_skeleton_variable_Compute", "C14_skeleton_NewDerivedVariable2", "C14_skeleton_readableVariable_OnUpdate", "C14_skeleton_sortedSet_deleteSorted",
        "C14_skeleton_sortedSet_addSorted", "C14_skeleton_waitGroup_Add", "C14_skeleton_waitGroup_Done",
        "C14_skeleton_evictionState_evict", "C14_skeleton_derivedSet_inheritMutations", "C14_skeleton_callback_LockExecution",
        "C14_skeleton_derivedVariable_Unsubscribe", "C14_skeleton_variable_DeriveValueFrom", "C14_skeleton_type_waitGroup", "C14_skeleton_type_evictionState",
        "C14_skeleton_type_setArithmetic", "C14_skeleton_type_derivedVariable", "C14_skeleton_type_counter", "C14_skeleton_type_EvictionStateSlotType",
        "C14_skeleton_type_sortedSetElement", "C14_skeleton_type_derivedSet",
    ],
    "trusted_base": [
        "hand-written models lean/Hive/Model/Derived*.lean of ds/reactive, tied by (1) line-by-line differential execution of the sequential models, "
        "(2) quiescence predicates (Hive/Spec/Derived.lean) evaluated by the Lean driver on values read from the real code after concurrent stress, "
        "(3) regenerated synchronisation skeletons (Hive/Gen/C14_Skel.lean) compared with the skeletons the protocol models and lock scripts were written against",
        "Go toolchain, compiled Lean driver, harness/tools/extract-sync",
    ],
    "modelled": [
        "sets pointwise (membership functions; batches = (added, deleted) membership): faithful because ds.Set.Apply, SetArithmetic and the reactive set treat one element at a time; iteration order of ds.Set is not modelled (outputs are sorted)",
        "compositions of DerivedSet / SubtractReactive as an executable transition system on one element (pointwise projection; subscriptions and unsubscriptions of DerivedSet sources inside the composition included)",
        "DerivedVariable/InheritFrom protocol model: input variables with update-order mutex, value store, callback execution lock, registration, per-subscription triggerWithInitialZeroValue flag; the derived variable's own subscribers are not modelled (compositional: acyclic derivation graph); compute = function of the inputs only (a compute that depends on currentValue defines a fold, not a function of the inputs)",
        "DerivedVariable call by call (inputs with values at creation, initial value, Unsubscribe, DeriveValueFrom)",
        "Counter, EvictionState (slots = Int: every integer slot type and, counted in quarters, float slots between two integers; evict = the registered slots up to the evicted one in ascending order; float slots beyond the exactly representable range and 64-bit unsigned slots above MaxInt64 not generated), WaitGroup (call by call and as protocol model with atomic steps = set insertion / deletion, counter add, Trigger)",
        "SortedSet sequentially (slice + index fields + heaviest/lightest); Less modelled as < on element ids; the addSorted window is modelled separately swap by swap (Win.winSys)",
        "deadlock freedom at the level of lock scripts computed from the regenerated skeletons (all locks exclusive; control flow flattened; per-function token environments hand-written); also tied by the stress watchdog",
        "unsubscribe functions are called at most once (a second call of a DerivedSet's unsubscribe subtracts the mirror again: modelled as the code does it, excluded by the theorem's hypothesis)",
    ],
    "manifest": {
        "text": "Unbounded Lean theorems: for every history of source writes (Add/Delete/Apply/Replace), InheritFrom and unsubscriptions a DerivedSet equals the union of its live sources via occurrence counts (C14_derived_set), SubtractReactive the source minus the others (C14_subtract), a Counter the number of monitored inputs satisfying the condition (C14_counter), a SortedSet is sorted by current weight with consistent indices and Heaviest/Lightest at the ends and ignores weights of absent elements (C14_sorted_set*), an EvictionState has triggered exactly the events of slots up to the last evicted slot (C14_eviction*) for slots of either sign and float slots between two integers (C14_eviction_fire; witnesses C14_eviction_old_negative_witness, C14_eviction_old_fractional_witness, C14_eviction_old_loop_witness for the probing loop before the repairs), a DerivedVariable call by call equals compute of the inputs at its last recomputation, the current ones while subscribed, and is frozen by Unsubscribe (C14_derived_var_unsubscribe, C14_derived_var_frozen), under asynchronous in-order delivery (every interleaving of writers on different sources, subscribers, unsubscribers, Add/Delete and weight updates) DerivedSet, Counter and SortedSet satisfy the same at quiescence (C14_derived_set_concurrent, C14_counter_concurrent, C14_sorted_set_concurrent), a WaitGroup triggers iff its last pending element is marked done (C14_waitgroup_sequential, and C14_waitgroup / C14_waitgroup_only_if / C14_waitgroup_counter for any pool of Add/Done goroutines under every schedule); for any number of writers with arbitrary scripts and the constructor running concurrently - each subscription registering silently when its input holds the zero value and it was made without triggerWithInitialZeroValue, as OnUpdate does - a DerivedVariable equals compute(current inputs) at quiescence provided the LAST subscription carries the flag (C14_derived_var; necessary: C14_derived_var_needs_last_flag), which holds for NewDerivedVariable1..4 and InheritFrom by evaluating the subscription lists regenerated from variable.go (C14_derived_var_code, C14_facts_subscriptions, C14_facts_onupdate_guard; C14_derived_var_steady, C14_inherit); compositions: for any wiring of base sets, DerivedSets and SubtractReactive results of any depth under asynchronous delivery with every derived node publishing its change in the step that applies it, subscriptions and unsubscriptions of DerivedSet sources interleaved, at quiescence every node satisfies its defining equation over the current values of the inputs it is subscribed to, and for an acyclic wiring the equations have exactly one solution - the composed function (C14_compose_quiescent, C14_compose_derived_set, C14_compose_subtract, C14_compose_unique; C14_compose_late_publication_witness for publication outside the write mutex); EvictionState also at lock level with evict()'s test and update as separate steps under the write lock, by refinement to the call-level model (C14_eviction_refines, C14_eviction_locked; C14_eviction_test_outside_lock_witness for the test in front of the critical section); SubtractReactive and EvictionState have protocol-level theorems too (C14_subtract_concurrent, C14_eviction_concurrent); the lock scripts are computed from the regenerated skeletons, ranked for every instantiation, and no pool of catalogue calls deadlocks, fresh and conditional callback-lock acquisitions and leaf mutexes included (C14_scripts_ranked, C14_deadlock_free, C14_ranked_deadlock_free); the repaired addSorted callback always holds the mutex (C14_sorted_set_callback_locked). Witness theorems for the eight repaired defects (incl. the addSorted window, decided by a forced schedule through a second verif hook). Tie on every run: line-by-line differential of ~3200 random call histories against the real ds/reactive code, concurrent stress to quiescence (writers + structural changes) whose final input/derived values are decided by the Lean driver with the predicates of the theorems, progress watchdogs (sequential and concurrent), the forced WaitGroup schedule through a verif hook, an independent Go oracle of every defining function, slot types / slot jumps / sizes / values of every magnitude (4096, 65536, 2^20 thresholds; size scenarios up to 2^20 elements), 42 regenerated synchronisation skeletons and type facts (every write path of the reactive Set notifies inside its write mutex) and the regenerated subscription facts as proof obligations; forced schedules of the sixth round: a writer inside the m-th computation of a DerivedVariable constructor clearing later inputs (every arity, int/bool/string inputs), an observer that parks one writer inside its notification of an intermediate node / a plain set while a second writer makes the inverse change through another write path, evictors released from a barrier; a writer inside the OnUpdate window of every subscribing call through the hook VerifOnUpdateWindow; the forced DerivedVariable schedules are replayed on the protocol model with the flags regenerated from the code and must end with the implementation's derived value and inputs (C14_derived_var_replay_is_run: the replay is a run of the model); stress of stacked derivations (8 shapes two and three levels deep, DerivedVariable chains with a Counter on top, a SortedSet weighted by DerivedVariables, WithElements consumers) checked after every round.",
        "note": "Trusted: Lean kernel; hand-written models (Hive/Model/Derived*.lean) tied by differential execution, quiescence predicates and regenerated skeletons; lock scripts hand-written (ranks proved, scripts tied only by skeletons + watchdog); derivation graph assumed acyclic, user callbacks opaque; compute functions of inputs only; unsubscribe functions called at most once.",
        "technique": "Lean 4 invariant proofs by induction over call histories and over reachable configurations of interleaving protocol models (arbitrary thread pools) + lock-rank theorem + differential / quiescence / skeleton correspondence",
    },
    "assumptions": [
        "the derivation graph of reactive objects is acyclic (needed for termination / lock order and for the uniqueness part C14_compose_unique; the per-node quiescence equations C14_compose_quiescent hold for any wiring) and user callbacks do not write to the inputs",
        "each unsubscribe function is called at most once",
        "compute functions depend on the inputs only",
    ],
}
