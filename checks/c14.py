SPEC = {
    "lean_props": "Hive.Props.C14",
    "lean_namespace": "Hive.Derived",
    "driver": "drv_c14",
    "harness": "c14",
    "harness_timeout": {"quick": 900, "thorough": 6000},
    "trusted_base": [],
    "modelled": [],
    "manifest": {},
    "assumptions": [],
}
