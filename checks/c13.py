import os, sys
sys.path.insert(0, os.path.dirname(os.path.dirname(os.path.abspath(__file__))))
import checklib

R = "ds/reactive/"


def regen(ctx):
    return checklib.regen_skeletons(
        ctx,
        [R + "variable_impl.go:variable.Compute", R + "variable_impl.go:variable.updateValue",
         R + "variable_impl.go:readableVariable.OnUpdate", R + "utils.go:callback.LockExecution",
         R + "utils.go:callback.UnlockExecution", R + "utils.go:callback.MarkUnsubscribed",
         R + "set_impl.go:set.Apply", R + "set_impl.go:set.Compute", R + "set_impl.go:set.Replace",
         R + "set_impl.go:set.apply", R + "set_impl.go:set.replace", R + "set_impl.go:readableSet.OnUpdate",
         R + "event_impl.go:event.Trigger", R + "event_impl.go:event.OnTrigger",
         # the subscription variants, the reader and the remaining writers of Variable
         R + "variable_impl.go:readableVariable.OnUpdateOnce", R + "variable_impl.go:readableVariable.OnUpdateWithContext",
         R + "variable_impl.go:readableVariable.WithValue", R + "variable_impl.go:readableVariable.WithNonEmptyValue",
         R + "variable_impl.go:readableVariable.Read", R + "variable_impl.go:readableVariable.Get",
         R + "variable_impl.go:variable.Init", R + "variable_impl.go:variable.Set", R + "variable_impl.go:variable.DefaultTo",
         R + "variable_impl.go:variable.ToggleValue", R + "variable_impl.go:variable.InheritFrom",
         R + "variable_impl.go:variable.DeriveValueFrom",
         # a DerivedSet's inherited mutations are one more writer of the same protocol
         R + "set_impl.go:derivedSet.inheritMutations", R + "set_impl.go:derivedSet.applyInheritedMutations",
         # the callback list: every access of the notification path holds the list mutex around the whole walk
         "ds/list_impl.go:threadSafeList.Values", "ds/list_impl.go:threadSafeList.PushBack",
         "ds/list_impl.go:threadSafeList.Remove", "ds/list_impl.go:threadSafeList.Range",
         "ds/list_impl.go:list.Values", "ds/list_impl.go:list.Range",
         # ... and what Remove / PushBack / the walk do to the links and the length counter (the model's `listed`)
         "ds/list_impl.go:list.Remove", "ds/list_impl.go:list.remove", "ds/list_impl.go:list.PushBack",
         "ds/list_impl.go:list.insert", "ds/list_impl.go:list.Front", "ds/list_impl.go:listElement.Next",
         "ds/list_impl.go:type=list", "ds/list_impl.go:type=listElement",
         # the remaining writers of Set are all Apply; the id counter
         R + "set_impl.go:set.Add", R + "set_impl.go:set.AddAll", R + "set_impl.go:set.Delete", R + "set_impl.go:set.DeleteAll",
         R + "utils.go:uniqueID.Next",
         # a list element is allocated per insert (never handed to a second subscription); the remaining subscription
         # variant of Set, the remaining readers / writers of the anchored files
         "ds/list_impl.go:list.insertValue", R + "set_impl.go:readableSet.WithElements", R + "set_impl.go:set.Decode",
         R + "event_impl.go:event.WasTriggered", R + "variable_impl.go:readableVariable.LogUpdates",
         # type facts: which mutex a selector resolves to, and the width of the update id
         R + "variable_impl.go:type=variable", R + "variable_impl.go:type=readableVariable",
         R + "set_impl.go:type=set", R + "set_impl.go:type=readableSet", R + "set_impl.go:type=derivedSet",
         R + "utils.go:type=callback", R + "utils.go:type=uniqueID", R + "event_impl.go:type=event",
         "ds/list_impl.go:type=threadSafeList"],
        extra_methods=["LockExecution", "UnlockExecution", "MarkUnsubscribed", "Invoke", "PushBack", "Remove",
                       "Values", "Next", "updateValue", "apply", "replace", "ToSlice", "Range", "applyInheritedMutations",
                       "Get", "Set", "Compute", "Trigger", "WasTriggered", "OnTrigger", "OnUpdate", "OnUpdateWithContext", "WithValue",
                       "InheritFrom", "Unsubscribe", "Apply", "Load", "Store", "remove", "insert", "insertValue", "lazyInit"])


SPEC = {
    "lean_props": "Hive.Props.C13",
    "regen": regen,
    "lean_namespace": "Hive.Reactive",
    "driver": "drv_c13",
    "harness": "c13",
    "race": True,
    "theorems": ["C13_chain", "C13_last_is_final", "C13_set_fold", "C13_set_fold_step", "C13_callbacks_exclusive",
                 "C13_callbacks_closed", "C13_none_after_unsubscribe_returned", "C13_exactly_once_in_order",
                 "C13_every_change_delivered", "C13_update_id_test_never_fires", "C13_var_trace_ok", "C13_set_trace_ok",
                 "C13_old_replace_witness", "C13_replace_needs_snapshot_witness", "C13_replace_self",
                 "C13_skeleton_variable_Compute", "C13_skeleton_variable_updateValue", "C13_skeleton_variable_OnUpdate",
                 "C13_skeleton_callback_LockExecution", "C13_skeleton_callback_UnlockExecution",
                 "C13_skeleton_callback_MarkUnsubscribed", "C13_skeleton_set_Apply", "C13_skeleton_set_Compute",
                 "C13_skeleton_set_Replace", "C13_skeleton_set_apply", "C13_skeleton_set_replace",
                 "C13_skeleton_set_OnUpdate", "C13_skeleton_event_Trigger", "C13_skeleton_event_OnTrigger",
                 "C13_skeleton_list_Values", "C13_skeleton_list_PushBack", "C13_skeleton_list_Remove", "C13_skeleton_list_Range",
                 "C13_skeleton_list_inner_Values", "C13_skeleton_list_inner_Range",
                 "C13_skeleton_derivedSet_inheritMutations", "C13_skeleton_derivedSet_applyInheritedMutations",
                 "C13_skeleton_type_variable", "C13_skeleton_type_readableVariable", "C13_skeleton_type_set",
                 "C13_skeleton_type_readableSet", "C13_skeleton_type_derivedSet", "C13_skeleton_type_callback",
                 "C13_skeleton_type_uniqueID", "C13_skeleton_type_event", "C13_skeleton_type_threadSafeList",
                 "C13_once_at_most_one", "C13_once_first_match", "C13_once_never_again", "C13_once_in_protocol",
                 "C13_withvalue_alternates", "C13_withvalue_closed_after_teardown", "C13_withvalue_setups", "C13_context_torn_down",
                 "C13_skeleton_variable_OnUpdateOnce", "C13_skeleton_variable_OnUpdateWithContext", "C13_skeleton_variable_WithValue",
                 "C13_skeleton_variable_WithNonEmptyValue", "C13_skeleton_variable_Read", "C13_skeleton_variable_Get",
                 "C13_skeleton_variable_Init", "C13_skeleton_variable_Set", "C13_skeleton_variable_DefaultTo",
                 "C13_skeleton_variable_ToggleValue", "C13_skeleton_variable_InheritFrom", "C13_skeleton_variable_DeriveValueFrom",
                 "C13_directed_reachable", "C13_directed_logs_ok", "C13_directed_unsubscribed_in_snapshot_example",
                 "C13_early_return_is_noop", "C13_variable_never_early", "C13_idle_call_quiet",
                 "C13_skeleton_list_inner_Remove", "C13_skeleton_list_inner_remove", "C13_skeleton_list_inner_PushBack",
                 "C13_skeleton_list_inner_insert", "C13_skeleton_list_inner_Front", "C13_skeleton_listElement_Next",
                 "C13_skeleton_type_list", "C13_skeleton_type_listElement", "C13_skeleton_set_Add", "C13_skeleton_set_AddAll",
                 "C13_skeleton_set_Delete", "C13_skeleton_set_DeleteAll", "C13_skeleton_uniqueID_Next",
                 "C13_set_notes_true_difference", "C13_repeated_unsubscribe_noop", "C13_late_unsubscribe_example",
                 "C13_withelements_active", "C13_withelements_alternates", "C13_withelements_closed_after_teardown",
                 "C13_withelements_in_protocol", "C13_skeleton_list_inner_insertValue", "C13_skeleton_set_WithElements",
                 "C13_skeleton_set_Decode", "C13_skeleton_event_WasTriggered", "C13_skeleton_variable_LogUpdates",
                 "C13_event_trace_ok", "C13_directed_set_logs_ok", "C13_decode_is_not_a_writer_witness", "C13_withvalue_in_protocol",
                 "C13_fresh_elements_stale_remove_noop", "C13_recycled_element_witness"],
    "trusted_base": [
        "hand-written protocol model Hive/Model/Reactive.lean (+ ReactiveInst.lean) of ds/reactive variable_impl.go / set_impl.go / "
        "event_impl.go / utils.go, tied by (a) regenerated synchronisation skeletons stated as theorems, (b) differential execution of "
        "the sequential reading (harness/c13 vs drv_c13), (c) the same trace predicates evaluated on logs recorded from real goroutines",
        "Go toolchain and scheduler (stress explores schedules, it does not enumerate them), compiled Lean driver",
    ],
    "modelled": [
        "atomic steps = lock-protected sections: {compute, value := new, id := ++uid, snapshot := Values()} under the value mutex; "
        "{PushBack, LockExecution on the fresh callback} under the value mutex; LockExecution = {lock, test, skip+unlock | lastUpdate := id}; "
        "MarkUnsubscribed = {lock, set, unlock}; ds.List PushBack/Remove/Values are atomic (threadSafeList mutex)",
        "callback bodies are opaque (enter/exit events): a callback that writes to or unsubscribes from its own object is NOT modelled (it self-deadlocks in the code)",
        "the value mutex is an RWMutex in the code; readers (Get/Read/ToSlice) are not threads of the model, Get() is read at quiescence",
        "update ids are unbounded naturals, justified by uniqueID = uint64 (obligation C13_skeleton_type_uniqueID)",
        "a DerivedSet's subscribers are covered (inheritMutations = one more writer under the same embedded set.mutex); what a derived object computes (DerivedVariable, DerivedSet contents) is C14's, not modelled here",
        "the subscription variants (OnUpdateOnce, OnUpdateWithContext, WithValue / WithNonEmptyValue, WithElements, LogUpdates) are sequential machines over the note stream of one inner OnUpdate subscription; that the stream is consumed sequentially is C13_callbacks_exclusive, the composition itself is tied by the differential (newvarx / newsetx cases, osub/wsub/csub/esub logs), not proved",
        "Set.Decode (merge without notification) is outside the statement's writers; pinned by C13_skeleton_set_Decode, witness C13_decode_is_not_a_writer_witness",
        "Set contents are lists of naturals compared as sets; ds.Set's iteration order is not modelled",
    ],
    "manifest": {
        "text": "Lean 4 protocol model (Hive.Conc.Sys) of the reactive Variable / Event / Set: shared value, update-id counter, update-order mutex, "
                "value mutex, callback list, per callback {unsubscribed, lastUpdate, execution mutex, event log}; any number of writer / "
                "subscriber / unsubscriber threads with arbitrary scripts. Invariants proved by induction over all reachable configurations "
                "(three layers: lock exclusion; update ids / initial phase / unsubscription / bracketing; ghost delivery history as in DESIGN "
                "Appendix F) give, for every schedule: C13_chain, C13_last_is_final, C13_set_fold (+ sequential C13_set_fold_step), "
                "C13_callbacks_exclusive, C13_none_after_unsubscribe_returned, C13_exactly_once_in_order, C13_every_change_delivered, and "
                "C13_var_trace_ok / C13_set_trace_ok: the decidable trace predicates drv_c13 evaluates on logs recorded from the real code "
                "hold for every subscription of the model; C13_set_notes_true_difference (every note of a Set subscription is a true difference, at every prefix); "
                "C13_repeated_unsubscribe_noop (repeated / late calls of an unsubscribe function change nothing); the subscription variants OnUpdateOnce / "
                "WithValue / OnUpdateWithContext / WithElements as machines over the note stream with C13_once_* / C13_withvalue_* / C13_context_torn_down / "
                "C13_withelements_* theorems. Tie on every run: regenerated lock/call skeletons and type facts of ~60 functions / types as theorems; "
                "sequential differential (Set Add/AddAll/Delete/DeleteAll/Apply/Compute/Replace diffs and subscriber folds over a 5-element "
                "universe, Variable Set/Compute/DefaultTo, Event Trigger, OnUpdate with/without initial trigger, unsubscribe, every subscription variant incl. "
                "WithElements and LogUpdates, the update-id counter); directed schedules (gated callbacks, goroutine statuses compared with the model's step function); "
                "stress with 4-8 goroutines per round plus crowd / walk / twin / barrier rounds (concurrent unsubscriptions of neighbours while a writer snapshots) "
                "and window rounds (a subscriber parked between registration and initial invocation through the verif hook VerifOnUpdateWindow while a writer changes the object), "
                "per-subscription logs stamped by an atomic logical clock, judged by drv_c13 and by an independent Go oracle.",
        "note": "Trusted: Lean kernel; the hand-written model (atomicity = lock-protected sections, opaque non-reentrant callbacks); the Go scheduler only "
                "samples schedules in the tie. Fixed defect: reactive Set.Replace reported all-new as added and all-old as deleted (036bec1).",
        "technique": "Lean 4 inductive invariants over an interleaving model + regenerated skeleton obligations + differential and trace-predicate correspondence",
    },
    "assumptions": ["callbacks do not re-enter the reactive object they are subscribed to",
                    "unsubscribe functions are called only after OnUpdate has returned them (the model allows even more: any time after registration)"],
}
