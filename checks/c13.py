SPEC = {
    "lean_props": "Hive.Props.C13",
    "lean_namespace": "Hive.Reactive",
    "driver": "drv_c13",
    "harness": "c13",
    "race": True,
    "theorems": [],
    "trusted_base": [],
    "modelled": [],
    "manifest": {"text": "", "note": "", "technique": ""},
    "assumptions": [],
}
