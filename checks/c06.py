import os, sys
sys.path.insert(0, os.path.dirname(os.path.dirname(os.path.abspath(__file__))))
import checklib


def regen(ctx):
    tv = ["kvstore/typedvalue.go:TypedValue." + m for m in ("Get", "Has", "Compute", "Set", "Delete")]
    ts = ["kvstore/typedstore.go:TypedStore." + m for m in ("Get", "Has", "Set", "Delete", "Iterate", "IterateKeys", "DeletePrefix", "Clear")]
    types = ["kvstore/typedvalue.go:type=TypedValue", "kvstore/typedstore.go:type=TypedStore", "runtime/syncutils/mutex.go:type=RWMutex"]
    fails = checklib.regen_skeletons(ctx, tv + ts + types, extra_methods=["Get", "Set", "Delete", "Has", "Iterate", "IterateKeys", "DeletePrefix",
                                                                          "Clear", "cachedValue"]) or []
    return fails + regen_code(ctx)


def regen_code(ctx):
    """Regenerate Hive/Gen/C06_Code.lean: the method bodies of TypedValue translated to the statement language of
    Hive/Model/TypedCode.lean (harness/c06/xlate).  Hive/Proofs/TypedCode.lean re-proves `translated code = model`."""
    out = os.path.join(checklib.LEAN, "Hive", "Gen", "C06_Code.lean")
    src = os.path.join(ctx.repo, "kvstore", "typedvalue.go")
    tmp = os.path.join(ctx.scratch, "C06_Code.lean")
    rc, log = checklib.sh(["go", "run", "./c06/xlate", src, tmp], cwd=checklib.HARNESS, timeout=600)
    if rc != 0 or not os.path.exists(tmp):
        return [{"kind": "translator", "detail": "harness/c06/xlate failed (kvstore/typedvalue.go outside the supported subset, "
                 "or a pointer fact the model relies on no longer holds):\n" + checklib.tail(log, 20)}]
    checklib.write_gen(ctx, out, open(tmp).read())
    # the point methods of TypedStore (harness/c06/xlate_ts -> Hive/Gen/C06_StoreCode.lean; Hive/Proofs/TypedStoreCode.lean)
    out2 = os.path.join(checklib.LEAN, "Hive", "Gen", "C06_StoreCode.lean")
    src2 = os.path.join(ctx.repo, "kvstore", "typedstore.go")
    tmp2 = os.path.join(ctx.scratch, "C06_StoreCode.lean")
    rc, log = checklib.sh(["go", "run", "./c06/xlate_ts", src2, tmp2], cwd=checklib.HARNESS, timeout=600)
    if rc != 0 or not os.path.exists(tmp2):
        return [{"kind": "translator", "detail": "harness/c06/xlate_ts failed (kvstore/typedstore.go: a point method of TypedStore is outside the "
                 "supported subset, e.g. calls another store method):\n" + checklib.tail(log, 20)}]
    checklib.write_gen(ctx, out2, open(tmp2).read())
    return []


SPEC = {
    "lean_props": "Hive.Props.C06",
    "regen": regen,
    "lean_namespace": ["Hive.Typed", "Hive.Typed.Conc"],
    "driver": "drv_c06",
    "harness": "c06",
    "race": True,
    "theorems": ["C06_cache_coherent", "C06_transparent", "C06_stored_is_last_written", "C06_failure_atomic",
                 "C06_store_transparent", "C06_store_failure_atomic", "C06_store_iterate_stops_at_first_decode_error",
                 "C06_store_set_get", "C06_store_stored_is_last_written", "C06_stored_is_last_written_aliasing", "C06_store_iterate_keys", "C06_store_delete_prefix_clear", "C06_serialised_judge", "C06_fault_reported", "C06_old_compute_witness",
                 "C06_serialised", "C06_serialised_coherent", "C06_serialised_readers", "C06_serialised_counter",
                 "C06_skeleton_get", "C06_skeleton_has", "C06_skeleton_compute", "C06_skeleton_set", "C06_skeleton_delete",
                 "C06_skeleton_store_get", "C06_skeleton_store_has", "C06_skeleton_store_set", "C06_skeleton_store_delete",
                 "C06_skeleton_store_iterate", "C06_skeleton_store_iterate_keys", "C06_skeleton_store_delete_prefix_clear",
                 "C06_skeleton_type_typedvalue", "C06_skeleton_type_typedstore", "C06_skeleton_type_rwmutex",
                 "C06_code_refines_model", "C06_code_coherent_failure_atomic", "C06_code_lock_discipline",
                 "C06_code_upgrade_window", "C06_code_serialised", "C06_compute_ownership", "C06_compute_argument_fresh", "C06_linearizable_judge", "C06_linearizable", "C06_no_deadlock", "C06_dirty_store_failure", "C06_dirty_store_witness", "C06_store_code_refines_model", "C06_store_bulk_partial", "C06_code_whole_files"],
    "trusted_base": ["TypedValue (sequential): translator harness/c06/xlate (go/ast -> statement language, ~500 lines) and the language's semantics "
                     "Hive/Model/TypedCode.lean; the hand-written model Hive/Model/TypedValue.lean is PROVED equal to the translated method bodies "
                     "(C06_code_refines_model); translator + semantics are cross-checked on every run by executing the translated term against the real code",
                     "TypedStore (all eight methods): translator harness/c06/xlate_ts (~500 lines) and semantics Hive/Model/TypedStoreCode.lean (incl. the underlying store's iteration loop calling the translated consumer closure); "
                     "the hand-written model is PROVED equal to the translated bodies (C06_store_code_refines_model), cross-checked on every run against the real code",
                     "hand-written models Hive/Model/TypedStore.lean (the underlying store: get/insert/erase/entries, iteration loop), TypedConc.lean, TypedRef.lean of kvstore/typedstore.go, the lock protocol and TypedValue[*T], "
                     "tied by differential execution with fault injection (harness/c06), regenerated skeletons / type facts and the lock-discipline obligation",
                     "Go toolchain, compiled Lean driver, Go's sync.RWMutex semantics as written in Hive/Model/TypedConc.lean"],
    "modelled": ["regenerated: the bodies of TypedValue.Get/Has/Compute/Set/Delete/cachedValue as terms of a statement language (conditions, early returns, nil dereferences, "
                 "which variable each call result lands in / each condition tests, error wrapping and ierrors.Is, store calls by position, store reporting its errors bare or wrapped)",
                 "TypedValue Get/Has/Set/Delete/Compute over one raw key with both cache fields, per-call fault vector, call trace",
                 "reference-typed V (TypedValue[*T]): generic model at V := Ref with a heap-dependent codec (Hive/Model/TypedRef.lean); caller mutations change the heap only; cache coherence / transparency are claimed only while the caller has not mutated a cached object (aliasing assumption), last-written and failure atomicity always",
                 "TypedStore Get/Has/Set/Delete/Iterate/IterateKeys/DeletePrefix/Clear over a sorted association list; all eight also regenerated from the source as terms of a second statement language (Iterate/IterateKeys: consumer closure + store loop)",
                 "key codecs: fixed-width uint16 and a variable-length, not prefix-free one; value codecs: 8-byte uint64 and one with a zero-length encoding of 0",
                 "stores whose failing write took effect (dirty failures): stepD; error reporting and cache untouched proved, coherence loss shown by a witness",
                 "protocol: RLock fast path / Lock slow path with read, store-write and cache-update micro-steps; RLock without writer preference (more schedules)",
                 "upgrade window: the translated Get/Has split at their first Lock() into fast part / slow part, each run alone from arbitrary states; the code-level protocol over them equals the protocol model",
                 "ghost-clock protocol model (invocation and linearization times) for the real-time order of the log; linearizability judge over timed histories",
                 "ownership: the compute function's argument is the value this call decoded (a fresh object for reference types), never the cached one",
                 "a panicking compute function is modelled as a failing one (nothing changes); the lock-discipline walk requires a deferred release around foreign calls",
                 "uint64 wrap-around of the counter workload after 2^64 increments is NOT modelled (Nat)",
                 "bulk deletions of the underlying store (DeletePrefix/Clear) failing up front or after n removed entries (bulkDelete); iterations failing after n delivered entries (kvAfter)",
                 "constructors, accessors and the list of function declarations of both files as regenerated facts (C06_code_whole_files)",
                 "apart from the dirty write failures and part-way bulk failures above a failing store call is assumed to have no effect on the store"],
    "manifest": {
        "text": "Theorems over every history and every fault vector (which store call / codec call / compute function fails, including natural codec failures and ErrTypedValueNotChanged): cache always equals the store (C06_cache_coherent), no fault => results equal the raw key under the codec (C06_transparent), the stored bytes are the encoding of the last successful write (C06_stored_is_last_written), every failed call is reported with its own error and leaves store and cache unchanged (C06_failure_atomic); the same for TypedStore incl. iteration stopping at the first decode error (C06_store_*); protocol theorem over every schedule and thread count: write sections are mutually exclusive and the log of completed operations is a run of the sequential machine, hence no lost update and readers see only written values (C06_serialised*). The TypedValue model is re-derived from the source on every run: the method bodies are translated to a statement language and proved equal to the model in every state (C06_code_refines_model), and their lock discipline is decided (C06_code_lock_discipline, incl. deferred release around foreign calls); the slow paths of Get/Has, run alone from EVERY state (the state after another caller filled the cache in the RUnlock->Lock window), equal the sequential step and the code-level protocol equals the protocol model (C06_code_upgrade_window, C06_code_serialised); the protocol with a ghost clock logs every call at a point between its invocation and return, in log order (C06_linearizable), is deadlock-free (C06_no_deadlock); Compute hands its function the value it decoded itself, never the cached object (C06_compute_ownership). Models are re-validated on every run by a line-by-line differential run against the real code behind a fault-injecting KVStore and failing codecs (result, call trace, raw bytes and both cache fields compared after every step), an independent in-Go property oracle, and a concurrent part decided by the Lean trace predicates: stress rounds, forced schedules (writer parked in the store, reader parked in its store call, readers pending behind a Compute parked in its callback so that they all miss the fast path and queue for the write lock) and free-running timed histories checked for linearizability (linOk, C06_linearizable_judge).",
        "note": "Trusted: Lean kernel; the three hand-written models (tie = differential execution: every single-fault position per op kind x cache state x raw state enumerated, random histories, concurrent stress); sync.RWMutex semantics; failing store calls assumed effect-free.",
        "technique": "Lean 4 invariant/refinement proofs over histories x fault vectors + model regenerated from the Go source by a translator and re-proved + interleaving-protocol invariant + differential correspondence with fault injection and forced schedules",
    },
    "assumptions": ["the TypedValue is the only writer of its key (the cache is never invalidated from outside)",
                    "codec round trip (dec (enc v) = v) for the theorems that say so",
                    "C06_cache_coherent / C06_transparent: values are immutable (the caller does not mutate an object held by the cache); C06_stored_is_last_written_aliasing and C06_failure_atomic do not need this"],
}
