# Development config of the binary serix part of C01 (`./check C01A`); to be merged into checks/c01.py as
#   parts: [{"driver": "drv_c01", "harness": "c01"}, ...]; lean_props: ["Hive.Props.C01", ...]; lean_namespace: [..., "Hive.Serix"].
SPEC = {
    "lean_props": "Hive.Props.C01",
    "lean_namespace": "Hive.Serix",
    "theorem_prefix": "C01",
    "parts": [{"driver": "drv_c01", "harness": "c01"}, {"driver": "drv_c01", "harness": "c01/obj"}],
    "theorems": ["C01_decode_encode", "C01_decode_encode_exact", "C01_encode_perm_invariant", "C01_encode_order_irrelevant", "C01_decode_encode_any_order",
                 "C01_encode_no_panic", "C01_prim_roundtrip", "C01_prim_chain_roundtrip", "C01_prim_payloadLen_roundtrip", "C01_prim_num_unsigned", "C01_prim_num_signed", "C01_prim_time_saturates", "C01_obj_roundtrip", "C01_payload_roundtrip", "C01_payload_nil_roundtrip", "C01_objslice_roundtrip", "C01_optional_empty_witness", "C01_time_keys_witness", "C01_autosort_array_keys_witness",
                 "C01_binary_statement_fails_witness"],
    "trusted_base": ["hand-written model Hive/Model/Serix.lean of serializer/serix/{encode,decode}.go over serializer/serializer.go, tied by differential execution (harness/c01, harness/serixgen)",
                     "schema derivation by reflection harness/serixgen/derive.go (mirrors the TypeSettings merge of serix with the public accessors)",
                     "Go toolchain, compiled Lean driver"],
    "modelled": ["serix API.Encode/API.Decode for bool, (u)int8..64, float32/64 (bit patterns), string, []byte, byte arrays, *big.Int, time.Time, slices, arrays, maps, structs (embedded, optional, inlined), pointers, registered interfaces; all length prefix widths; ArrayRules min/max, no-duplicates, lexical order, at-most-one-of-each-type (byte/uint32), must-occur, lexicalOrdering auto-sort",
                 "custom Serializable/Deserializable types as Ty.custom (object code + the type's own self-delimiting encoding n::payload, the value being that encoding; other custom codecs are parameters); NOT modelled: syntactic validators (parameters of the API), error texts (one outcome `err`), float/pointer/interface map keys, encodings of 4 GiB and more (uint32 optional marker), ds.Set / SerializableOrderedMap Encode/Decode (left to C11)"],
    "assumptions": ["values are identified up to nil/empty slices and maps (Decode returns empty, never nil, collections)",
                    "C01_decode_encode assumes Ty.wf (decidable; the harness recomputes it for every derived schema and the Lean driver must agree) and an encoding shorter than 2^32 bytes"],
    "manifest": {
        "text": "Binary serix part of C01. Theorem C01_decode_encode: for every well-formed schema (mutual inductive Ty/Fields/Alts mirroring what decides the wire shape), every value, both validation modes and every trailing input, decode (encode v ++ rest) = (canon v, |encode v|), proved by mutual structural induction with a sequence combinator shared by slices, arrays and maps (sorting by encoded bytes, element validators, must-occur). C01_encode_perm_invariant: a map given as any permutation of its entries encodes to the same bytes. Witness theorems show the unrestricted statement is false for the code as it is (optional *struct{}, empty-encoding duplicates, saturating time keys). The model is re-validated on every run by differential execution: catalogue of hand-written Go types plus randomly generated registered universes (reflect.StructOf/SliceOf/ArrayOf/MapOf/PointerTo in a fresh serix.API); the schema sent to Lean is derived by reflection from the Go type and the registered TypeSettings; enc / dec(enc) / canon / mutated dec lines are compared line by line, and an independent Go oracle checks Decode(Encode(v)) == canon(v), n = len, with and without trailing bytes, and determinism (encode twice, rebuilt maps).",
        "note": "Trusted: Lean kernel; model Hive/Model/Serix.lean and the reflection-based schema derivation (tie = differential execution, ~2600 universes x 3 values x 2 modes in the quick tier); custom Serializable types and validators are parameters, not modelled.",
        "technique": "Lean 4 mutual structural induction over a schema type + differential correspondence with reflection-derived schemas",
    },
}
