# Development config of the binary serix part of C01 (`./check C01A`); merged into checks/c01.py.
SPEC = {
    "lean_props": "Hive.Props.C01",
    "lean_namespace": "Hive.Serix",
    "theorem_prefix": "C01",
    "driver": "drv_c01",
    "harness": "c01",
    "trusted_base": ["hand-written model Hive/Model/Serix.lean of serializer/serix/{encode,decode}.go over serializer/serializer.go, tied by differential execution (harness/c01, harness/serixgen)",
                     "schema derivation by reflection harness/serixgen/derive.go (mirrors the TypeSettings merge of serix)",
                     "Go toolchain, compiled Lean driver"],
    "modelled": ["serix API.Encode/API.Decode for bool, (u)int8..64, float32/64 (bit patterns), string, []byte, byte arrays, *big.Int, time.Time, slices, arrays, maps, structs (embedded, optional, inlined), pointers, registered interfaces; all length prefix widths; ArrayRules min/max, no-duplicates, lexical order, at-most-one-of-each-type (byte/uint32), must-occur, lexicalOrdering auto-sort",
                 "NOT modelled: user supplied Serializable/Deserializable implementations and syntactic validators (parameters), error texts (one outcome `err`), float map keys, encodings of 4 GiB and more"],
    "assumptions": ["values are identified up to nil/empty slices and maps (Decode returns empty, never nil, collections)"],
}
