SPEC = {
    "lean_props": "Hive.Props.C03",
    "lean_namespace": "Hive.Serix",
    "driver": "drv_c03",
    "harness": "c03",
    "trusted_base": ["hand-written model Hive/Model/Serix.lean of serializer/serix/{encode,decode}.go over serializer/serializer.go; the Lean encoder is the independent reference encoder, pinned to the documented layout by the C03_layout_* theorems and tied to the code by differential execution (harness/c03, harness/serixgen)",
                     "schema derivation by reflection harness/serixgen/derive.go (mirrors the TypeSettings merge of serix)",
                     "Go toolchain, compiled Lean driver"],
    "modelled": ["as C01 (binary serix codec); Opts.strictTime is a specification device: 'the strict decoder accepts b' formalises 'all timestamps of the input lie inside the int64-nanosecond range'",
                 "NOT modelled: user supplied Serializable/Deserializable implementations and syntactic validators, error texts, float map keys"],
    "assumptions": ["values are identified up to nil/empty slices and maps"],
}
