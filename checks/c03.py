SPEC = {
    "lean_props": "Hive.Props.C03",
    "lean_namespace": "Hive.Serix",
    # part 0: serix Encode/Decode against the Lean reference codec; part 1: the Serializer / Deserializer chains of
    # serializer/serializer.go driven call by call (Hive/Model/SerixPrim.lean); one driver serves both line protocols
    "parts": [{"driver": "drv_c03", "harness": "c03"}, {"driver": "drv_c03", "harness": "c03/prim"}],
    "theorems": ["C03_canonical", "C03_strict_time_refines", "C03_no_malleability", "C03_layout_uint", "C03_layout_int",
                 "C03_layout_bool", "C03_layout_bool_strict", "C03_layout_bytes", "C03_layout_str", "C03_layout_prefix_width",
                 "C03_layout_slice", "C03_layout_map", "C03_layout_code", "C03_layout_optional", "C03_layout_u256",
                 "C03_layout_time", "C03_golden_scalars_example", "C03_golden_prefixes_example", "C03_golden_minmax_example",
                 "C03_golden_map_example", "C03_golden_optional_code_example", "C03_bytearray_bounds_example", "C03_merge_priority",
                 "C03_validators_exact", "C03_must_occur_set", "C03_rules_exact", "C03_write_seq_refines", "C03_partial_write_prefix",
                 "C03_serializer_sticky", "C03_serializer_concat", "C03_prim_example"],
    "trusted_base": ["hand-written model Hive/Model/Serix.lean of serializer/serix/{encode,decode}.go over serializer/serializer.go; the Lean encoder is the independent reference encoder, pinned to the documented layout by the C03_layout_* theorems and tied to the code by differential execution (harness/c03, harness/serixgen)",
                     "schema derivation by reflection harness/serixgen/derive.go (mirrors the TypeSettings merge of serix)",
                     "Go toolchain, compiled Lean driver (also run by the harness as the reference encoder of the layout oracle)"],
    "modelled": ["as C01 (binary serix codec); Opts.strictTime is a specification device: 'the strict decoder accepts b' formalises 'all timestamps of the input lie inside the int64-nanosecond range' (C03_strict_time_refines ties it to the real decoder)",
                 "custom Serializable/Deserializable types as Ty.custom (self-delimiting encodings); NOT modelled: syntactic validators, error texts, float/pointer/interface map keys"],
    "assumptions": ["values are identified up to nil/empty slices and maps",
                    "C03_canonical assumes Ty.wf (pointer targets Encode supports, byte-array bounds that admit the array length, key types compared by value, optional only on pointer/interface/big.Int fields)"],
    "manifest": {
        "text": "C03_canonical: for every well-formed schema, whenever the validating decoder (with out-of-range timestamps rejected) accepts b and consumes n bytes, the validating encoder re-encodes the decoded value to exactly b[:n] — for all array rules (bounds, lexical order, no duplicates, at most one of each type, must occur), optional markers, type codes, maps, interfaces; proved by mutual structural induction (C03_no_malleability as corollary, C03_strict_time_refines ties the strict timestamp rule to the real decoder). C03_layout_*: little-endian fixed-width numbers, two's complement, bool in {0,1} (and nothing else accepted), prefix width/value/range, type-code prefix width, uint32 optional marker, 32-byte little-endian uint256, nanosecond uint64 timestamps, map entries in byte-lexical order; golden vectors (repo test fixtures) by evaluation. Tie: Go Encode vs the Lean reference encoder byte for byte on every generated value (evaluated as a property oracle with the value as failing input), and every input the validating Go decoder accepts (valid encodings and mutated ones: bit flips, truncation, extension, chunk swaps, splices, duplicated/dropped chunks) is re-encoded in Go and compared with b[:n]; the Lean model must agree on acceptance, value and consumed count.",
        "note": "Trusted: Lean kernel; model Hive/Model/Serix.lean and the reflection-based schema derivation (differential execution, ~2600 universes, ~21000 decoded inputs in the quick tier); a consistent change of encoder and decoder (e.g. big-endian prefix) passes every round-trip test but fails the reference-encoder comparison.",
        "technique": "Lean 4 mutual structural induction + layout theorems + differential correspondence against a reference encoder",
    },
}
