import os, sys
sys.path.insert(0, os.path.dirname(os.path.dirname(os.path.abspath(__file__))))
import checklib


def regen_calls(ctx):
    """Regenerates lean/Hive/Gen/C16_Calls.lean: every call made by every function of workerpool.go / task.go (go/ast,
    harness/c16/callgraph) - the lock scripts' call graph is closed under it (C16_calls_closed)."""
    out = os.path.join(checklib.LEAN, "Hive", "Gen", "C16_Calls.lean")
    tmp = os.path.join(ctx.scratch, "C16_Calls.lean")
    args = ["go", "run", "./c16/callgraph", tmp, "Hive.Gen.C16Calls",
            os.path.join(ctx.repo, "runtime/workerpool/workerpool.go"), os.path.join(ctx.repo, "runtime/workerpool/task.go")]
    rc, log = checklib.sh(args, cwd=checklib.HARNESS, timeout=600)
    if rc != 0 or not os.path.exists(tmp):
        return [{"kind": "callgraph-extractor", "detail": checklib.tail(log, 20)}]
    checklib.write_gen(ctx, out, open(tmp).read())
    return []


def regen(ctx):
    return regen_skel(ctx) + regen_calls(ctx)


def regen_skel(ctx):
    wp = "runtime/workerpool/workerpool.go:WorkerPool."
    return checklib.regen_skeletons(ctx, [
        wp + "Start", wp + "startIfStopped", wp + "Submit", wp + "increasePendingTasksIfRunning",
        wp + "decreasePendingTasks", wp + "hasWork", wp + "IsRunning", wp + "Shutdown", wp + "stop",
        wp + "dispatcher", wp + "startDispatcher",
        wp + "startWorkers", wp + "worker", wp + "workerReadLoop", wp + "handleShutdown",
        "runtime/workerpool/task.go:Task.run", "runtime/workerpool/task.go:Task.markDone",
        "runtime/syncutils/stack.go:Stack.Push", "runtime/syncutils/stack.go:Stack.PopOrWait",
        "runtime/syncutils/stack.go:Stack.Size", "runtime/syncutils/stack.go:Stack.SignalShutdown",
        "runtime/syncutils/counter.go:Counter.Update", "runtime/syncutils/counter.go:Counter.update",
        "runtime/syncutils/counter.go:Counter.WaitIsBelow",
        "runtime/workerpool/group.go:Group.CreatePool", "runtime/workerpool/group.go:Group.CreateGroup",
        "runtime/workerpool/group.go:Group.WaitChildren", "runtime/workerpool/group.go:Group.Shutdown",
        "runtime/workerpool/group.go:Group.shutdown", "runtime/workerpool/group.go:Group.IsShutdown",
        "runtime/syncutils/counter.go:Counter.Subscribe", "runtime/syncutils/counter.go:Counter.subscribe",
        "runtime/syncutils/counter.go:Counter.unsubscribe", "runtime/syncutils/counter.go:Counter.notifySubscribers",
        "runtime/syncutils/counter.go:Counter.Get", "runtime/syncutils/stack.go:Stack.WaitSizeIsAbove",
        "runtime/syncutils/counter.go:Counter.Increase", "runtime/syncutils/counter.go:Counter.Decrease",
        "runtime/syncutils/counter.go:Counter.WaitIsZero", "runtime/syncutils/counter.go:Counter.Set",
        "runtime/syncutils/counter.go:Counter.set", "runtime/syncutils/counter.go:Counter.WaitIsAbove",
        "runtime/syncutils/stack.go:Stack.Pop", "runtime/syncutils/stack.go:Stack.WaitIsEmpty",
        "runtime/syncutils/stack.go:Stack.WaitSizeIsBelow", "runtime/workerpool/workerpool.go:WorkerPool.DebounceFunc",
        "runtime/workerpool/workerpool.go:WorkerPool.WorkerCount",
        "runtime/workerpool/workerpool.go:type=WorkerPool", "runtime/workerpool/task.go:type=Task",
        "runtime/workerpool/group.go:type=Group", "runtime/syncutils/counter.go:type=Counter",
        "runtime/syncutils/stack.go:type=Stack"],
        extra_methods=["IsRunning", "Push", "PopOrWait", "Size", "SignalShutdown", "WaitIsZero", "Increase", "Decrease",
                       "Subscribe", "notifySubscribers", "run", "markDone", "doneCallback", "workerFunc", "Wait",
                       "increasePendingTasksIfRunning", "decreasePendingTasks", "hasWork", "stop", "startIfStopped", "Get",
                       "Load", "Add", "verifSubmitWindow", "verifPopOrWaitGap", "verifStartWindow",
                       "Shutdown", "shutdown", "IsShutdown", "ForEach", "Set", "Delete", "subscribe", "unsubscribe"])


SPEC = {
    "lean_props": ["Hive.Props.C16", "Hive.Props.C16Old", "Hive.Props.C16Var", "Hive.Props.C16Lock"],
    "regen": regen,
    "lean_namespace": ["Hive.WP", "Hive.WPG", "Hive.WPOld", "Hive.WPVar", "Hive.WPS", "Hive.WPD", "Hive.WPL"],
    "driver": "drv_c16",
    "harness": "c16",
    "harness_timeout": {"quick": 1500, "thorough": 6000},
    "race": False,
    "theorems": ["C16_conservation", "C16_no_run_after_shutdown_complete", "C16_shutdown_terminates", "C16_exactly_once",
                 "C16_start_spawns_clean", "C16_group_wait", "C16_forced_schedules_example", "C16_group_example",
                 "C16_old_submit_window_lost_witness", "C16_old_submit_window_hang_witness", "C16_old_signal_lost_witness",
                 "C16_old_start_witness", "C16_old_start_race_witness", "C16_haswork_order_witness", "C16_signal_one_witness",
                 "C16_foreign_waiters_example", "C16_subscriber_stream",
                 "C16_zero_workers_witness", "C16_sched_haswork_example", "C16_sched_foreign_example", "C16_sched_window_example", "C16_sched_window_busy_example", "C16_sched_gap_example", "C16_sched_restart_example", "C16_sched_start_race_example", "C16_sched_reject_restart_example", "C16_reject_restart_example", "C16_task_panic_example", "C16_rejected_submit_touches_nothing", "C16_rejected_submit_returns", "C16_old_sched_example", "C16_variant_sched_example", "C16_stack_fifo", "C16_counter_update", "C16_debounce", "C16_debounce_example", "C16_debounce_exec_is_latest", "C16_group_shutdown_wait", "C16_group_flags_monotone", "C16_group_wait_parents", "C16_group_stopped_pool_drains", "C16_group_shutdown_stops_children", "C16_group_shutdown_window_example", "C16_group_shutdown_orphan_example", "C16_group_restart_example", "C16_group_restart_only_pools",
                 "C16_lockscript_report", "C16_lockscript_no_reentry", "C16_lockscript_no_wait_under_lock", "C16_lockscript_balanced", "C16_lockscript_order_acyclic", "C16_lockscript_defer_discipline", "C16_lockscript_reentry_witness", "C16_lockscript_abba_witness", "C16_lockscript_wait_under_lock_witness", "C16_lockscript_defer_witness", "C16_lockscript_deadlock_free", "C16_lockscript_tasks_run_unlocked", "C16_calls_pinned", "C16_calls_declared", "C16_calls_closed", "C16_lockscript_submit_ops_example", "C16_lockscript_abba_deadlock_witness",
                 "C16_skeleton_Counter_Increase", "C16_skeleton_Counter_Decrease", "C16_skeleton_Counter_WaitIsZero", "C16_skeleton_Counter_Set", "C16_skeleton_Counter_set", "C16_skeleton_Counter_WaitIsAbove", "C16_skeleton_Stack_Pop", "C16_skeleton_Stack_WaitIsEmpty", "C16_skeleton_Stack_WaitSizeIsBelow", "C16_skeleton_WorkerPool_DebounceFunc", "C16_skeleton_WorkerPool_WorkerCount",
                 "C16_skeleton_WorkerPool_Start", "C16_skeleton_WorkerPool_startIfStopped", "C16_skeleton_WorkerPool_Submit", 
                 "C16_skeleton_WorkerPool_increasePendingTasksIfRunning", "C16_skeleton_WorkerPool_decreasePendingTasks", "C16_skeleton_WorkerPool_hasWork", 
                 "C16_skeleton_WorkerPool_IsRunning", "C16_skeleton_WorkerPool_Shutdown", "C16_skeleton_WorkerPool_stop", 
                 "C16_skeleton_WorkerPool_dispatcher", "C16_skeleton_WorkerPool_startDispatcher", "C16_skeleton_WorkerPool_startWorkers", 
                 "C16_skeleton_WorkerPool_worker", "C16_skeleton_WorkerPool_workerReadLoop", "C16_skeleton_WorkerPool_handleShutdown", 
                 "C16_skeleton_Task_run", "C16_skeleton_Task_markDone", "C16_skeleton_Stack_Push", 
                 "C16_skeleton_Stack_PopOrWait", "C16_skeleton_Stack_Size", "C16_skeleton_Stack_SignalShutdown", 
                 "C16_skeleton_Counter_Update", "C16_skeleton_Counter_update", "C16_skeleton_Counter_WaitIsBelow", 
                 "C16_skeleton_Group_CreatePool", "C16_skeleton_Group_CreateGroup", "C16_skeleton_Group_WaitChildren",
                 "C16_skeleton_Group_Shutdown", "C16_skeleton_Group_shutdown", "C16_skeleton_Group_IsShutdown",
                 "C16_skeleton_Counter_Subscribe", "C16_skeleton_Counter_subscribe", "C16_skeleton_Counter_unsubscribe",
                 "C16_skeleton_Counter_notifySubscribers", "C16_skeleton_Counter_Get", "C16_skeleton_Stack_WaitSizeIsAbove",
                 "C16_skeleton_type_WorkerPool", "C16_skeleton_type_Task", "C16_skeleton_type_Group",
                 "C16_skeleton_type_Counter", "C16_skeleton_type_Stack"],
    "trusted_base": [
        "harness/c16/callgraph (go/ast; run by regen) for Hive/Gen/C16_Calls.lean", "lock scripts: receiver variable / type per function, element/task : Task, Task.doneCallback = WorkerPool.decreasePendingTasks, PopOrWait evaluates w.hasWork under the stack mutex are hand-written; path-insensitive scan",
        "hand-written protocol model Hive/Model/WorkerPool.lean of runtime/workerpool (workerpool.go, task.go) and of the parts of runtime/syncutils it uses (Counter.Update/WaitIsZero, Stack.Push/PopOrWait/Size/SignalShutdown)",
        "tie = event traces of the real code judged by the same trace predicate (Hive/Spec/WorkerPool.lean) + forced schedules through the verif hooks whose outcome must equal the model's + independent Go oracle",
        "Go sync primitives' semantics (RWMutex, Cond, WaitGroup, buffered channels, select) as written down in the model",
        "Go toolchain, compiled Lean driver"],
    "modelled": [
        "WorkerPool.Start (repaired), Submit, IsRunning, Shutdown, dispatcher, worker, workerReadLoop, handleShutdown; Task.run/markDone; Stack.Push/PopOrWait/Size/SignalShutdown; Counter.Update/WaitIsZero; Group.CreatePool/CreateGroup/WaitChildren (counter tree)",
        "queue and dispatch channel are modelled as sets (pop/receive order is not part of the property)",
        "Group.Shutdown / Group.shutdown / IsShutdown: flag first, pools stopped one by one, recursion, early return at a set flag (Hive/Model/WorkerPoolGroupSd.lean); syncutils.Counter and syncutils.Stack sequentially, whole exported API (Hive/Model/WorkerPoolSync.lean); workerCount 0 as a scenario of the protocol model (witness that 0 < W is needed)",
        "WorkerPool.DebounceFunc as its own protocol model (Hive/Model/WorkerPoolDebounce.lean: invocation counter, the two checks, execMutex; any number of callers and tasks)",
        "WithPanicOnSubmitAfterShutdown: a rejected Submit is the same two model steps with and without the option (check under the read lock, return); C16_rejected_submit_touches_nothing/_returns; scenario reject-restart (+silent)",
        "lock scripts (Hive/Model/WorkerPoolLock.lean): entry functions with callee skeletons inlined (receiver renaming, field types from the regenerated type facts), scanned for re-entrant acquisitions, waits under foreign locks, lock-order edges",
        "panicking task functions: taskPanicOutcome read off the regenerated skeletons (no deferred function literal between workerFunc and the top of the worker goroutine: the process dies); harness case taskpanic in a process of its own",
        "restart of a pool that its group has stopped: SOp.restart in Hive/Model/WorkerPoolGroupSd.lean (counter tree theorems over scripts with restarts; flags-monotone / stopped-pool-drains for scripts without a restart of that pool)",
        "NOT modelled: Go's 'WaitGroup is reused before previous Wait has returned' panic, CreatePool/CreateGroup with an existing name; debug mode (deadlock detector per task) is exercised (run debug-<mode>) but not modelled",
        "Counter.Update with its subscriber chain and Start's spawn under the write lock are single atomic steps (justified by the locks held; see Hive/Model/WorkerPool.lean, Hive/Model/WorkerPoolGroup.lean)"],
    "manifest": {
        "text": "Lean theorems over every worker count >= 1, cancel-on-shutdown on/off, any number of client threads with arbitrary scripts of Submit (tasks submitting tasks to any depth) / Shutdown / Start / ShutdownComplete.Wait / WaitIsZero and every interleaving (invariants over all reachable configurations of a protocol model whose state contains the pool's own goroutines): C16_conservation (every trace satisfies the C16 trace predicate: each task decided/run/marked done at most once, never run when rejected, counter = accepted - finished in unit steps, decreases accounted for by finished runs or - cancel-on-shutdown after a Shutdown call - by tasks that never ran), C16_no_run_after_shutdown_complete, C16_shutdown_terminates (FULL strength, no schedule hypothesis: every reachable configuration in which nobody can move has counter 0, every call returned except ShutdownComplete waits on a pool that runs again, and no live goroutine in a stopped pool; C16_exactly_once: accepted = finished), C16_group_wait (group counter = number of children with a non-zero counter; WaitChildren returns only when every pool below is at zero, arbitrary trees), C16_group_shutdown_wait (the same over every interleaving with the separate steps of Group.shutdown - flag first, pools stopped one by one - and whole Group.Shutdown calls: a task accepted between the flag and the stop of its pool counts all the way up), C16_group_stopped_pool_drains / C16_group_flags_monotone (a pool stopped by its group never counts up again; flags are never reset), C16_debounce (DebounceFunc: workerFuncs execute in strictly increasing invocation order, never overlap, and the latest invocation is never dropped; all interleavings of any number of callers and tasks), C16_stack_fifo and C16_counter_update for the sequential models of syncutils.Stack / Counter, C16_zero_workers_witness (with worker count 0 the conclusion fails: the hypothesis is necessary). Four defects were found, replayed on the real code through verif hooks and FIXED (b9bfa1a Shutdown();Start() deadlock, 9b2668a Submit window, a0dbad3 lost SignalShutdown wake-up, 1119368 Start overtaken by a restart); the old behaviour is kept as C16_old_*_witness over a frozen model of the old code. The model reads isRunning before the pending counter as two steps (a swapped order loses a task: C16_haswork_order_witness) and carries an arbitrary number of foreign Queue.WaitSizeIsAbove waiters on elementAdded (Signal instead of Broadcast fails: C16_signal_one_witness). Round 6: C16_rejected_submit_touches_nothing / C16_rejected_submit_returns (a rejected Submit - silent or panicking with WithPanicOnSubmitAfterShutdown and recovered - changes nothing but the task record and the log: no transient count, no lock kept; the life-cycle theorems quantify over arbitrary scripts, i.e. over all histories with rejected submits followed by restarts and shutdowns; C16_reject_restart_example); LOCK SCRIPTS derived from the regenerated skeletons (entry functions Start/Submit/Shutdown/IsRunning/WorkerCount/dispatcher/worker and the clients' calls on the exported counter / queue, with the bodies of all callees inlined into syncutils.Stack/Counter and back through Task.run/markDone/doneCallback, receivers renamed, field types from the regenerated type facts): C16_lockscript_report (pinned scan report), C16_lockscript_no_reentry (no entry point ever acquires a mutex it holds: nothing called under w.mutex takes w.mutex again), C16_lockscript_no_wait_under_lock, C16_lockscript_balanced, C16_lockscript_tasks_run_unlocked (workerFunc is called with nothing held - what makes tasks that submit tasks possible; the only user code called under a lock are the counter's subscriber callbacks), the one blocking channel operation under a lock (stop's send) pinned, C16_lockscript_order_acyclic (every nested acquisition goes up in rank: stack mutex < pool mutex < counter value mutex < subscriber mutex), C16_lockscript_defer_discipline (w.mutex is always released by a deferred unlock: panic-safe), C16_calls_pinned / C16_calls_declared / C16_calls_closed (a go/ast call-graph extractor of the check lists EVERY call of every function of workerpool.go / task.go; every method call on the receiver, a task, the queue or the pending counter is a function the lock scripts inline: a new helper cannot hide from the skeleton extractor), C16_lockscript_deadlock_free (generic theorem lock_deadlock_free over rank-ordered acq/rel scripts + the regenerated obligation that every entry point's lock operations are rank-ordered and balanced: ANY number of goroutines running any entry points of a pool never end up waiting for each other's mutexes; C16_lockscript_abba_deadlock_witness: opposite orders do), with soundness lemmas for the scan and four witnesses (seeded r6-1, r6-2, the ABBA order before a0dbad3, Start waiting under the lock before b9bfa1a); restart of a pool that its group has stopped (SOp.restart; C16_group_restart_example, C16_group_restart_only_pools; the counter-tree theorems quantify over scripts with restarts); panicking task functions: the process dies (C16_task_panic_example, computed from the skeletons; harness case taskpanic in its own process, with the property demanded of a tree that recovers). C16_debounce_exec_is_latest (an executed invocation is always the latest one made so far). Tie: 52 regenerated skeleton obligations (47 synchronisation skeletons incl. Group.shutdown, Counter.Subscribe/notifySubscribers, and 5 struct type facts) + the regenerated call lists of 25 functions as decide-obligations; concurrent debounce bursts (exactly one execution); the Go oracle rejected-submit-counted in the group scripts (a rejected Submit moves no counter of the tree, not even transiently); forced schedule reject-restart with and without the panic option; silent-reject stress modes (verdicts resolved at quiescence); g restart in the group scripts; debug-mode cases in their own process; a hang-robust harness (after the first confirmed hang later waits are shortened, cases that keep hanging with one signature are skipped, the rest gets a wall budget: a tree on which every case hangs ends in about a minute of harness time with the first finding carrying its op lines); a hook-free forced window of Group.Shutdown (group sdwin: a parked counter subscriber holds one pool's read lock) and Group.Shutdown / IsShutdown in the group scripts, answered line by line by the Lean group model; a Submit/IsRunning vs Shutdown;Start lock-race hammer with watchdog; syncutils.Counter / Stack driven line by line against their Lean models (sync seq); DebounceFunc stress whose execution trace is judged by the predicate of C16_debounce and by an independent Go oracle; event traces of real goroutines (7 hook-forced schedules, foreign queue waiters, worker counts up to 3*NumCPU, group pools with explicit options, deterministic life cycles, stress over W 1..4 x cancel x modes x nesting; group trees) judged line by line by the Lean trace predicate and by an independent Go monitor; forced-schedule outcomes must equal the model's; independent Go oracle (per-task run counts, counter at quiescence, bounded waits).",
        "note": "Trusted: Lean kernel; hand-written model Hive/Model/WorkerPool*.lean (tied by skeleton obligations + trace conformance + forced schedules, not by translation); Go sync primitive semantics as written in the model; atomicity of Counter.Update+subscribers and of Start's spawn; queue/channel order abstracted; worker count 0 outside the theorems (witness); a panicking task ends the process (read off the skeletons); lock scripts: call bindings hand-written, scan path-insensitive. After 9b2668a Counter.Increase and its subscribers run under the pool read lock (a subscriber must not call back into the pool).",
        "technique": "Lean 4 invariant proofs over an interleaving protocol model (arbitrary thread pool, all schedules) + decidable trace predicates evaluated on recorded traces of the implementation + hook-forced witness schedules + regenerated sync skeletons",
    },
    "assumptions": ["0 < workerCount", "task functions terminate; a task function that panics ends the process (no recover in the pool: C16_task_panic_example)", "only the modelled API is used on the pool (Submit/Start/Shutdown/ShutdownComplete.Wait/PendingTasksCounter.WaitIsZero/Queue.WaitSizeIsAbove, Group.CreatePool/CreateGroup/WaitChildren/Shutdown, Start of a group-stopped pool)"],
}
