import os, sys
sys.path.insert(0, os.path.dirname(os.path.dirname(os.path.abspath(__file__))))
import checklib


def regen(ctx):
    wp = "runtime/workerpool/workerpool.go:WorkerPool."
    return checklib.regen_skeletons(ctx, [
        wp + "Start", wp + "startIfStopped", wp + "Submit", wp + "increasePendingTasksIfRunning",
        wp + "decreasePendingTasks", wp + "hasWork", wp + "IsRunning", wp + "Shutdown", wp + "stop",
        wp + "dispatcher", wp + "startDispatcher",
        wp + "startWorkers", wp + "worker", wp + "workerReadLoop", wp + "handleShutdown",
        "runtime/workerpool/task.go:Task.run", "runtime/workerpool/task.go:Task.markDone",
        "runtime/syncutils/stack.go:Stack.Push", "runtime/syncutils/stack.go:Stack.PopOrWait",
        "runtime/syncutils/stack.go:Stack.Size", "runtime/syncutils/stack.go:Stack.SignalShutdown",
        "runtime/syncutils/counter.go:Counter.Update", "runtime/syncutils/counter.go:Counter.update",
        "runtime/syncutils/counter.go:Counter.WaitIsBelow",
        "runtime/workerpool/group.go:Group.CreatePool", "runtime/workerpool/group.go:Group.CreateGroup",
        "runtime/workerpool/group.go:Group.WaitChildren", "runtime/workerpool/group.go:Group.Shutdown",
        "runtime/workerpool/group.go:Group.shutdown", "runtime/workerpool/group.go:Group.IsShutdown",
        "runtime/syncutils/counter.go:Counter.Subscribe", "runtime/syncutils/counter.go:Counter.subscribe",
        "runtime/syncutils/counter.go:Counter.unsubscribe", "runtime/syncutils/counter.go:Counter.notifySubscribers",
        "runtime/syncutils/counter.go:Counter.Get", "runtime/syncutils/stack.go:Stack.WaitSizeIsAbove",
        "runtime/workerpool/workerpool.go:type=WorkerPool", "runtime/workerpool/task.go:type=Task",
        "runtime/workerpool/group.go:type=Group", "runtime/syncutils/counter.go:type=Counter",
        "runtime/syncutils/stack.go:type=Stack"],
        extra_methods=["IsRunning", "Push", "PopOrWait", "Size", "SignalShutdown", "WaitIsZero", "Increase", "Decrease",
                       "Subscribe", "notifySubscribers", "run", "markDone", "doneCallback", "workerFunc", "Wait",
                       "increasePendingTasksIfRunning", "decreasePendingTasks", "hasWork", "stop", "startIfStopped", "Get",
                       "Load", "Add", "verifSubmitWindow", "verifPopOrWaitGap", "verifStartWindow",
                       "Shutdown", "shutdown", "IsShutdown", "ForEach", "Set", "Delete", "subscribe", "unsubscribe"])


SPEC = {
    "lean_props": ["Hive.Props.C16", "Hive.Props.C16Old", "Hive.Props.C16Var"],
    "regen": regen,
    "lean_namespace": ["Hive.WP", "Hive.WPG", "Hive.WPOld", "Hive.WPVar", "Hive.WPS", "Hive.WPD"],
    "driver": "drv_c16",
    "harness": "c16",
    "harness_timeout": {"quick": 1500, "thorough": 6000},
    "race": False,
    "theorems": ["C16_conservation", "C16_no_run_after_shutdown_complete", "C16_shutdown_terminates", "C16_exactly_once",
                 "C16_start_spawns_clean", "C16_group_wait", "C16_forced_schedules_example", "C16_group_example",
                 "C16_old_submit_window_lost_witness", "C16_old_submit_window_hang_witness", "C16_old_signal_lost_witness",
                 "C16_old_start_witness", "C16_old_start_race_witness", "C16_haswork_order_witness", "C16_signal_one_witness",
                 "C16_foreign_waiters_example", "C16_subscriber_stream",
                 "C16_zero_workers_witness", "C16_sched_haswork_example", "C16_sched_foreign_example", "C16_sched_window_example", "C16_sched_window_busy_example", "C16_sched_gap_example", "C16_sched_restart_example", "C16_sched_start_race_example", "C16_sched_reject_restart_example", "C16_reject_restart_example", "C16_old_sched_example", "C16_variant_sched_example", "C16_stack_fifo", "C16_counter_update", "C16_debounce", "C16_debounce_example", "C16_group_shutdown_wait", "C16_group_flags_monotone", "C16_group_wait_parents", "C16_group_stopped_pool_drains", "C16_group_shutdown_stops_children", "C16_group_shutdown_window_example", "C16_group_shutdown_orphan_example",
                 "C16_skeleton_WorkerPool_Start", "C16_skeleton_WorkerPool_startIfStopped", "C16_skeleton_WorkerPool_Submit", 
                 "C16_skeleton_WorkerPool_increasePendingTasksIfRunning", "C16_skeleton_WorkerPool_decreasePendingTasks", "C16_skeleton_WorkerPool_hasWork", 
                 "C16_skeleton_WorkerPool_IsRunning", "C16_skeleton_WorkerPool_Shutdown", "C16_skeleton_WorkerPool_stop", 
                 "C16_skeleton_WorkerPool_dispatcher", "C16_skeleton_WorkerPool_startDispatcher", "C16_skeleton_WorkerPool_startWorkers", 
                 "C16_skeleton_WorkerPool_worker", "C16_skeleton_WorkerPool_workerReadLoop", "C16_skeleton_WorkerPool_handleShutdown", 
                 "C16_skeleton_Task_run", "C16_skeleton_Task_markDone", "C16_skeleton_Stack_Push", 
                 "C16_skeleton_Stack_PopOrWait", "C16_skeleton_Stack_Size", "C16_skeleton_Stack_SignalShutdown", 
                 "C16_skeleton_Counter_Update", "C16_skeleton_Counter_update", "C16_skeleton_Counter_WaitIsBelow", 
                 "C16_skeleton_Group_CreatePool", "C16_skeleton_Group_CreateGroup", "C16_skeleton_Group_WaitChildren",
                 "C16_skeleton_Group_Shutdown", "C16_skeleton_Group_shutdown", "C16_skeleton_Group_IsShutdown",
                 "C16_skeleton_Counter_Subscribe", "C16_skeleton_Counter_subscribe", "C16_skeleton_Counter_unsubscribe",
                 "C16_skeleton_Counter_notifySubscribers", "C16_skeleton_Counter_Get", "C16_skeleton_Stack_WaitSizeIsAbove",
                 "C16_skeleton_type_WorkerPool", "C16_skeleton_type_Task", "C16_skeleton_type_Group",
                 "C16_skeleton_type_Counter", "C16_skeleton_type_Stack"],
    "trusted_base": [
        "hand-written protocol model Hive/Model/WorkerPool.lean of runtime/workerpool (workerpool.go, task.go) and of the parts of runtime/syncutils it uses (Counter.Update/WaitIsZero, Stack.Push/PopOrWait/Size/SignalShutdown)",
        "tie = event traces of the real code judged by the same trace predicate (Hive/Spec/WorkerPool.lean) + forced schedules through the verif hooks whose outcome must equal the model's + independent Go oracle",
        "Go sync primitives' semantics (RWMutex, Cond, WaitGroup, buffered channels, select) as written down in the model",
        "Go toolchain, compiled Lean driver"],
    "modelled": [
        "WorkerPool.Start (repaired), Submit, IsRunning, Shutdown, dispatcher, worker, workerReadLoop, handleShutdown; Task.run/markDone; Stack.Push/PopOrWait/Size/SignalShutdown; Counter.Update/WaitIsZero; Group.CreatePool/CreateGroup/WaitChildren (counter tree)",
        "queue and dispatch channel are modelled as sets (pop/receive order is not part of the property)",
        "Group.Shutdown / Group.shutdown / IsShutdown: flag first, pools stopped one by one, recursion, early return at a set flag (Hive/Model/WorkerPoolGroupSd.lean); syncutils.Counter and syncutils.Stack sequentially, whole exported API (Hive/Model/WorkerPoolSync.lean); workerCount 0 as a scenario of the protocol model (witness that 0 < W is needed)",
        "WorkerPool.DebounceFunc as its own protocol model (Hive/Model/WorkerPoolDebounce.lean: invocation counter, the two checks, execMutex; any number of callers and tasks)",
        "NOT modelled: panicking task functions, debug deadlock detection, Go's 'WaitGroup is reused before previous Wait has returned' panic, restarting a pool that its group has stopped",
        "Counter.Update with its subscriber chain and Start's spawn under the write lock are single atomic steps (justified by the locks held; see Hive/Model/WorkerPool.lean, Hive/Model/WorkerPoolGroup.lean)"],
    "manifest": {
        "text": "Lean theorems over every worker count >= 1, cancel-on-shutdown on/off, any number of client threads with arbitrary scripts of Submit (tasks submitting tasks to any depth) / Shutdown / Start / ShutdownComplete.Wait / WaitIsZero and every interleaving (invariants over all reachable configurations of a protocol model whose state contains the pool's own goroutines): C16_conservation (every trace satisfies the C16 trace predicate: each task decided/run/marked done at most once, never run when rejected, counter = accepted - finished in unit steps, decreases accounted for by finished runs or - cancel-on-shutdown after a Shutdown call - by tasks that never ran), C16_no_run_after_shutdown_complete, C16_shutdown_terminates (FULL strength, no schedule hypothesis: every reachable configuration in which nobody can move has counter 0, every call returned except ShutdownComplete waits on a pool that runs again, and no live goroutine in a stopped pool; C16_exactly_once: accepted = finished), C16_group_wait (group counter = number of children with a non-zero counter; WaitChildren returns only when every pool below is at zero, arbitrary trees), C16_group_shutdown_wait (the same over every interleaving with the separate steps of Group.shutdown - flag first, pools stopped one by one - and whole Group.Shutdown calls: a task accepted between the flag and the stop of its pool counts all the way up), C16_group_stopped_pool_drains / C16_group_flags_monotone (a pool stopped by its group never counts up again; flags are never reset), C16_debounce (DebounceFunc: workerFuncs execute in strictly increasing invocation order, never overlap, and the latest invocation is never dropped; all interleavings of any number of callers and tasks), C16_stack_fifo and C16_counter_update for the sequential models of syncutils.Stack / Counter, C16_zero_workers_witness (with worker count 0 the conclusion fails: the hypothesis is necessary). Four defects were found, replayed on the real code through verif hooks and FIXED (b9bfa1a Shutdown();Start() deadlock, 9b2668a Submit window, a0dbad3 lost SignalShutdown wake-up, 1119368 Start overtaken by a restart); the old behaviour is kept as C16_old_*_witness over a frozen model of the old code. The model reads isRunning before the pending counter as two steps (a swapped order loses a task: C16_haswork_order_witness) and carries an arbitrary number of foreign Queue.WaitSizeIsAbove waiters on elementAdded (Signal instead of Broadcast fails: C16_signal_one_witness). Tie: 41 regenerated obligations (36 synchronisation skeletons incl. Group.shutdown, Counter.Subscribe/notifySubscribers, and 5 struct type facts) as decide-obligations; a hook-free forced window of Group.Shutdown (group sdwin: a parked counter subscriber holds one pool's read lock) and Group.Shutdown / IsShutdown in the group scripts, answered line by line by the Lean group model; a Submit/IsRunning vs Shutdown;Start lock-race hammer with watchdog; syncutils.Counter / Stack driven line by line against their Lean models (sync seq); DebounceFunc stress whose execution trace is judged by the predicate of C16_debounce and by an independent Go oracle; event traces of real goroutines (7 hook-forced schedules, foreign queue waiters, worker counts up to 3*NumCPU, group pools with explicit options, deterministic life cycles, stress over W 1..4 x cancel x modes x nesting; group trees) judged line by line by the Lean trace predicate and by an independent Go monitor; forced-schedule outcomes must equal the model's; independent Go oracle (per-task run counts, counter at quiescence, bounded waits).",
        "note": "Trusted: Lean kernel; hand-written model Hive/Model/WorkerPool*.lean (tied by skeleton obligations + trace conformance + forced schedules, not by translation); Go sync primitive semantics as written in the model; atomicity of Counter.Update+subscribers and of Start's spawn; queue/channel order abstracted; worker count 0 and panicking tasks outside the model. After 9b2668a Counter.Increase and its subscribers run under the pool read lock (a subscriber must not call back into the pool).",
        "technique": "Lean 4 invariant proofs over an interleaving protocol model (arbitrary thread pool, all schedules) + decidable trace predicates evaluated on recorded traces of the implementation + hook-forced witness schedules + regenerated sync skeletons",
    },
    "assumptions": ["0 < workerCount", "task functions terminate and do not panic", "only the modelled API is used on the pool (Submit/Start/Shutdown/ShutdownComplete.Wait/PendingTasksCounter.WaitIsZero, Group.CreatePool/CreateGroup/WaitChildren)"],
}
