import os, sys
sys.path.insert(0, os.path.dirname(os.path.dirname(os.path.abspath(__file__))))
import checklib


def regen(ctx):
    wp = "runtime/workerpool/workerpool.go:WorkerPool."
    return checklib.regen_skeletons(ctx, [
        wp + "Start", wp + "Submit", wp + "IsRunning", wp + "Shutdown", wp + "dispatcher", wp + "startDispatcher",
        wp + "startWorkers", wp + "worker", wp + "workerReadLoop", wp + "handleShutdown",
        "runtime/workerpool/task.go:Task.run", "runtime/workerpool/task.go:Task.markDone",
        "runtime/syncutils/stack.go:Stack.Push", "runtime/syncutils/stack.go:Stack.PopOrWait",
        "runtime/syncutils/stack.go:Stack.Size", "runtime/syncutils/stack.go:Stack.SignalShutdown",
        "runtime/syncutils/counter.go:Counter.Update", "runtime/syncutils/counter.go:Counter.update",
        "runtime/syncutils/counter.go:Counter.WaitIsBelow",
        "runtime/workerpool/group.go:Group.CreatePool", "runtime/workerpool/group.go:Group.CreateGroup",
        "runtime/workerpool/group.go:Group.WaitChildren"],
        extra_methods=["IsRunning", "Push", "PopOrWait", "Size", "SignalShutdown", "WaitIsZero", "Increase", "Decrease",
                       "Subscribe", "notifySubscribers", "run", "markDone", "doneCallback", "workerFunc", "Wait",
                       "increasePendingTasks", "decreasePendingTasks", "verifSubmitWindow", "verifPopOrWaitGap"])


SPEC = {
    "lean_props": "Hive.Props.C16",
    "regen": regen,
    "lean_namespace": ["Hive.WP", "Hive.WPG"],
    "driver": "drv_c16",
    "harness": "c16",
    "harness_timeout": {"quick": 1500, "thorough": 6000},
    "race": False,
    "theorems": ["C16_conservation", "C16_no_run_after_shutdown_complete", "C16_shutdown_terminates_partial",
                 "C16_exactly_once_partial", "C16_group_wait", "C16_submit_window_lost_witness",
                 "C16_submit_window_hang_witness", "C16_signal_lost_witness", "C16_statement_fails_witness",
                 "C16_old_start_witness", "C16_restart_example", "C16_group_example",
                 "C16_skeleton_WorkerPool_Start", "C16_skeleton_WorkerPool_Submit", "C16_skeleton_WorkerPool_IsRunning", 
                 "C16_skeleton_WorkerPool_Shutdown", "C16_skeleton_WorkerPool_dispatcher", "C16_skeleton_WorkerPool_startDispatcher", 
                 "C16_skeleton_WorkerPool_startWorkers", "C16_skeleton_WorkerPool_worker", "C16_skeleton_WorkerPool_workerReadLoop", 
                 "C16_skeleton_WorkerPool_handleShutdown", "C16_skeleton_Task_run", "C16_skeleton_Task_markDone", 
                 "C16_skeleton_Stack_Push", "C16_skeleton_Stack_PopOrWait", "C16_skeleton_Stack_Size", 
                 "C16_skeleton_Stack_SignalShutdown", "C16_skeleton_Counter_Update", "C16_skeleton_Counter_update", 
                 "C16_skeleton_Counter_WaitIsBelow", "C16_skeleton_Group_CreatePool", "C16_skeleton_Group_CreateGroup", 
                 "C16_skeleton_Group_WaitChildren"],
    "trusted_base": [
        "hand-written protocol model Hive/Model/WorkerPool.lean of runtime/workerpool (workerpool.go, task.go) and of the parts of runtime/syncutils it uses (Counter.Update/WaitIsZero, Stack.Push/PopOrWait/Size/SignalShutdown)",
        "tie = event traces of the real code judged by the same trace predicate (Hive/Spec/WorkerPool.lean) + forced schedules through the verif hooks whose outcome must equal the model's + independent Go oracle",
        "Go sync primitives' semantics (RWMutex, Cond, WaitGroup, buffered channels, select) as written down in the model",
        "Go toolchain, compiled Lean driver"],
    "modelled": [],
    "manifest": {"text": "", "note": "", "technique": ""},
    "assumptions": [],
}
