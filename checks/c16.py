SPEC = {
    "lean_props": "Hive.Props.C16",
    "lean_namespace": ["Hive.WP", "Hive.WPG"],
    "driver": "drv_c16",
    "harness": "c16",
    "harness_timeout": {"quick": 1500, "thorough": 6000},
    "race": False,
    "theorems": [],
    "trusted_base": [
        "hand-written protocol model Hive/Model/WorkerPool.lean of runtime/workerpool (workerpool.go, task.go) and of the parts of runtime/syncutils it uses (Counter.Update/WaitIsZero, Stack.Push/PopOrWait/Size/SignalShutdown)",
        "tie = event traces of the real code judged by the same trace predicate (Hive/Spec/WorkerPool.lean) + forced schedules through the verif hooks whose outcome must equal the model's + independent Go oracle",
        "Go sync primitives' semantics (RWMutex, Cond, WaitGroup, buffered channels, select) as written down in the model",
        "Go toolchain, compiled Lean driver"],
    "modelled": [],
    "manifest": {"text": "", "note": "", "technique": ""},
    "assumptions": [],
}
