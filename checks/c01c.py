# Development configuration for the stream Write*/Read* part of C01 (merged into checks/c01.py later).
import os, sys
sys.path.insert(0, os.path.dirname(os.path.dirname(os.path.abspath(__file__))))
import checklib


def regen(ctx):
    """lean/Hive/Gen/C01c_Facts.lean (same generator as C02's facts, harness/c02/facts, but a file of its own: runs of
    different properties are not serialised against each other): normalised bodies of the stream writers,
    ByteBuffer.Write/Seek, Offset/Skip/GoTo - pinned by the C01_facts_* obligations."""
    out = os.path.join(checklib.LEAN, "Hive", "Gen", "C01c_Facts.lean")
    tmp = os.path.join(ctx.scratch, "C01c_Facts.lean")
    rc, log = checklib.sh(["go", "run", "./c02/facts", tmp, "Hive.Gen.C01cFacts", ctx.repo], cwd=checklib.HARNESS, timeout=600)
    if rc != 0 or not os.path.exists(tmp):
        return [{"kind": "facts-extractor", "detail": checklib.tail(log, 20)}]
    checklib.write_gen(ctx, out, open(tmp).read())
    return []


SPEC = {
    "regen": regen,
    "lean_props": "Hive.Props.C01c",
    "lean_namespace": "Hive.Stream",
    "theorem_prefix": "C01",
    "driver": "drv_c01c",
    "harness": "c01c",
    "theorems": ["C01_stream_any_chunking", "C01_stream_op_any_chunking", "C01_stream_write_layout",
                 "C01_stream_op_write_layout", "C01_stream_in_place_any_chunking", "C01_stream_readFull_any_chunking",
                 "C01_stream_peek_written", "C01_stream_peek_then_read_any_chunking", "C01_stream_sub_any_chunking", "C01_stream_seek_spec", "C01_stream_seek_end_appends", "C01_stream_seek_in_place_any_chunking",
                 "C01_facts_body_writeFixedSize", "C01_facts_body_WriteCollection", "C01_facts_body_WriteBytesWithSize", "C01_facts_body_ByteBuffer_Write", "C01_facts_body_ByteBuffer_Seek", "C01_facts_body_Offset", "C01_facts_body_Skip", "C01_facts_body_GoTo", "C01_facts_fitsLP"],
    "trusted_base": ["hand-written model Hive/Model/Stream.lean of serializer/stream/{read,write,byte_buffer}.go, tied by differential execution (harness/c01c, harness/c02/sx)",
                     "io.ReadFull / binary.Read / bytes.Buffer semantics as written down in the model (readFullAux, BB.write)",
                     "harness/c02/facts (go/ast): regenerated normalised bodies of the writers, ByteBuffer.Write/Seek and the seek helpers (Hive/Gen/C01c_Facts.lean), pinned by the C01_facts_* obligations against Hive/Spec/DeserFacts.lean",
                     "Go toolchain, compiled Lean driver"],
    "modelled": ["stream.Read[T] for the integer/bool/[32|36|38]byte instances, ReadBytes, ReadBytesWithSize, ReadObject, ReadObjectWithSize, PeekSize, ReadCollection",
                 "stream.Write[T], WriteBytes, WriteBytesWithSize, WriteObject, WriteObjectWithSize, WriteCollection over stream.ByteBuffer (Write/Seek with all three whence values, negative targets refused; stream.GoTo/Skip/Offset)",
                 "ReadObjectFromReader, reader programs between GoTo/Skip/Offset over a stream.ByteReader with BytesRead, readers that return io.EOF together with their last bytes, readers that break with another error",
                 "PeekSize and ReadObjectFromReader against written data (Hive/Proofs/StreamPeekC01.lean: C01_stream_peek_written, C01_stream_peek_then_read_any_chunking, C01_stream_sub_any_chunking; tie: sr requests with peek / ofr generated from writer programs in harness/c01c/peek.go + Go oracle peek-oracle)",
                 "an io.Reader over a fixed byte string = data + list of chunk sizes (0-byte reads allowed, io.EOF at the end); readers that fail with other errors are not modelled",
                 "objectToBytes/objectFromBytes callbacks are the identity (plus typeutils.Uint64FromBytes/ByteArray32FromBytes on the reader side)"],
    "manifest": {
        "text": "Stream part of C01: for every writer program over Write/WriteBytes/WriteBytesWithSize/WriteObject/WriteObjectWithSize/WriteCollection (all four prefix widths) whose writes succeed, and for EVERY chunking of the reader and every tail behind the written bytes, the mirrored reader calls return exactly the written values and consume exactly the written bytes (C01_stream_any_chunking); for EVERY ByteBuffer state (spare storage, rewound position) a writer program is one write of its encoding at the current position - WriteCollection's count patch returns directly behind the written elements (C01_stream_write_layout) - and data written in place reads back the same way (C01_stream_in_place_any_chunking). Model re-validated against the working tree on every run by differential execution through a chunking io.Reader (whole / 1-byte / prime-sized / random chunk lists) and an independent Go round-trip oracle.",
        "note": "Trusted: Lean kernel; model Hive/Model/Stream.lean (tie = differential execution); Go's io.ReadFull/binary.Read semantics as modelled.",
        "technique": "Lean 4 proof by induction over writer programs and chunk lists + differential correspondence",
    },
    "assumptions": ["collection items written with WriteObject have the fixed length the reader is told (WOp.wf)"],
}
