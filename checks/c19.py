import os, subprocess, sys
sys.path.insert(0, os.path.dirname(os.path.dirname(os.path.abspath(__file__))))
import checklib


def regen(ctx):
    """Regenerate Hive/Gen/C19_SafeMath.lean from the working tree's safe_math.go (translator)."""
    out = os.path.join(checklib.LEAN, "Hive", "Gen", "C19_SafeMath.lean")
    src = os.path.join(ctx.repo, "core", "safemath", "safe_math.go")
    tmp = os.path.join(ctx.scratch, "C19_SafeMath.lean")
    rc, log = checklib.sh(["go", "run", "./tools/translate-safemath", src, tmp], cwd=checklib.HARNESS, timeout=600)
    fails = []
    if rc != 0 or not os.path.exists(tmp):
        fails.append({"kind": "translator", "detail": "translate-safemath failed (source outside the supported subset?):\n" + checklib.tail(log, 20)})
        return fails
    checklib.write_gen(ctx, out, open(tmp).read())
    ctx.notes.append("regenerated Hive/Gen/C19_SafeMath.lean from " + src)
    # translator self-check: harness/c19/trcorpus.go (sample functions in the parts of the subset that safe_math.go does not use)
    # is translated by the same tool; the differential run executes both sides (`corpus` request lines)
    csrc = os.path.join(checklib.HARNESS, "c19", "trcorpus.go")
    cout = os.path.join(checklib.LEAN, "Hive", "Gen", "C19_TrCorpus.lean")
    ctmp = os.path.join(ctx.scratch, "C19_TrCorpus.lean")
    rc, log = checklib.sh(["go", "run", "./tools/translate-safemath", "-corpus", csrc, ctmp], cwd=checklib.HARNESS, timeout=600)
    if rc != 0 or not os.path.exists(ctmp):
        fails.append({"kind": "translator", "detail": "translate-safemath -corpus failed on harness/c19/trcorpus.go:\n" + checklib.tail(log, 20)})
        return fails
    checklib.write_gen(ctx, cout, open(ctmp).read())
    return fails


PROPS_MODULES = ["Hive.Props.C19", "Hive.Props.C19Ops", "Hive.Props.C19Err", "Hive.Props.C19Add", "Hive.Props.C19Sub", "Hive.Props.C19Mul", "Hive.Props.C19Div", "Hive.Props.C19Shl",
                 "Hive.Props.C19MulU64", "Hive.Props.C19MulI64", "Hive.Props.C19MulDiv"]


def _broken_theorems(ctx):
    """Names the module(s) and lemma(s) at which `lake build` failed, the C19_* theorems that rest on them (import closure of
    the per-function Props modules) and the ones that were still proved about the changed tree."""
    import re
    detail = "\n".join(f.get("detail", "") for f in ctx.obligation_failures if isinstance(f, dict) and f.get("kind") == "lake-build")
    if not detail:
        return None
    failed = set(re.findall(r"^- (Hive\.[\w.]+)\s*$", detail, re.M))
    lemmas = []
    for m in re.finditer(r"error: (Hive/[\w/]+\.lean):(\d+):\d+", detail):
        path, line = m.group(1), int(m.group(2))
        failed.add(path[:-5].replace("/", "."))
        try:
            src = open(os.path.join(checklib.LEAN, path)).read().split("\n")
        except OSError:
            continue
        for i in range(min(line, len(src)) - 1, -1, -1):
            d = re.match(r"\s*(?:private\s+)?(?:theorem|lemma|def|example)\s+(\w+)?", src[i])
            if d:
                entry = f"{d.group(1) or 'example'} ({path}:{i + 1})"
                if entry not in lemmas:
                    lemmas.append(entry)
                break
    if not failed:
        return None
    def theorems_of(mod):
        try:
            src = open(os.path.join(checklib.LEAN, *mod.split(".")) + ".lean").read()
        except OSError:
            return []
        return re.findall(r"^\s*theorem\s+(\w+)", checklib.strip_comments(src), re.M)
    for mod in sorted(failed):   # a failed module whose error lines were cut off: name its theorems
        if not any(mod.replace(".", "/") + ".lean" in e for e in lemmas):
            lemmas += [f"{t} ({mod})" for t in theorems_of(mod)]
    broken, standing = [], []
    for pm in PROPS_MODULES:
        deps = {}
        try:
            checklib.lean_deps(pm, deps)
        except Exception:
            deps = {pm: None}
        names = [t for t in theorems_of(pm) if t.startswith("C19_")]
        (broken if (set(deps) | {pm}) & failed else standing).extend(names)
    return {"modules_that_failed": sorted(failed), "first_failing": lemmas,
            "theorems_resting_on_them": sorted(broken),
            "theorems_still_proved_for_this_tree": sorted(standing),
            "note": "one proof module per function: a module that does not import a failed one was re-checked against the regenerated model in this run"}


def post(ctx, tie):
    """Counterexample search in the regenerated MODEL next to the one on the implementation: the `search` request
    lines (harness/c19/search.go, Hive/Model/SafeMathSearch.lean) enumerate the same boundary values in the same order on
    both sides; their answers are put side by side into the evidence, and into the replay files when a proof broke."""
    bt = _broken_theorems(ctx)
    if bt:
        ctx.obligation_failures.append({"kind": "broken-theorems", "detail": bt})
        ctx.log("proofs that broke: " + "; ".join(bt["first_failing"][:4]) + f" -> {len(bt['theorems_resting_on_them'])} C19 theorems rest on them, "
                f"{len(bt['theorems_still_proved_for_this_tree'])} C19 theorems of other functions still proved for this tree")
    outdir = os.path.join(ctx.scratch, "out0")
    try:
        ops = open(os.path.join(outdir, "ops.txt")).read().split("\n")
        impl = open(os.path.join(outdir, "impl.txt")).read().split("\n")
    except OSError:
        return
    idx = [i for i, l in enumerate(ops) if l.startswith("search ") and i < len(impl)]
    drv = os.path.join(checklib.LEAN, ".lake", "build", "bin", "drv_c19")
    if not idx or not os.path.exists(drv):
        return
    if not ctx.obligation_failures and not tie.get("mismatches") and all(impl[i].startswith("none ") for i in idx):
        # the differential comparison has already shown that the driver answered every search line like the implementation
        ctx.notes.append(f"model search: {len(idx)} boundary enumerations run over the regenerated model and over the implementation, "
                         f"{sum(int(impl[i].split()[1]) for i in idx)} evaluations each; no counterexample on either side")
        return
    try:
        p = subprocess.run([drv], input=("\n".join(ops[i] for i in idx) + "\n").encode(), stdout=subprocess.PIPE, stderr=subprocess.PIPE, timeout=900)
    except subprocess.TimeoutExpired:
        ctx.notes.append("model search: driver timed out")
        return
    model = p.stdout.decode("utf-8", "replace").split("\n")
    rows = [(ops[i], impl[i], model[j] if j < len(model) else "(no answer)") for j, i in enumerate(idx)]
    hits = [r for r in rows if not r[1].startswith("none ") or not r[2].startswith("none ")]
    ctx.notes.append(f"model search: {len(rows)} boundary enumerations run over the regenerated model and over the implementation; "
                     f"{sum(1 for r in rows if r[2].startswith('cex'))} found a counterexample in the model, "
                     f"{sum(1 for r in rows if r[1].startswith('cex'))} in the implementation")
    if hits:
        ctx.obligation_failures.append({"kind": "counterexample-search", "detail": {
            "what": "first counterexample of each boundary enumeration (`cex <number of counterexamples> <operands> got <answer> want <exact answer>`): "
                    "found by evaluating the regenerated Lean model against the Lean specification | found by running the real functions against math/big",
            "side_by_side": [{"search": r[0], "model_found": r[2], "implementation_found": r[1], "agree": r[1] == r[2]} for r in hits[:24]]}})
        for r in hits[:6]:
            ctx.log(f"search `{r[0]}`: model-found {r[2]!r} | implementation-found {r[1]!r}")


SPEC = {
    # one Props module per function (each rests only on the proof about that function: a change of safe_math.go breaks
    # exactly the modules of the functions whose behaviour it changes) + the module of the combined statements
    "lean_props": PROPS_MODULES,
    "lean_namespace": ["Hive.GoInt", "Hive.Gen.SafeMath"],
    "driver": "drv_c19",
    "harness": "c19",
    "regen": regen,
    "post": post,
    "theorems": ["C19_add_exact", "C19_sub_exact", "C19_mul_exact", "C19_div_exact", "C19_shl_exact",
                 "C19_mulU64_exact", "C19_mulI64_exact", "C19_mulDiv64_exact", "C19_all_translated", "C19_exact_spec",
                 "C19_never_wraps", "C19_never_spurious", "C19_shl_clauses", "C19_mul_twins", "C19_mulDiv64_clauses",
                 "C19_go_types_covered", "C19_statement_holds", "C19_wrap_spec", "C19_mul64_spec", "C19_div64_spec",
                 "C19_error_identity", "C19_sentinels_distinct", "C19_ierrors_wrappers", "C19_error_sites_cover"] +
                [f"C19_{f}_{c}" for f in ("add", "sub", "mul", "div", "shl", "mulU64", "mulI64") for c in ("never_wraps", "never_spurious", "error_iff")] +
                ["C19_mulDiv64_never_spurious", "C19_bitLen_spec", "C19_trailingZeros_spec", "C19_add64_sub64_spec", "C19_integer_constraint", "C19_signatures"],
    "trusted_base": ["translator harness/tools/translate-safemath (go/ast -> Lean, ~1900 lines incl. the error-expression renderer; in-file helpers, constants, switch, for loops, math/bits), cross-checked on every run by executing the generated definitions against the real functions (2.8 M lines, exhaustive at 8 bit), by the shared boundary search and by the translator corpus harness/c19/trcorpus.go (functions in the parts of the subset safe_math.go does not use - helpers, loops, switch, type switch, tuples, math/bits - translated by the same tool and executed on both sides, 180 k lines)",
                     "Go integer semantics Hive/Base/GoInt.lean + Hive/Model/SafeMathOps.lean (wrap-around, truncated division and remainder, shifts, & | ^ &^ and complement, bits.Mul64/Div64/Add64/Sub64/Len/LeadingZeros/TrailingZeros; specification theorems C19_wrap_spec / mul64_spec / div64_spec / bitLen_spec / trailingZeros_spec / add64_sub64_spec), validated against the raw Go operators exhaustively for 8-bit types and by samples for wider types",
                     "Go toolchain, compiled Lean driver"],
    "modelled": ["Go operators + - * / << >> & and conversions as Int arithmetic with two's-complement wrap (validated differentially)",
                 "bits.Mul64 / bits.Div64 specified as 128-bit arithmetic", "error values mapped to overflow / divzero by the sentinel they wrap"],
    "assumptions": ["the shift count parameter is a uint8 (0..255, pinned by C19_signatures); the theorem covers every natural count",
                    "a defined type (`type Amount uint64`) has the arithmetic of its underlying type and generic code cannot tell them apart: the only way for translated code to tell them apart is a type switch over any(x), which the translator models (module variable named_, harness kinds du8..di64); any(x) elsewhere and reflection are rejected by the translator; the constraint's type set is pinned by C19_integer_constraint and 8 defined types are instantiated in the harness",
                    "error identity: errors.Is is modelled by the set of sentinels reachable through %w / Join (Hive/Model/SafeMathErr.lean); the message arguments of the ierrors wrappers are integers, never errors; default build tags (ierrors_no_stacktrace.go)"],
    "manifest": {
        "text": "Regenerated model: safe_math.go is translated to Lean on every run and the theorems are re-proved against it, one proof module per function, so that a change breaks exactly the theorems of the functions whose behaviour it changes (the check names them and the theorems that still hold for the changed tree). For every integer type of positive width and either signedness (all eight Go types and every defined type over them), every in-range operand pair and every shift count: SafeAdd/Sub/Mul/Div/LeftShift return exactly the mathematical result when representable and the overflow (or division-by-zero) error otherwise (C19_add/sub/mul/div/shl_exact); likewise SafeMulUint64, SafeMulInt64 and Safe64MulDiv (which never reaches a panicking bits.Div64). Both directions are separate theorems per function: C19_<f>_never_wraps (a value returned without error is the exact result), C19_<f>_never_spurious (a representable result is returned), C19_<f>_error_iff (the error exactly when the result does not fit, never the other error, never a panic) for f in add, sub, mul, div, shl, mulU64, mulI64, and C19_mulDiv64_clauses / _never_spurious; combined: C19_never_wraps, C19_never_spurious, C19_shl_clauses, C19_statement_holds (the eight Go types together). The identity of the returned error (errors.Is against the two sentinels) is part of the model: error sites, sentinel definitions and the ierrors wrapper bodies are regenerated and checked by C19_error_identity / C19_sentinels_distinct / C19_ierrors_wrappers. The modelled operator semantics meet their specification (C19_wrap_spec, C19_mul64_spec, C19_div64_spec, C19_bitLen_spec, C19_trailingZeros_spec, C19_add64_sub64_spec). The tie runs all 65 536 operand pairs of both 8-bit types and all 256 shift counts through the real functions, the generated definitions and a math/big oracle, boundary-biased 16/32/64-bit samples, a systematic boundary grid (7.9 M oracle-only evaluations over 16 instantiated types) and a boundary enumeration shared between model and implementation (2.5 M evaluations each: the Lean driver searches the regenerated model for a counterexample to the specification, the harness searches the real code, the first counterexamples are reported side by side); the thorough tier enumerates all 2^32 operand pairs of the 16-bit types (every pair with a representable result, every division, every shift; unrepresentable sums/differences/products in boundary bands and every 7th elsewhere).",
        "note": "Trusted: Lean kernel; the go/ast translator and the Go integer semantics in Hive/Base/GoInt.lean (both cross-checked by the differential run, exhaustive for 8-bit types incl. the raw operators); math/big as oracle.",
        "technique": "Lean 4 proofs over a model regenerated from the Go source by a translator + exhaustive/boundary differential run",
    },
}
