import os, subprocess, sys
sys.path.insert(0, os.path.dirname(os.path.dirname(os.path.abspath(__file__))))
import checklib


def regen(ctx):
    """Regenerate Hive/Gen/C19_SafeMath.lean from the working tree's safe_math.go (translator)."""
    out = os.path.join(checklib.LEAN, "Hive", "Gen", "C19_SafeMath.lean")
    src = os.path.join(ctx.repo, "core", "safemath", "safe_math.go")
    tmp = os.path.join(ctx.scratch, "C19_SafeMath.lean")
    rc, log = checklib.sh(["go", "run", "./tools/translate-safemath", src, tmp], cwd=checklib.HARNESS, timeout=600)
    fails = []
    if rc != 0 or not os.path.exists(tmp):
        fails.append({"kind": "translator", "detail": "translate-safemath failed (source outside the supported subset?):\n" + checklib.tail(log, 20)})
        return fails
    checklib.write_gen(ctx, out, open(tmp).read())
    ctx.notes.append("regenerated Hive/Gen/C19_SafeMath.lean from " + src)
    return fails


SPEC = {
    "lean_props": "Hive.Props.C19",
    "lean_namespace": ["Hive.GoInt", "Hive.Gen.SafeMath"],
    "driver": "drv_c19",
    "harness": "c19",
    "regen": regen,
    "theorems": ["C19_add_exact", "C19_sub_exact", "C19_mul_exact", "C19_div_exact", "C19_shl_exact",
                 "C19_mulU64_exact", "C19_mulI64_exact", "C19_mulDiv64_exact", "C19_all_translated", "C19_exact_spec",
                 "C19_never_wraps", "C19_never_spurious", "C19_shl_clauses", "C19_mul_twins", "C19_mulDiv64_clauses",
                 "C19_go_types_covered", "C19_statement_holds", "C19_wrap_spec", "C19_mul64_spec", "C19_div64_spec",
                 "C19_error_identity", "C19_sentinels_distinct", "C19_ierrors_wrappers", "C19_error_sites_cover"],
    "trusted_base": ["translator harness/tools/translate-safemath (go/ast -> Lean, ~1000 lines incl. the error-expression renderer), cross-checked on every run by executing the generated definitions against the real functions",
                     "Go integer semantics Hive/Base/GoInt.lean + Hive/Model/SafeMathOps.lean (wrap-around, truncated division and remainder, shifts, & | ^ &^ and complement, bits.Mul64/Div64; specification theorems C19_wrap_spec / mul64_spec / div64_spec), validated against the raw Go operators exhaustively for 8-bit types and by samples for wider types",
                     "Go toolchain, compiled Lean driver"],
    "modelled": ["Go operators + - * / << >> & and conversions as Int arithmetic with two's-complement wrap (validated differentially)",
                 "bits.Mul64 / bits.Div64 specified as 128-bit arithmetic", "error values mapped to overflow / divzero by the sentinel they wrap"],
    "assumptions": ["the shift count parameter is a uint8 (0..255); the theorem covers every natural count",
                    "error identity: errors.Is is modelled by the set of sentinels reachable through %w / Join (Hive/Model/SafeMathErr.lean); the message arguments of the ierrors wrappers are integers, never errors; default build tags (ierrors_no_stacktrace.go)"],
    "manifest": {
        "text": "Regenerated model: safe_math.go is translated to Lean on every run and the theorems are re-proved against it. For every integer type of positive width and either signedness (all eight Go types), every in-range operand pair and every shift count: SafeAdd/Sub/Mul/Div/LeftShift return exactly the mathematical result when representable and the overflow (or division-by-zero) error otherwise (C19_add/sub/mul/div/shl_exact); likewise SafeMulUint64, SafeMulInt64 and Safe64MulDiv (which never reaches a panicking bits.Div64). The two clauses are also stated separately (C19_never_wraps, C19_never_spurious, C19_shl_clauses, C19_mulDiv64_clauses) and for the eight Go types together (C19_statement_holds). The identity of the returned error (errors.Is against the two sentinels) is part of the model: error sites, sentinel definitions and the ierrors wrapper bodies are regenerated and checked by C19_error_identity / C19_sentinels_distinct / C19_ierrors_wrappers. The modelled operator semantics meet their specification (C19_wrap_spec, C19_mul64_spec, C19_div64_spec). The tie additionally runs a systematic boundary grid (7.9 M oracle-only evaluations over 16 instantiated types), all 65 536 operand pairs of both 8-bit types, all 256 shift counts and boundary-biased 16/32/64-bit samples through the real functions, the generated definitions and a math/big oracle.",
        "note": "Trusted: Lean kernel; the go/ast translator and the Go integer semantics in Hive/Base/GoInt.lean (both cross-checked by the differential run, exhaustive for 8-bit types incl. the raw operators); math/big as oracle.",
        "technique": "Lean 4 proofs over a model regenerated from the Go source by a translator + exhaustive/boundary differential run",
    },
}
