import os, sys
sys.path.insert(0, os.path.dirname(os.path.dirname(os.path.abspath(__file__))))
import checklib


FACT_REQUESTS = (
    ["runtime/timed/queue.go:" + f for f in [
        "NewQueue", "Queue.Add", "Queue.Size", "Queue.Shutdown", "Queue.IsShutdown", "Queue.Poll", "Queue.removeElement",
        "QueueElement.isCanceled", "QueueElement.Cancel", "QueueElement.cancelPending", "QueueElement.closeCancel", "WithMaxSize",
        "consts=ShutdownFlag"]] +
    ["runtime/timed/executor.go:" + f for f in [
        "NewExecutor", "Executor.ExecuteAfter", "Executor.ExecuteAt", "Executor.Size", "Executor.WorkerCount", "Executor.Shutdown",
        "Executor.startBackgroundWorkers", "WithMaxQueueSize"]] +
    ["runtime/timed/taskexecutor.go:" + f for f in [
        "NewTaskExecutor", "TaskExecutor.ExecuteAfter", "TaskExecutor.ExecuteAt", "TaskExecutor.Cancel"]] +
    ["runtime/timed/heapkey.go:HeapKey.CompareTo"] +
    ["ds/generalheap/generalheap.go:" + f for f in ["Heap.Len", "Heap.Less", "Heap.Swap", "Heap.Push", "Heap.Pop", "HeapElement.Index"]] +
    ["runtime/timed:methods=" + t for t in ["Queue", "QueueElement", "Executor", "TaskExecutor", "HeapKey"]] +
    ["ds/generalheap:methods=" + t for t in ["Heap", "HeapElement"]])


def regen_facts(ctx):
    """Regenerates lean/Hive/Gen/C18_Facts.lean (harness/c18/facts, go/ast): the normalised statements of every function of
    the anchored files (guards, arguments, constants), the method sets of the types (a method added to TaskExecutor that
    shadows a promoted Executor method changes the list) and the values of the ShutdownFlag constants.  Pinned by the
    C18_facts_* theorems of Hive/Props/TimedFacts.lean."""
    out = os.path.join(checklib.LEAN, "Hive", "Gen", "C18_Facts.lean")
    tmp = os.path.join(ctx.scratch, "C18_Facts.lean")
    args = ["go", "run", "./c18/facts", tmp, "Hive.Gen.C18Facts"] + [os.path.join(ctx.repo, r) for r in FACT_REQUESTS]
    rc, log = checklib.sh(args, cwd=checklib.HARNESS, timeout=600)
    if rc != 0 or not os.path.exists(tmp):
        return [{"kind": "skeleton-extractor", "detail": checklib.tail(log, 20)}]
    checklib.write_gen(ctx, out, open(tmp).read())
    return []


def regen(ctx):
    q, e, t = "runtime/timed/queue.go:", "runtime/timed/executor.go:", "runtime/timed/taskexecutor.go:"
    fails = checklib.regen_skeletons(ctx, [
        q + "Queue.Add", q + "Queue.Shutdown", q + "Queue.Poll", q + "QueueElement.Cancel", q + "Queue.removeElement",
        q + "QueueElement.isCanceled", q + "QueueElement.cancelPending", q + "QueueElement.closeCancel",
        q + "Queue.IsShutdown", q + "Queue.Size",
        e + "Executor.Shutdown", e + "Executor.startBackgroundWorkers", e + "Executor.ExecuteAt",
        t + "TaskExecutor.ExecuteAt", t + "TaskExecutor.Cancel",
        q + "type=Queue", q + "type=QueueElement", e + "type=Executor", t + "type=TaskExecutor",
        "runtime/timed/heapkey.go:type=HeapKey", "ds/generalheap/generalheap.go:type=HeapElement",
        "ds/generalheap/generalheap.go:type=Heap",
    ], extra_methods=["Wait", "Signal", "Broadcast", "Cancel", "Add", "Poll", "ExecuteAt", "Get", "Set", "Delete",
                      "Push", "Pop", "Remove", "cancelPending", "closeCancel", "IsShutdown", "Shutdown", "Clear"])
    return (fails or []) + regen_facts(ctx)


SPEC = {
    "lean_props": ["Hive.Props.C18", "Hive.Props.TimedFacts", "Hive.Props.TimedFlags"],
    "regen": regen,
    "lean_namespace": "Hive.Timed",
    "driver": "drv_c18",
    "harness": "c18",
    "race": True,
    "harness_timeout": {"quick": 600, "thorough": 3000},
    "theorems": ["C18_trace_ok", "C18_never_early", "C18_never_early_run", "C18_at_most_once",
                 "C18_cancel_before_pop_never_delivered", "C18_cancel_true_never_runs", "C18_cancel_result",
                 "C18_one_pending_per_id", "C18_cancel_false_nothing_pending", "C18_reschedule_replaces", "C18_after_is_at",
                 "C18_size_bound", "C18_add_drops_only_when_full", "C18_replace_never_drops",
                 "C18_statement_holds", "C18_cancel_true_iff_prevented", "C18_old_size_bound_witness",
                 "C18_old_after_shutdown_witness", "C18_eventually_delivered", "C18_due_element_moves",
                 "C18_shutdown_wakes_pollers", "C18_shutdown_returns_when_done", "C18_shutdown_return_step", "C18_skeleton_add", "C18_skeleton_shutdown", "C18_skeleton_poll",
                 "C18_skeleton_cancel", "C18_skeleton_executor", "C18_skeleton_taskexecutor",
                 "C18_facts_queue", "C18_facts_poll", "C18_facts_element", "C18_facts_executor", "C18_facts_taskexecutor",
                 "C18_facts_heap", "C18_facts_methods", "C18_skeleton_types", "C18_skeleton_helpers", "C18_facts_flags",
                 "C18_flags_hasBits", "C18_flags_or", "C18_flags_decode", "C18_lock_order",
                 "C18_shutdown_flag_table", "C18_flag_table_cancel_empties_heap", "C18_flag_table_refuses_add",
                 "C18_cancel_flag_held_element", "C18_cancel_flag_held_both_enabled",
                 "C18_cancel_flag_held_dropped_witness", "C18_cancel_flag_held_delivered_witness",
                 "C18_dropped_never_delivered", "C18_dropped_cancel_false", "C18_shutdown_from_callback_witness"],
    "trusted_base": [
        "hand-written protocol model Hive/Model/Timed.lean of runtime/timed (queue.go, executor.go, taskexecutor.go over container/heap "
        "and generalheap); ties: (1) differential execution of the model's own transition function under a deterministic scheduler "
        "against the real TaskExecutor driven at well separated instants (harness/c18 + drv_c18), (2) the trace predicate okLog "
        "evaluated on stress / forced-schedule traces of the real code, (3) regenerated synchronisation skeletons "
        "(Hive/Gen/C18_Skel.lean) and regenerated statements / method sets / constants (Hive/Gen/C18_Facts.lean, harness/c18/facts) "
        "as proof obligations, (4) the heap model compared slice by slice with a real generalheap.Heap under container/heap (gheap lines)",
        "Go's sync.Mutex / sync.Cond / select / context / timer semantics as written down in the model (Wait registers before "
        "unlocking; Signal wakes one registered waiter and is lost without one; Broadcast wakes all; select picks any ready case; "
        "a timer is ready iff clock >= deadline; the clock is monotone)",
        "Go toolchain and runtime timers, compiled Lean driver"],
    "modelled": [
        "Queue.Add/Poll/Shutdown(flags)/Size, QueueElement.Cancel, Executor workers and Shutdown (WaitGroup), TaskExecutor.ExecuteAt/Cancel, "
        "ExecuteAfter = ExecuteAt(clock at the call + delay) (C18_after_is_at) "
        "and its wrapper, callbacks that block / re-schedule their own identifier / cancel their own identifier",
        "every critical section under heapMutex is one atomic step; ExecuteAt is two steps holding the map mutex, Shutdown three",
        "the heap is container/heap's up/down over the generalheap slice, exactly (ties, size-bound victim); the theorems need only "
        "that its operations permute (proved); that Pop yields an earliest element is C12's heap property and is validated here by "
        "the differential run only",
        "a bare Queue is the same heap and the same Poll: consumers looping over Poll are the model's workers without callbacks; "
        "Poll(false) differs from Poll(true) only on the empty queue (returns the zero value at once) - it too waits for the "
        "time of the element it popped; direct Queue sessions are tied by the qseq lines (model's add/cancelElem/Heap.pop) and "
        "by okLog on qsess traces. NOT modelled (but driven on the real code by the cbshutdown part with its own oracle "
        "and okLog): Executor.Shutdown called from inside a callback; not modelled at all: callbacks that never return; "
        "time.Time wall-clock jumps",
        "liveness is stated as absence of stuck configurations (some executor goroutine can step or waits only for the clock / "
        "the harness), not as a fairness-based eventuality"],
    "manifest": {
        "text": "Theorems over all reachable configurations of a protocol model of runtime/timed (any size bound, any number of "
                "workers >= 1 and controller goroutines with arbitrary scripts of ExecuteAt / Cancel(id) / element Cancel / "
                "Shutdown(flags) at arbitrary times, callbacks that block, re-schedule or cancel their own identifier, a clock "
                "advancing at any step, all interleavings): the event log satisfies the trace predicate okLog (C18_trace_ok) - "
                "never early unless IgnorePendingTimeouts (C18_never_early, _run), at most once and in one place "
                "(C18_at_most_once), never delivered after a completed Cancel (C18_cancel_before_pop_never_delivered), never run "
                "after Cancel(id)=true or after being replaced (C18_cancel_true_never_runs, C18_reschedule_replaces); at most one "
                "pending task per identifier and none when Cancel(id) returns false (C18_one_pending_per_id, "
                "C18_cancel_false_nothing_pending); Cancel(id)=true implies that a task was pending in exactly one place "
                "(C18_cancel_true_iff_prevented, C18_statement_holds - the queue marks every element it drops, the two former "
                "known findings are fixed and kept as C18_old_*_witness); no stuck configuration with a pending element, also "
                "after Shutdown without CancelPendingElements (C18_eventually_delivered), Shutdown wakes every waiting poller "
                "(C18_shutdown_wakes_pollers), Executor.Shutdown returns only when the heap is empty and every worker has ended "
                "(C18_shutdown_returns_when_done); the size bound holds and Add drops only from a full queue, a replacement never "
                "drops (C18_size_bound, C18_add_drops_only_when_full, C18_replace_never_drops); the lock order computed from the "
                "regenerated skeletons is acyclic (C18_lock_order); the statements of all anchored functions, the method sets and "
                "the ShutdownFlag constants are regenerated and pinned (C18_facts_*); the complete shutdown-flag table - what each flag "
                "set does to the elements in the heap and to the element a poller holds, panic / dontWait changing no row "
                "(C18_shutdown_flag_table, C18_flag_table_*), the one nondeterministic row (with CancelPendingElements a held "
                "element whose time has come is dropped-and-marked or delivered, both enabled, both reachable: "
                "C18_cancel_flag_held_*), and in every reachable configuration whatever the queue dropped (size bound, shutdown "
                "flag) is marked as cancelled, has neither been delivered nor run and makes Cancel(id) answer false "
                "(C18_dropped_never_delivered, C18_dropped_cancel_false). Tie: the real TaskExecutor is driven from one goroutine at instants tens "
                "of ms apart (operations at even, due times at odd clock values; timing validity judged by a canary goroutine and "
                "the harness's own lateness; a disturbed attempt is given up at once and repeated, first with the same, then with "
                "larger units, then in a second pass; the child process of these cases runs in the round-robin real-time class "
                "where permitted; due times are also handed over as differently represented equal instants - wall-clock only, "
                "UTC, other zones) and must give line by line the answers of "
                "the compiled Lean model run under a deterministic scheduler (return values, Size(), which task ran in which "
                "clock unit, when Shutdown returned); forced schedules through two verif hooks (Poll before select, Add before "
                "insertion); stress traces judged by okLog; independent Go oracle (early, double, ran after Cancel true, wrong "
                "Cancel result, replaced task ran, missing delivery, Shutdown hang, an element dropped although the size bound was not exceeded - read off the "
                "elements' cancel channels); regenerated synchronisation skeletons, statements, method sets, constants, lock order.",
        "note": "Trusted: Lean kernel; the hand-written model and Go's sync/timer semantics as modelled; real-time tie with generous "
                "margins (cases whose own timing was disturbed are re-run, persistently disturbed ones dropped and counted; only "
                "lateness while the machine was demonstrably on time counts against the code). Nine "
                "defects of the unchanged tree were exhibited and repaired by fix: commits; no known finding remains.",
        "technique": "Lean 4 inductive invariants over an interleaving protocol model (counting invariants per element serial, "
                     "registry invariants, condition-variable accounting) + differential execution of the model's transition "
                     "function + trace-predicate conformance + regenerated skeleton obligations",
    },
    "assumptions": ["callbacks terminate unless the harness blocks them (progress theorem excuses goroutines waiting for the harness)",
                    "at least one worker goroutine (progress theorem)",
                    ],
}
