SPEC = {
    "lean_props": "Hive.Props.C18",
    "lean_namespace": "Hive.Timed",
    "driver": "drv_c18",
    "harness": "c18",
    "race": True,
    "trusted_base": ["hand-written protocol model Hive/Model/Timed.lean of runtime/timed (queue.go, executor.go, taskexecutor.go, container/heap over generalheap), tied by differential execution of the model's own transition function under a deterministic scheduler (harness/c18) and by the trace predicate okLog on stress traces",
                     "Go toolchain and runtime timers, compiled Lean driver"],
    "modelled": [],
    "manifest": {},
    "assumptions": [],
}
