# Development configuration of the JSON/map-form part of C01 (`./check C01B`); merged into checks/c01.py.
import os, sys
sys.path.insert(0, os.path.dirname(os.path.dirname(os.path.abspath(__file__))))
import checklib


def regen(ctx):
    """Regenerates lean/Hive/Gen/C01b_Facts.lean (namespace Hive.Gen.C01bFacts) from the working tree: normalised statement
    lists of every function of map_encode.go / map_decode.go / numbers.go / utils.go / the JSON entry points of serix.go /
    serializer.TimeToUint64, the reflect.Kind tables and the member-name constants.  Hive/Props/C01b.lean compares them with
    the frozen copy the model was written against (Hive/Spec/SerixJsonSource.lean): C01_json_source_* / _kinds_* / _const_*."""
    out = os.path.join(checklib.LEAN, "Hive", "Gen", "C01b_Facts.lean")
    tmp = os.path.join(ctx.scratch, "C01b_Facts.lean")
    if os.path.exists(tmp):
        os.remove(tmp)
    rc, log = checklib.sh(["go", "run", "./c01b/extract", ctx.repo, tmp], cwd=checklib.HARNESS, timeout=600)
    if rc != 0 or not os.path.exists(tmp):
        return [{"kind": "c01b-fact-extractor", "detail": checklib.tail(log, 20)}]
    checklib.write_gen(ctx, out, open(tmp).read())
    return []


SOURCE_OBLIGATIONS = [
    "C01_json_const_keyType", "C01_json_const_keyDefaultSliceArray", "C01_json_const_MaxNanoTimestampInt64Seconds",
    "C01_json_kinds_mapEncodeBasedOnType", "C01_json_kinds_mapDecodeBasedOnType",
] + ["C01_json_source_" + f for f in (
    "mapEncode mapEncodeBasedOnType mapEncodeInterface mapEncodeStruct mapEncodeStructFields mapEncodeSlice mapEncodeMapKVPair "
    "mapEncodeMap isValueEmpty mapDecode mapDecodeBasedOnType float64NumParser strNumParser mapDecodeNum mapDecodeFloat "
    "mapDecodeInterface mapDecodeStruct mapDecodeStructFields mapDecodeSlice mapDecodeBytes mapDecodeArray mapDecodeMap "
    "EncodeHex DecodeHex EncodeUint256 DecodeUint256 sliceFromArray fillArrayFromSlice FieldKeyString JSONEncode MapEncode "
    "JSONDecode MapDecode TimeToUint64").split()]

SPEC = {
    "regen": regen,
    "theorem_prefix": "C01",
    "lean_props": "Hive.Props.C01b",
    "lean_namespace": "Hive.SerixJson",
    "driver": "drv_c01b",
    "harness": "c01b",
    "theorems": ["C01_json_roundtrip", "C01_json_roundtrip_canon", "C01_json_canon_id", "C01_json_api_roundtrip", "C01_json_map_any_iteration_order",
                 "C01_json_key_order_irrelevant", "C01_json_key_order_by_lookup", "C01_json_map_member_order",
                 "C01_json_encode_order_irrelevant", "C01_json_isEmpty_order_irrelevant",
                 "C01_json_encode_no_duplicate_members", "C01_json_roundtrip_any_order",
                 "C01_json_model_type_member", "C01_json_model_time_saturation"] + SOURCE_OBLIGATIONS,
    "trusted_base": [
        "hand-written model Hive/Model/SerixJson.lean (+SerixJsonText) of serializer/serix/map_encode.go and map_decode.go, tied by "
        "differential execution over random schemas realised with reflect (harness/c01b)",
        "Go's strconv float text (FormatFloat 'g' -1 64 / ParseFloat) is a parameter of the model (FloatCodec); its round trip is a "
        "hypothesis of ValExpressible, checked by the Go oracle on every float",
        "encoding/json Marshal/Unmarshal carry the model's Json tree faithfully (strings: valid UTF-8 only)",
        "harness/c01b/extract (go/ast): regenerates Hive/Gen/C01b_Facts.lean - normalised statement lists of the 34 functions the model was "
        "written against, the reflect.Kind tables and the member-name constants - compared by decide with the frozen copy "
        "Hive/Spec/SerixJsonSource.lean (C01_json_source_*/_kinds_*/_const_*): the normalisation (white space, elided error texts) is trusted",
        "Go toolchain, compiled Lean driver",
    ],
    "modelled": [
        "mapEncode/mapDecode for bool, (u)int8..64, float32/64, string, []byte, byte arrays, typed byte arrays (object code + key), "
        "big.Int, time (every instant: TimeToUint64 saturates to 0 before the epoch and to MaxInt64 from 2^63 ns on), slices, arrays, maps, "
        "structs (named/optional/omitempty/embedded/inlined fields, object codes - registered or handed over by WithTypeSettings), pointers, interfaces; "
        "min/max length validation; strconv / hexutil text incl. alternative spellings; amd64 float-to-integer conversion of out-of-range numbers",
        "NOT modelled in Lean, but generated and judged by a Go-only stream of the harness (harness/c01b/goonly.go: independent reflect walker, oracles goonly-*): "
        "SerializableJSON/DeserializableJSON types in every position, syntactic validators (accepting / rejecting, call counts), ArrayRules Min/Max/MustOccur on "
        "interface slices and arrays, inlined pointers / interfaces",
        "NOT modelled: optional/omitempty on inlined fields (counted by start-up probes: the encoder omits them, the decoder reports a missing entry), "
        "object codes on non-byte slices, non-UTF-8 strings, JSON numbers with fraction/exponent, time zones (a time is its instant)",
    ],
    "manifest": {
        "text": "JSON/map form of serix. Theorems over every schema (structs with named/optional/omitempty/embedded/inlined fields and object codes, "
                "pointers, interfaces, slices, arrays, Go maps, byte arrays, typed byte arrays, big.Int, time, all integer/float widths), every value, "
                "validation on/off and any float text codec: mapDecode(mapEncode v) = v for every expressible type and value (C01_json_roundtrip, "
                "C01_json_api_roundtrip) and = canon v - the documented result: nil collections come back empty, omitempty leaves the zero value, "
                "times before the epoch saturate, NaN payloads are canonicalised - for every well-typed value (C01_json_roundtrip_canon), a Go map round-trips in every iteration order (C01_json_map_any_iteration_order), and decoding does not depend "
                "on the order of object members at any depth (C01_json_key_order_irrelevant, JPerm/VEquiv); conversely two listings of the same Go value (map entries in "
                "any order at any depth) are encoded to the same JSON object up to member order, both or neither succeeding (C01_json_encode_order_irrelevant). "
                "Instants of every range are modelled (TimeToUint64 saturation on both sides). The code the model was written against is pinned: statement lists of "
                "34 functions, the Kind tables and constants are regenerated from the working tree on every run and compared with a frozen copy by 39 decide-obligations. The hand-written model is re-validated on "
                "every run against random reflect-built Go types registered in a fresh serix.API: JSONEncode vs mapEncode, JSONDecode vs mapDecode on the "
                "produced document, on the document with every object's members shuffled, on documents with a member removed/added, under the other validation mode, "
                "with decimal/hex texts respelled (also as additional member names: duplicate map keys) and with numbers at the edge of the integer kinds; "
                "Go-only oracles encode-twice and MapDecode-vs-JSONDecode; "
                "JsonExpressible/ValExpressible/WellTyped verdicts and canon are compared with an independent Go statement; the Go-only oracle "
                "JSONDecode(JSONEncode(v)) = documented result (exact: nil-ness, float bits) "
                "turns a broken tie into a failing input. A Go-only stream (1 200 cases per quick run) covers what the model leaves out: self-serialising JSON types, syntactic validators, "
                "must-occur rules and inlined pointers/interfaces, judged by an independent reflect walker (round trip in both validation modes, call counts, rule verdicts).",
        "note": "Trusted: Lean kernel; model Hive/Model/SerixJson.lean (tie = differential execution); strconv float text (FloatCodec parameter, checked "
                "by the Go oracle); encoding/json carrying the Json tree. No open finding (seven fix: commits in map_encode.go / map_decode.go / serix.go / utils.go). Not modelled in Lean (Go-only stream instead): self-serialising types, validators, MustOccur, inlined interfaces, non-UTF-8 strings.",
        "technique": "Lean 4 mutual structural induction over the schema type + differential correspondence on random schemas",
    },
    "assumptions": ["documents handed to the decoder are map[string]any trees (no duplicate member names) - proved for every document the "
                    "encoder itself wrote (C01_json_encode_no_duplicate_members), true of whatever json.Unmarshal builds"],
}
