# Development configuration of the JSON/map-form part of C01 (`./check C01B`); merged into checks/c01.py.
SPEC = {
    "theorem_prefix": "C01",
    "lean_props": "Hive.Props.C01b",
    "lean_namespace": "Hive.SerixJson",
    "driver": "drv_c01b",
    "harness": "c01b",
    "theorems": ["C01_json_roundtrip", "C01_json_api_roundtrip", "C01_json_map_any_iteration_order",
                 "C01_json_key_order_irrelevant", "C01_json_key_order_by_lookup", "C01_json_map_member_order"],
    "trusted_base": [
        "hand-written model Hive/Model/SerixJson.lean (+SerixJsonText) of serializer/serix/map_encode.go and map_decode.go, tied by "
        "differential execution over random schemas realised with reflect (harness/c01b)",
        "Go's strconv float text (FormatFloat 'g' -1 64 / ParseFloat) is a parameter of the model (FloatCodec); its round trip is a "
        "hypothesis of ValExpressible, checked by the Go oracle on every float",
        "encoding/json Marshal/Unmarshal carry the model's Json tree faithfully (strings: valid UTF-8 only)",
        "Go toolchain, compiled Lean driver",
    ],
    "modelled": [
        "mapEncode/mapDecode for bool, (u)int8..64, float32/64, string, []byte, byte arrays, typed byte arrays (object code + key), "
        "big.Int, time, slices, arrays, maps, structs (named/optional/omitempty/embedded/inlined fields, object codes), pointers, interfaces; "
        "min/max length validation",
        "NOT modelled: SerializableJSON/DeserializableJSON and validator callbacks, ArrayRules.MustOccur, inlined interfaces/pointers, "
        "object codes on non-byte slices, non-UTF-8 strings, JSON numbers with fraction/exponent, times beyond 2^63 ns",
    ],
    "assumptions": ["documents handed to the decoder are map[string]any trees (no duplicate member names)"],
}
