import os, sys
sys.path.insert(0, os.path.dirname(os.path.dirname(os.path.abspath(__file__))))
import checklib


STMT_REQUESTS = [
    "starvingmutex.go:NewStarvingMutex", "starvingmutex.go:StarvingMutex.RLock", "starvingmutex.go:StarvingMutex.RUnlock",
    "starvingmutex.go:StarvingMutex.Lock", "starvingmutex.go:StarvingMutex.Unlock", "starvingmutex.go:StarvingMutex.canWrite",
    "dagmutex.go:NewDAGMutex", "dagmutex.go:DAGMutex.RLock", "dagmutex.go:DAGMutex.RUnlock", "dagmutex.go:DAGMutex.Lock",
    "dagmutex.go:DAGMutex.Unlock", "dagmutex.go:DAGMutex.registerMutexes", "dagmutex.go:DAGMutex.registerMutex",
    "dagmutex.go:DAGMutex.lookupMutexes", "dagmutex.go:DAGMutex.unregisterMutexes", "dagmutex.go:DAGMutex.unregisterMutex",
    "counter.go:NewCounter", "counter.go:Counter.Get", "counter.go:Counter.Set", "counter.go:Counter.Update",
    "counter.go:Counter.Increase", "counter.go:Counter.Decrease", "counter.go:Counter.WaitIsZero", "counter.go:Counter.WaitIsBelow",
    "counter.go:Counter.WaitIsAbove", "counter.go:Counter.set", "counter.go:Counter.update", "counter.go:Counter.notifySubscribers",
    "stack.go:NewStack", "stack.go:Stack.Push", "stack.go:Stack.Pop", "stack.go:Stack.Size", "stack.go:Stack.PopOrWait",
    "stack.go:Stack.WaitIsEmpty", "stack.go:Stack.WaitSizeIsBelow", "stack.go:Stack.WaitSizeIsAbove", "stack.go:Stack.SignalShutdown"]


def regen_stmts(ctx):
    """Regenerates lean/Hive/Gen/C17_Stmts.lean: the normalised statements (guards, assignments, panics, calls) of the
    anchored functions, pinned by the `C17_stmts_*` theorems of Hive/Props/SyncMutexCode.lean."""
    out = os.path.join(checklib.LEAN, "Hive", "Gen", "C17_Stmts.lean")
    tmp = os.path.join(ctx.scratch, "C17_Stmts.lean")
    args = ["go", "run", "./c17/stmts", tmp, "Hive.Gen.C17Stmts"] + [os.path.join(ctx.repo, "runtime/syncutils", r) for r in STMT_REQUESTS]
    rc, log = checklib.sh(args, cwd=checklib.HARNESS, timeout=600)
    if rc != 0 or not os.path.exists(tmp):
        return [{"kind": "skeleton-extractor", "detail": checklib.tail(log, 20)}]
    checklib.write_gen(ctx, out, open(tmp).read())
    return []


def regen(ctx):
    return (regen_skel(ctx) or []) + regen_stmts(ctx)


def regen_skel(ctx):
    f = "runtime/syncutils/"
    return checklib.regen_skeletons(ctx, [
        f + "starvingmutex.go:StarvingMutex.RLock", f + "starvingmutex.go:StarvingMutex.RUnlock",
        f + "starvingmutex.go:StarvingMutex.Lock", f + "starvingmutex.go:StarvingMutex.Unlock",
        f + "dagmutex.go:DAGMutex.RLock", f + "dagmutex.go:DAGMutex.RUnlock",
        f + "dagmutex.go:DAGMutex.Lock", f + "dagmutex.go:DAGMutex.Unlock",
        f + "dagmutex.go:DAGMutex.registerMutexes", f + "dagmutex.go:DAGMutex.lookupMutexes",
        f + "dagmutex.go:DAGMutex.unregisterMutexes",
        f + "dagmutex.go:DAGMutex.unregisterMutex",
        f + "counter.go:Counter.Set", f + "counter.go:Counter.Update", f + "counter.go:Counter.update",
        f + "counter.go:Counter.WaitIsBelow", f + "counter.go:Counter.WaitIsAbove",
        f + "stack.go:Stack.Push", f + "stack.go:Stack.Pop", f + "stack.go:Stack.PopOrWait",
        f + "stack.go:Stack.WaitSizeIsBelow", f + "stack.go:Stack.WaitSizeIsAbove", f + "stack.go:Stack.SignalShutdown",
        f + "counter.go:type=Counter", f + "stack.go:type=Stack", f + "starvingmutex.go:type=StarvingMutex", f + "dagmutex.go:type=DAGMutex",
    ], extra_methods=["Wait", "Signal", "Broadcast"])


SPEC = {
    "lean_props": ["Hive.Props.C17", "Hive.Props.SyncMutexCode"],
    "regen": regen,
    "lean_namespace": "Hive.SyncMutex",
    "driver": "drv_c17",
    "harness": "c17",
    "harness_timeout": {"quick": 600, "thorough": 3000},
    "theorems": ["C17_exclusion", "C17_counters_exact", "C17_exclusion_state", "C17_wellbracketed_no_panic",
                 "C17_no_lost_wakeup", "C17_no_lost_wakeup_quiescent", "C17_deadlock_free",
                 "C17_unlock_unheld_panics", "C17_unlock_held_ok", "C17_monitor_refines_rwlock", "C17_panic_releases_internal_mutex", "C17_unlock_unheld_old_witness",
                 "C17_dag_exclusion", "C17_dag_deadlock_free", "C17_dag_no_deadlock", "C17_dag_wellbracketed_no_panic",
                 "C17_dag_unlock_unheld_panics", "C17_dag_unlock_wrong_mode_old_witness",
                 "C17_dag_composed_monitors", "C17_dag_composed_exclusion", "C17_dag_composed_deadlock_free", "C17_dag_composed_no_panic", "C17_dag_composed_no_leak", "C17_dag_composed_objects_any_scripts", "C17_dag_misuse_panic_preserves_state", "C17_dag_misuse_call_preserves_state", "C17_dag_misuse_panic_fixed_witness", "C17_dag_misuse_panic_wrong_mode_witness", "C17_dag_misuse_panic_kth_id_witness",
                 "C17_wait_iff_returns_only_if", "C17_wait_iff_no_lost_wakeup", "C17_wait_iff_quiescent",
                 "C17_waitv_refines_wait", "C17_waitv_quiescent", "C17_stack_fifo_conservation", "C17_counter_notifications_chain", "C17_counter_stack_return_values",
                 "C17_driver_outcomes_reachable", "C17_skeleton_starvingmutex", "C17_skeleton_dagmutex", "C17_skeleton_counter", "C17_skeleton_stack", "C17_skeleton_types",
                 "C17_stmts_NewStarvingMutex", "C17_stmts_StarvingMutex_RLock", "C17_stmts_StarvingMutex_RUnlock", "C17_stmts_StarvingMutex_Lock", "C17_stmts_StarvingMutex_Unlock", "C17_stmts_StarvingMutex_canWrite", "C17_stmts_NewDAGMutex", "C17_stmts_DAGMutex_RLock", "C17_stmts_DAGMutex_RUnlock", "C17_stmts_DAGMutex_Lock", "C17_stmts_DAGMutex_Unlock", "C17_stmts_DAGMutex_registerMutexes", "C17_stmts_DAGMutex_registerMutex", "C17_stmts_DAGMutex_lookupMutexes", "C17_stmts_DAGMutex_unregisterMutexes", "C17_stmts_DAGMutex_unregisterMutex", "C17_stmts_NewCounter", "C17_stmts_Counter_Get", "C17_stmts_Counter_Set", "C17_stmts_Counter_Update", "C17_stmts_Counter_Increase", "C17_stmts_Counter_Decrease", "C17_stmts_Counter_WaitIsZero", "C17_stmts_Counter_WaitIsBelow", "C17_stmts_Counter_WaitIsAbove", "C17_stmts_Counter_set", "C17_stmts_Counter_update", "C17_stmts_Counter_notifySubscribers", "C17_stmts_NewStack", "C17_stmts_Stack_Push", "C17_stmts_Stack_Pop", "C17_stmts_Stack_Size", "C17_stmts_Stack_PopOrWait", "C17_stmts_Stack_WaitIsEmpty", "C17_stmts_Stack_WaitSizeIsBelow", "C17_stmts_Stack_WaitSizeIsAbove", "C17_stmts_Stack_SignalShutdown"],
    "trusted_base": [
        "hand-written protocol models Hive/Model/SyncMutex.lean (StarvingMutex monitor), SyncMutexDag.lean (DAGMutex over abstract "
        "per-entity reader/writer locks), SyncMutexWait.lean (Counter/Stack waits); ties: scripted-arrival conformance, stress traces, "
        "sequential panic matrix (harness/c17) and regenerated synchronisation skeletons (Hive/Gen/C17_Skel.lean)",
        "Go's sync.Mutex / sync.Cond semantics as written down in the models (Wait registers before unlocking; Signal wakes one "
        "registered waiter and is lost without one; Broadcast wakes all)",
        "quiescence detection in the harness reads sync.Cond's notify list (wait - notify) through reflection",
        "Go toolchain, compiled Lean driver",
    ],
    "modelled": [
        "StarvingMutex.Lock/Unlock/RLock/RUnlock as micro-steps around the internal mutex with separate Signal/Broadcast steps",
        "debug.GetEnabled() deadlock-detection goroutines are not modelled (debug mode off)",
        "DAGMutex, composed model (Hive/Model/SyncMutexComp.lean): registry mutex, mutexes/consumerCounter maps, heap of StarvingMutex "
        "monitors stepped by mxStep, registration before blocking, detached objects; C17_dag_composed_* are proved on it directly; "
        "the body of a d.Mutex critical section (no blocking call inside) is one step after the acquisition step",
        "DAGMutex, abstract model (Hive/Model/SyncMutexDag.lean, used by the driver for the arrival-order tie and by C17_dag_*): "
        "per-entity abstract reader/writer locks, unregister+unlock as one step",
        "Counter/Stack data layer (Hive/Model/SyncMutexWaitV.lean, the model the driver runs): Wait.step with stack contents (FIFO, ids = push "
        "sequence numbers), popped elements and Set/Update return values per goroutine, subscriber notifications (old,new) attached",
        "state after a misuse panic: StarvingMutex as before the call (the internal mutex is released before the panic, code after the repair); DAGMutex composed model = code after the repair "
        "'unregister only after the unlock has succeeded': Unlock/RUnlock look the mutexes up (validation with multiplicity, registry "
        "untouched, d.Mutex released before the panic), unlock them, and unregister in a second critical section",
        "regenerated normalised statements of 36 anchored functions pinned by C17_stmts_* (Hive/Props/SyncMutexCode.lean)",
        "liveness is stated as invariants (every eligible waiter has a pending notifier) and absence of deadlock, not as fairness-based eventuality; "
        "a transient condition can be missed by a Counter/Stack wait (woken, it re-checks after the value moved back) - admitted by the model",
    ],
    "manifest": {
        "text": "Theorems over all reachable configurations of protocol models with any number of goroutines and any scripts: "
                "StarvingMutex exclusion (C17_exclusion, C17_exclusion_state), no lost wake-up as invariants Phi_W/Phi_R plus the "
                "quiescent form and deadlock freedom for well-bracketed scripts (C17_no_lost_wakeup, C17_no_lost_wakeup_quiescent, "
                "C17_deadlock_free), unlock-of-unheld panics without touching the state (C17_unlock_unheld_panics), DAGMutex exclusion "
                "and deadlock freedom for acquisition along an order, both over the system composed of StarvingMutex monitors + registry "
                "(C17_dag_composed_exclusion, C17_dag_composed_deadlock_free) and over abstract per-entity locks (C17_dag_exclusion, C17_dag_deadlock_free), Counter/Stack waits "
                "return only when and whenever their condition holds (C17_wait_iff_*). Tie: exhaustive/random scripted arrival orders "
                "on the real objects with quiescence observed through the sync.Cond notify lists, every observation checked by the "
                "compiled Lean models (set of admissible quiescent outcomes over all interleavings); stress with in-critical-section "
                "overlap detectors and traces checked by the Lean exclusion / wait predicates; sequential panic matrix; regenerated "
                "synchronisation skeletons and normalised statements (guards, assignments, panics, constructor wiring) as proof obligations. "
                "Data layer: stack FIFO/conservation, notification chain, return values (C17_stack_fifo_conservation, "
                "C17_counter_notifications_chain, C17_counter_stack_return_values) over a refinement of the wait monitor "
                "(C17_waitv_refines_wait), observed per arrival. After a recovered misuse panic the state is observed and probed "
                "(C17_panic_releases_internal_mutex; C17_dag_misuse_panic_preserves_state / C17_dag_misuse_call_preserves_state: a misused "
                "DAGMutex.Unlock/RUnlock panics with the registry and every entity's lock state untouched, for a wrong mode at the k-th id "
                "of RUnlock with the k-1 read locks before it released and all registrations in place - the former known finding, repaired "
                "in /repo fdd3faa; C17_dag_composed_objects_any_scripts: under arbitrary scripts every mutex object keeps the monitor "
                "invariants; C17_dag_composed_no_leak). Round 6 ties: holder bookkeeping with frozen entities and lock states after every "
                "recovered panic, misusers concurrent with correct users in the DAG stress, hand-off unlocks, corner thresholds "
                "MaxInt/MinInt on every Wait*, calls queued on the Counter's value lock behind a subscriber callback (stale reads before "
                "the lock become visible).",
        "note": "Trusted: Lean kernel; the hand-written models and Go's sync semantics as modelled; the executable DAG oracle of the tie is the abstract-lock model (the composed model is used for the theorems); liveness as invariants + deadlock freedom, no fairness.",
        "technique": "Lean 4 inductive invariants over interleaving protocol models (counting invariants, obligation-holder invariants) "
                     "+ conformance of recorded arrival-order observations and stress traces + regenerated skeleton obligations",
    },
    "assumptions": ["well-bracketed scripts for the goroutine-level statements (a goroutine unlocks what it locked)",
                    "DAG entities are numbered along a topological order and acquired in increasing order"],
}
