# C01 = binary serix (checks/c01a.py) + JSON/map form (checks/c01b.py) + stream helpers (checks/c01c.py), merged.
import os, sys
sys.path.insert(0, os.path.dirname(os.path.dirname(os.path.abspath(__file__))))
import checklib
SPEC = checklib.merge_specs([checklib.load_dev_spec(n) for n in ("c01a", "c01b", "c01c")],
                            technique="Lean 4 round-trip proofs by mutual structural induction over schema types + three differential correspondences (binary, JSON, stream)")
