import os, sys
sys.path.insert(0, os.path.dirname(os.path.dirname(os.path.abspath(__file__))))
import checklib


def regen(ctx):
    return checklib.regen_skeletons(ctx, ["kvstore/sequence.go:Sequence.Next", "kvstore/sequence.go:Sequence.Release",
                                          "kvstore/sequence.go:Sequence.update", "kvstore/sequence.go:type=Sequence"], extra_methods=["Set", "Get"])


SPEC = {
    "lean_props": ["Hive.Props.C07", "Hive.Props.C07b"],
    "regen": regen,
    "lean_namespace": ["Hive.Seq", "Hive.Seq.Conc"],
    "driver": "drv_c07",
    "harness": "c07",
    "theorems": ["C07_strictly_increasing", "C07_release_wastes_none", "C07_crash_wastes_le_interval",
                 "C07_next_returns_frontier", "C07_no_wrap", "C07_exhausted_harmless", "C07_lease_spec", "C07_old_update_wrap_witness", "C07_budget_step", "C07_store_error_harmless", "C07_skeleton_next", "C07_skeleton_release", "C07_skeleton_update", "C07_skeleton_type_sequence",
                 # protocol level: concurrent callers on one object (Hive/Props/C07b.lean, model Hive/Model/SeqConc.lean)
                 "C07_concurrent_mutual_exclusion", "C07_concurrent_refines_sequential", "C07_concurrent_answers_are_sequential", "C07_concurrent_strictly_increasing",
                 "C07_concurrent_no_number_twice", "C07_concurrent_crash_wastes_le_interval", "C07_concurrent_crash_step",
                 "C07_concurrent_release_wastes_none", "C07_concurrent_contiguous", "C07_concurrent_no_wrap", "C07_concurrent_skeleton"],
    "trusted_base": ["hand-written model Hive/Model/Seq.lean of kvstore/sequence.go, tied by differential execution (harness/c07)",
                     "hand-written protocol model Hive/Model/SeqConc.lean (micro-steps of Next/update/Release under seq.Mutex), tied by the regenerated lock/store-call skeletons and by recorded concurrent histories judged with the theorems' trace predicate ('chist' requests)",
                     "Go toolchain, compiled Lean driver"],
    "modelled": ["kvstore.Sequence Next/Release/update/NewSequence as micro-steps over one stored mark",
                 "uint64 range: numbers are Nat in the model; update's lease is cut off at cap = 2^64-1 and exhaustion is an error, and C07_no_wrap proves that no value of the model exceeds cap, so Nat and uint64 arithmetic coincide (field types pinned by C07_skeleton_type_sequence)",
                 "store faults: an I/O error of the store read or write of a call (failNext/failRelease); other faults are not modelled",
                 "sequential model: the object mutex is modelled as atomicity of Next; concurrent Next is validated by the 'par' requests",
                 "protocol model: any number of goroutines with arbitrary scripts of Next/Release on one object, every method cut into the code's shared-memory micro-steps (Lock, lease test, store.Get, seq.next = num, store.Set, seq.reserved = reserved, val := next; next++, deferred Unlock; store calls may fail), crash at ANY micro-step + restart with a fresh object used by fresh goroutines",
                 "Go memory model / data races are not modelled: the protocol model is sequentially consistent (justified by C07_concurrent_mutual_exclusion: every access to next/reserved/store happens under seq.Mutex)"],
    "manifest": {
        "text": "Theorems over every history of restart/Next/Release/crash-at-each-store-boundary with any positive interval: numbers handed out are strictly increasing (C07_strictly_increasing), a crash wastes at most the abandoned object's interval (C07_crash_wastes_le_interval, C07_budget_step), a clean Release wastes none (C07_release_wastes_none); no value ever exceeds 2^64-1, so the uint64 arithmetic of the code never wraps, and at the end of the number space Next reports exhaustion, hands out nothing and writes nothing (C07_no_wrap, C07_lease_spec, C07_exhausted_harmless; C07_old_update_wrap_witness: the unrepaired update reused numbers through wrap-around). Protocol level (Hive/Props/C07b.lean over the interleaving model Hive/Model/SeqConc.lean: any number of goroutines, arbitrary scripts of Next/Release on ONE object, the code's micro-steps, store errors, crash at any micro-step + restart; every reachable configuration = every schedule): at most one goroutine is between Lock and Unlock and only the holder touches next/reserved/the store (C07_concurrent_mutual_exclusion); the history of linearised calls, crashes and restarts is a run of the sequential machine and every returned answer is the sequential one (C07_concurrent_refines_sequential); the ghost log of (goroutine, number) hand-outs is strictly increasing, so no number is returned twice to anybody (C07_concurrent_strictly_increasing, C07_concurrent_no_number_twice); waste bounds lifted (C07_concurrent_crash_wastes_le_interval, C07_concurrent_crash_step: a crash at any micro-step wastes at most the abandoned interval; C07_concurrent_release_wastes_none); without crash/store error the numbers are exactly the consecutive ones from the frontier (C07_concurrent_contiguous). The hand-written model is re-validated against the working tree on every run by a line-by-line differential run (real kvstore.Sequence over mapdb with a store wrapper that crashes after the k-th store call) and an independent in-Go property oracle; the protocol model is tied by the regenerated lock/store-call skeletons (C07_skeleton_*, C07_concurrent_skeleton) and by 'chist' requests (recorded histories of goroutines calling Next while another keeps calling Release, then abandon + restart) that the Lean driver judges with the trace predicate of the C07_concurrent_* theorems.",
        "note": "Trusted: Lean kernel; model Hive/Model/Seq.lean (tie = differential execution, random histories); mutex atomicity of Next assumed in the sequential model, proved for the protocol model Hive/Model/SeqConc.lean (sequentially consistent interleavings; tie = skeletons + recorded concurrent histories) and sampled by concurrent 'par' / 'parrel' / 'chist' requests.",
        "technique": "Lean 4 invariant proof by induction over operation histories + invariant / refinement proof over all interleavings of a micro-step protocol model + differential correspondence",
    },
    "assumptions": ["one live Sequence object per key at a time; an abandoned object is never used again"],
}
