import os, sys
sys.path.insert(0, os.path.dirname(os.path.dirname(os.path.abspath(__file__))))
import checklib


def regen_source(ctx):
    """Regenerates lean/Hive/Gen/C07_Src.lean: the statements of kvstore/sequence.go in source order (normalised text with
    block markers), every top-level declaration and the imports; pinned by the C07_source_* obligations."""
    out = os.path.join(checklib.LEAN, "Hive", "Gen", "C07_Src.lean")
    tmp = os.path.join(ctx.scratch, "C07_Src.lean")
    out_ast = os.path.join(checklib.LEAN, "Hive", "Gen", "C07_Ast.lean")
    tmp_ast = os.path.join(ctx.scratch, "C07_Ast.lean")
    srcgen = os.path.join(ctx.scratch, "c07_srcgen")
    rc, log = checklib.sh(["go", "build", "-o", srcgen, "./c07/srcgen"], cwd=checklib.HARNESS, timeout=600)
    if rc != 0:
        return [{"kind": "source-extractor", "detail": checklib.tail(log, 20)}]
    rc, log = checklib.sh([srcgen, tmp, "Hive.Gen.C07Src", os.path.join(ctx.repo, "kvstore/sequence.go"),
                           tmp_ast, "Hive.Gen.C07Ast"], cwd=checklib.HARNESS, timeout=600)
    if rc != 0 or not os.path.exists(tmp) or not os.path.exists(tmp_ast):
        return [{"kind": "source-extractor", "detail": checklib.tail(log, 20)}]
    checklib.write_gen(ctx, out, open(tmp).read())
    # the same functions as terms of the small imperative language interpreted by Hive/Model/SeqGo.lean (Props/C07d.lean)
    checklib.write_gen(ctx, out_ast, open(tmp_ast).read())
    # the store layers the Sequence relies on (Get / Set / realm views of debug, flushkv, mapdb): statements pinned by
    # C07_source_store_* (Hive/Props/C07h.lean), the text the layer models of Hive/Model/SeqStore.lean were written against
    fails = []
    for mod, rel in (("SrcDebug", "kvstore/debug/debug.go"), ("SrcFlush", "kvstore/flushkv/flushkv.go"),
                     ("SrcMapdb", "kvstore/mapdb/mapdb.go"), ("SrcSynced", "kvstore/mapdb/synced_map.go")):
        tmp_l = os.path.join(ctx.scratch, "C07_%s.lean" % mod)
        rc, log = checklib.sh([srcgen, tmp_l, "Hive.Gen.C07" + mod, os.path.join(ctx.repo, rel)], cwd=checklib.HARNESS, timeout=600)
        if rc != 0 or not os.path.exists(tmp_l):
            fails.append({"kind": "source-extractor", "detail": rel + ": " + checklib.tail(log, 20)})
            continue
        checklib.write_gen(ctx, os.path.join(checklib.LEAN, "Hive", "Gen", "C07_%s.lean" % mod), open(tmp_l).read())
    return fails


def regen(ctx):
    fails = checklib.regen_skeletons(ctx, ["kvstore/sequence.go:Sequence.Next", "kvstore/sequence.go:Sequence.Release",
                                           "kvstore/sequence.go:Sequence.update", "kvstore/sequence.go:type=Sequence"], extra_methods=["Set", "Get"])
    return (fails or []) + regen_source(ctx)


SPEC = {
    "lean_props": ["Hive.Props.C07", "Hive.Props.C07b", "Hive.Props.C07c", "Hive.Props.C07d", "Hive.Props.C07e", "Hive.Props.C07f", "Hive.Props.C07g", "Hive.Props.C07h"],
    "regen": regen,
    "lean_namespace": ["Hive.Seq", "Hive.Seq.Conc", "Hive.Seq.Layered", "Hive.Seq.Go", "Hive.Seq.Multi", "Hive.Seq.Mem"],
    "driver": "drv_c07",
    "harness": "c07",
    "theorems": ["C07_strictly_increasing", "C07_release_wastes_none", "C07_crash_wastes_le_interval",
                 "C07_next_returns_frontier", "C07_no_wrap", "C07_exhausted_harmless", "C07_lease_spec", "C07_old_update_wrap_witness", "C07_budget_step", "C07_store_error_harmless", "C07_frontier_step", "C07_mark_encoding_roundtrip", "C07_two_live_objects_witness", "C07_skeleton_next", "C07_skeleton_release", "C07_skeleton_update", "C07_skeleton_type_sequence",
                 "C07_source_new", "C07_source_next", "C07_source_release", "C07_source_update", "C07_source_decls",
                 # protocol level: concurrent callers on one object (Hive/Props/C07b.lean, model Hive/Model/SeqConc.lean)
                 "C07_concurrent_mutual_exclusion", "C07_concurrent_refines_sequential", "C07_concurrent_answers_are_sequential", "C07_concurrent_strictly_increasing",
                 "C07_concurrent_no_number_twice", "C07_concurrent_crash_wastes_le_interval", "C07_concurrent_crash_step",
                 "C07_concurrent_release_wastes_none", "C07_concurrent_contiguous", "C07_concurrent_no_wrap", "C07_concurrent_skeleton", "C07_concurrent_no_deadlock",
                 # the store as a parameter (Hive/Props/C07c.lean, model Hive/Model/SeqStore.lean): what the Sequence needs from the store layer
                 "C07_layered_refines_sequential", "C07_no_reuse_over_faithful_store", "C07_waste_over_faithful_store",
                 "C07_store_contract_plain", "C07_store_contract_flushkv", "C07_unfaithful_store_witness",
                 # the sequential model derived from the source (Hive/Props/C07d.lean): the functions of sequence.go, translated on every run, interpreted in Lean
                 "C07_generated_supported", "C07_generated_new", "C07_generated_next", "C07_generated_release", "C07_generated_crash_points", "C07_generated_applies_to_reachable",
                 # several sequences with different keys over one store (Hive/Props/C07f.lean, model Hive/Model/SeqMulti.lean): a product of independent sequences
                 "C07_sequences_independent", "C07_requests_on_different_keys_commute", "C07_per_key_strictly_increasing", "C07_per_key_waste", "C07_shared_buffer_witness",
                 # the value handed to store.Set is a fresh private copy (Hive/Props/C07g.lean, memory-level model Hive/Model/SeqMem.lean)
                 "C07_stored_value_is_private_copy", "C07_commit_stores_what_was_encoded", "C07_per_object_buffer_needs_copying_store",
                 "C07_aliased_buffer_witness", "C07_pooled_buffer_witness",
                 # every wrapper stack of the module is faithful (Hive/Props/C07c.lean) and the store layers' source text is pinned (Hive/Props/C07h.lean)
                 "C07_store_contract_stack", "C07_no_reuse_over_every_stack", "C07_silent_debug_store_witness",
                 "C07_source_store_debug", "C07_source_store_flushkv", "C07_source_store_mapdb", "C07_source_store_map_copies"],
    "trusted_base": ["hand-written model Hive/Model/Seq.lean of kvstore/sequence.go, tied by differential execution (harness/c07) and - for the calls NewSequence / Next / Release incl. failing store calls - PROVED equal to the interpretation of the source: harness/c07/srcgen translates sequence.go (go/ast) into terms of the small imperative language of Hive/Model/SeqGo.lean on every run, C07_generated_* prove that the interpreted terms compute the model's steps; trusted there: the translator (~300 lines of Go) and the interpreter's semantics of the language (wrapping uint64 arithmetic, early return, tagless switch); crash points are boundaries between the store calls of these functions (skeleton obligations)",
                     "hand-written protocol model Hive/Model/SeqConc.lean (micro-steps of Next/update/Release under seq.Mutex), tied by the regenerated lock/store-call skeletons and by recorded concurrent histories judged with the theorems' trace predicate ('chist' requests)",
                     "Go toolchain, compiled Lean driver"],
    "modelled": ["kvstore.Sequence Next/Release/update/NewSequence as micro-steps over one stored mark",
                 "uint64 range: numbers are Nat in the model; update's lease is cut off at cap = 2^64-1 and exhaustion is an error, and C07_no_wrap proves that no value of the model exceeds cap, so Nat and uint64 arithmetic coincide (field types pinned by C07_skeleton_type_sequence)",
                 "store faults: an I/O error of the store read or write of a call (failNext/failRelease); Hive/Model/SeqStore.lean makes the store a parameter (any layer with its own state, Get/Set, shutdown/reopen events also between update's Get and Set) and states the obligation on it (Faithful: a Set that answered nil is in the database, a failed Set changed nothing, a Get answers what the database holds, shutdown/reopen keep the content); plain views and flushkv are modelled and proved faithful; a store that loses acknowledged writes is outside the property (C07_unfaithful_store_witness)",
                 "what the harness observes after every sequential request besides the answer: interval/next/reserved of the live object (reflection), the raw 8 stored bytes (model: be8), the store calls made (model: calls)",
                 "sequential model: the object mutex is modelled as atomicity of Next; concurrent Next is validated by the 'par' requests",
                 "protocol model: any number of goroutines with arbitrary scripts of Next/Release on one object, every method cut into the code's shared-memory micro-steps (Lock, lease test, store.Get, seq.next = num, store.Set, seq.reserved = reserved, val := next; next++, deferred Unlock; store calls may fail), crash at ANY micro-step + restart with a fresh object used by fresh goroutines",
                 "Go memory model / data races are not modelled: the protocol model is sequentially consistent (justified by C07_concurrent_mutual_exclusion: every access to next/reserved/store happens under seq.Mutex)"],
    "manifest": {
        "text": "Theorems over every history of restart/Next/Release/crash-at-each-store-boundary with any positive interval: numbers handed out are strictly increasing (C07_strictly_increasing), a crash wastes at most the abandoned object's interval (C07_crash_wastes_le_interval, C07_budget_step), a clean Release wastes none (C07_release_wastes_none); no value ever exceeds 2^64-1, so the uint64 arithmetic of the code never wraps, and at the end of the number space Next reports exhaustion, hands out nothing and writes nothing (C07_no_wrap, C07_lease_spec, C07_exhausted_harmless; C07_old_update_wrap_witness: the unrepaired update reused numbers through wrap-around). Protocol level (Hive/Props/C07b.lean over the interleaving model Hive/Model/SeqConc.lean: any number of goroutines, arbitrary scripts of Next/Release on ONE object, the code's micro-steps, store errors, crash at any micro-step + restart; every reachable configuration = every schedule): at most one goroutine is between Lock and Unlock and only the holder touches next/reserved/the store (C07_concurrent_mutual_exclusion); the history of linearised calls, crashes and restarts is a run of the sequential machine and every returned answer is the sequential one (C07_concurrent_refines_sequential); the ghost log of (goroutine, number) hand-outs is strictly increasing, so no number is returned twice to anybody (C07_concurrent_strictly_increasing, C07_concurrent_no_number_twice); waste bounds lifted (C07_concurrent_crash_wastes_le_interval, C07_concurrent_crash_step: a crash at any micro-step wastes at most the abandoned interval; C07_concurrent_release_wastes_none); without crash/store error the numbers are exactly the consecutive ones from the frontier (C07_concurrent_contiguous). The store as a parameter (Hive/Props/C07c.lean): over EVERY store layer that is faithful (a Set that answered nil is in the database, a failed Set changed nothing, a Get answers what the database holds, shutdown/reopen keep the content) every history - including shutdowns of the database between the store read and the store write of a lease renewal - is a history of the sequential machine (C07_layered_refines_sequential), so no number is handed out twice and the waste bound holds (C07_no_reuse_over_faithful_store, C07_waste_over_faithful_store); the models of plain views and of flushkv are faithful (C07_store_contract_plain, C07_store_contract_flushkv); a flushkv that hides the ErrStoreClosed of the mutation is not, and hands 5 out twice (C07_unfaithful_store_witness). The sequential model is derived from the source (Hive/Props/C07d.lean): on every run harness/c07/srcgen translates the four functions of kvstore/sequence.go into terms of a small imperative language, Lean interprets them (uint64 arithmetic wraps at 2^64, early returns, tagless switch, failing store calls) and C07_generated_new / C07_generated_next / C07_generated_release prove that they compute exactly the model's steps new / next / failNext get|set / release / failRelease (store cell, object fields, answer) for every state within the uint64 range, which every reachable state is (C07_generated_applies_to_reachable), and that the store calls they make, with the store cell after each, are exactly the crash points of the model (C07_generated_crash_points: Get then Set in a renewing Next, the write before seq.reserved and before any hand-out; one Set in a Release with a lease; none otherwise); a construct the translator does not know breaks C07_generated_supported. The hand-written model is additionally re-validated against the working tree on every run by a line-by-line differential run (real kvstore.Sequence over mapdb with a store wrapper that crashes after the k-th store call) (every request also compares the object's private fields, the raw stored bytes and the store calls made; sequences run over plain views, the root store and flushkv, over a database that is shut down at every store-call boundary, with a second sequence under another key) and an independent in-Go property oracle (strictly increasing, waste bounds, lease covered by the stored mark, stored mark above every number handed out, acknowledged writes are in the database); the protocol model is tied by the regenerated lock/store-call skeletons (C07_skeleton_*, C07_concurrent_skeleton) and by 'chist' requests (recorded histories of goroutines calling Next while another keeps calling Release, then abandon + restart) that the Lean driver judges with the trace predicate of the C07_concurrent_* theorems.",
        "note": "Trusted: Lean kernel; model Hive/Model/Seq.lean (tie = differential execution, random histories); mutex atomicity of Next assumed in the sequential model, proved for the protocol model Hive/Model/SeqConc.lean (sequentially consistent interleavings; tie = skeletons + recorded concurrent histories) and sampled by concurrent 'par' / 'parrel' / 'chist' requests.",
        "technique": "Lean 4 invariant proof by induction over operation histories + invariant / refinement proof over all interleavings of a micro-step protocol model + differential correspondence",
    },
    "assumptions": ["one live Sequence object per key at a time; an abandoned object is never used again",
                    "the store layer is faithful (Hive.Seq.Layered.Faithful): proved for the models of plain views and flushkv, tested on every wrapper stack of the harness at every store call (oracles acked-write-lost / stale-read)"],
}
