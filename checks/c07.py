import os, sys
sys.path.insert(0, os.path.dirname(os.path.dirname(os.path.abspath(__file__))))
import checklib


def regen(ctx):
    return checklib.regen_skeletons(ctx, ["kvstore/sequence.go:Sequence.Next", "kvstore/sequence.go:Sequence.Release",
                                          "kvstore/sequence.go:Sequence.update"], extra_methods=["Set", "Get"])


SPEC = {
    "lean_props": "Hive.Props.C07",
    "regen": regen,
    "lean_namespace": "Hive.Seq",
    "driver": "drv_c07",
    "harness": "c07",
    "theorems": ["C07_strictly_increasing", "C07_release_wastes_none", "C07_crash_wastes_le_interval",
                 "C07_next_returns_frontier", "C07_budget_step", "C07_store_error_harmless", "C07_skeleton_next", "C07_skeleton_release", "C07_skeleton_update"],
    "trusted_base": ["hand-written model Hive/Model/Seq.lean of kvstore/sequence.go, tied by differential execution (harness/c07)",
                     "Go toolchain, compiled Lean driver"],
    "modelled": ["kvstore.Sequence Next/Release/update/NewSequence as micro-steps over one stored mark",
                 "uint64 wrap-around at 2^64 is NOT modelled (Nat)", "store faults other than crashes are not modelled",
                 "the object mutex is modelled as atomicity of Next; concurrent Next is validated by the 'par' requests"],
    "manifest": {
        "text": "Theorems over every history of restart/Next/Release/crash-at-each-store-boundary with any positive interval: numbers handed out are strictly increasing (C07_strictly_increasing), a crash wastes at most the abandoned object's interval (C07_crash_wastes_le_interval, C07_budget_step), a clean Release wastes none (C07_release_wastes_none). The hand-written model is re-validated against the working tree on every run by a line-by-line differential run (real kvstore.Sequence over mapdb with a store wrapper that crashes after the k-th store call) and an independent in-Go property oracle.",
        "note": "Trusted: Lean kernel; model Hive/Model/Seq.lean (tie = differential execution, random histories); uint64 wrap-around and store I/O errors not modelled; mutex atomicity of Next assumed in the model and sampled by concurrent 'par' requests.",
        "technique": "Lean 4 invariant proof by induction over operation histories + differential correspondence",
    },
    "assumptions": ["one live Sequence object per key at a time; an abandoned object is never used again"],
}
