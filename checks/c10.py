import os, sys
sys.path.insert(0, os.path.dirname(os.path.dirname(os.path.abspath(__file__))))
import checklib

TS_METHODS = ["Init", "Front", "Back", "PushFront", "PushBack", "Remove", "InsertBefore", "InsertAfter", "MoveToFront",
              "MoveToBack", "MoveBefore", "MoveAfter", "PushBackList", "PushFrontList", "ForEach", "ForEachReverse",
              "Range", "RangeReverse", "Values", "Len"]


def goroot():
    rc, out = checklib.sh(["go", "env", "GOROOT"], cwd=checklib.HARNESS, timeout=60)
    return out.strip().split("\n")[-1].strip()


def regen_code(ctx):
    """Hive/Gen/C10_Code.lean: every function of the inner list / element of ds/list_impl.go AND of GOROOT's container/list
    translated (harness/c10/xlate, go/ast) into the statement language of Hive/Model/DListIR.lean, plus the delegation
    table of the thread-safe wrapper and the constructors.  Props/C10.lean proves the hand-written model equal to the
    meaning of the translated code (C10_code_*)."""
    out = os.path.join(checklib.LEAN, "Hive", "Gen", "C10_Code.lean")
    tmp = os.path.join(ctx.scratch, "C10_Code.lean")
    rc, log = checklib.sh(["go", "run", "./c10/xlate", tmp, "Hive.Gen.C10Code", os.path.join(ctx.repo, "ds/list_impl.go"),
                           os.path.join(goroot(), "src/container/list/list.go"), os.path.join(ctx.repo, "ds/list.go")],
                          cwd=checklib.HARNESS, timeout=600)
    if rc != 0 or not os.path.exists(tmp):
        return [{"kind": "code-translator", "detail": checklib.tail(log, 20)}]
    checklib.write_gen(ctx, out, open(tmp).read())
    if "xlate:" in log:
        # the code left the fragment the translator understands; the obligation C10_code_translated fails as well
        ctx.notes.append("xlate: " + checklib.tail(log, 5))
    return []


def regen(ctx):
    return regen_skel(ctx) + regen_code(ctx)


def regen_skel(ctx):
    """Synchronisation skeleton of every method of the thread-safe wrapper (one lock / deferred unlock around exactly
    one call of the inner list's method of the same name) plus the shapes of the three types."""
    reqs = ["ds/list_impl.go:threadSafeList." + m for m in TS_METHODS]
    reqs += ["ds/list_impl.go:type=threadSafeList", "ds/list_impl.go:type=list", "ds/list_impl.go:type=listElement"]
    return checklib.regen_skeletons(ctx, reqs, extra_methods=TS_METHODS)


SPEC = {
    "regen": regen,
    "lean_props": "Hive.Props.C10",
    "lean_namespace": "Hive.DList",
    "driver": "drv_c10",
    "harness": "c10",
    "theorems": ["C10_wf_preserved", "C10_refines", "C10_refines_run", "C10_foreign_noop", "C10_neighbours",
                 "C10_code_translated", "C10_code_same_as_container_list", "C10_code_is_model", "C10_code_is_container_list",
                 "C10_code_observers", "C10_code_walks", "C10_traversals", "C10_code_refines_run", "C10_container_list_meets_spec", "C10_code_wrappers",
                 "C10_skeleton_writers", "C10_skeleton_readers", "C10_skeleton_pushlists", "C10_skeleton_type_shapes"],
    "trusted_base": [
        "hand-written pointer-level model Hive/Model/DList.lean of ds/list_impl.go, tied by differential execution (harness/c10)",
        "Go's container/list executed in the harness as the independent reference the property names",
        "Go toolchain, compiled Lean driver"],
    "modelled": [
        "ds.list Init/lazyInit/Front/Back/PushFront/PushBack/Remove/InsertBefore/InsertAfter/MoveToFront/MoveToBack/MoveBefore/"
        "MoveAfter/PushBackList/PushFrontList/insert/insertValue/remove/move and listElement.Prev/Next/Value as loads and stores "
        "on a heap Nat -> {prev,next,owner,val} with two sentinel-rooted lists",
        "threadSafeList = the same calls under one RWMutex: sequentially the same function; both flavours are executed by the harness",
        "nil dereference and the 'unsupported ListElement type' panics are NOT modelled (unreachable from well-formed states); len is a Nat",
        "handles that were live when Init was called on their list are excluded by hypothesis (okRun) and compared two-way only "
        "(systematically: stale-focused histories, comparison continues through corrupted rings and negative Len)",
        "concurrency of the thread-safe flavour is NOT modelled in Lean; it is smoke-tested by the harness (stress + forced "
        "two-writer schedules behind a parked reader; oracle: no panic/deadlock, well-formed ring, Len, element multiset; "
        "reader calls deliver exactly one snapshot), and its lock structure is a regenerated skeleton obligation (C10_skeleton_*)"],
    "manifest": {
        "text": "Pointer-level Lean model of ds.List (heap of prev/next/owner/val nodes, two sentinel rings, the same loads/stores as "
                "insert/remove/move) with theorems over every history: the ring well-formedness invariant is preserved "
                "(C10_wf_preserved), every operation returns what the abstract container/list specification returns and commutes with "
                "the abstraction (C10_refines, C10_refines_run), removed/foreign handles are no-ops (C10_foreign_noop), and "
                "Front/Back/Prev/Next/Value/Values/reverse walk read off the abstract sequence (C10_neighbours). The model is "
                "re-validated against the working tree on every run by a three-way differential run: both flavours of ds.List vs the "
                "Lean driver vs Go's container/list on random two-list histories with live, removed, foreign, stale and nil handles.",
        "note": "Trusted: Lean kernel; the hand-written model (tie = differential execution); container/list as reference. Histories "
                "passing handles that were live before an Init are outside the theorems (both libraries leave them unspecified) and "
                "are compared hive-vs-container/list only. Concurrency of the thread-safe flavour is outside the theorems; the harness "
                "smoke-tests it (stress rounds, forced double-Remove schedules) with an in-Go oracle.",
        "technique": "Lean 4 refinement proof (pointer-level ring invariant, ghost abstract sequence) + three-way differential correspondence",
    },
    "assumptions": ["no operation is given a handle that was live in a list when Init was called on that list (okRun)",
                    "sequential histories (the property quantifies over histories, not schedules)"],
}
