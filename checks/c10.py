import os, sys
sys.path.insert(0, os.path.dirname(os.path.dirname(os.path.abspath(__file__))))
import checklib

TS_METHODS = ["Init", "Front", "Back", "PushFront", "PushBack", "Remove", "InsertBefore", "InsertAfter", "MoveToFront",
              "MoveToBack", "MoveBefore", "MoveAfter", "PushBackList", "PushFrontList", "ForEach", "ForEachReverse",
              "Range", "RangeReverse", "Values", "Len", "snapshot"]


def goroot():
    rc, out = checklib.sh(["go", "env", "GOROOT"], cwd=checklib.HARNESS, timeout=60)
    return out.strip().split("\n")[-1].strip()


def regen_code(ctx):
    """Hive/Gen/C10_Code.lean: every function of the inner list / element of ds/list_impl.go AND of GOROOT's container/list
    translated (harness/c10/xlate, go/ast) into the statement language of Hive/Model/DListIR.lean, plus the delegation
    table of the thread-safe wrapper and the constructors.  Props/C10.lean proves the hand-written model equal to the
    meaning of the translated code (C10_code_*)."""
    out = os.path.join(checklib.LEAN, "Hive", "Gen", "C10_Code.lean")
    tmp = os.path.join(ctx.scratch, "C10_Code.lean")
    rc, log = checklib.sh(["go", "run", "./c10/xlate", tmp, "Hive.Gen.C10Code", os.path.join(ctx.repo, "ds/list_impl.go"),
                           os.path.join(goroot(), "src/container/list/list.go"), os.path.join(ctx.repo, "ds/list.go")],
                          cwd=checklib.HARNESS, timeout=600)
    if rc != 0 or not os.path.exists(tmp):
        return [{"kind": "code-translator", "detail": checklib.tail(log, 20)}]
    checklib.write_gen(ctx, out, open(tmp).read())
    if "xlate:" in log:
        # the code left the fragment the translator understands; the obligation C10_code_translated fails as well
        ctx.notes.append("xlate: " + checklib.tail(log, 5))
    return []


def regen(ctx):
    return regen_skel(ctx) + regen_code(ctx)


def regen_skel(ctx):
    """Synchronisation skeleton of every method of the thread-safe wrapper (one lock / deferred unlock around exactly
    one call of the inner list's method of the same name) plus the shapes of the three types."""
    reqs = ["ds/list_impl.go:threadSafeList." + m for m in TS_METHODS]
    reqs += ["ds/list_impl.go:type=threadSafeList", "ds/list_impl.go:type=list", "ds/list_impl.go:type=listElement"]
    return checklib.regen_skeletons(ctx, reqs, extra_methods=TS_METHODS)


SPEC = {
    "regen": regen,
    "lean_props": "Hive.Props.C10",
    "lean_namespace": "Hive.DList",
    "driver": "drv_c10",
    "harness": "c10",
    "theorems": ["C10_wf_preserved", "C10_refines", "C10_refines_run", "C10_foreign_noop", "C10_neighbours",
                 "C10_init_resets", "C10_remove_any_state", "C10_foreign_noop_spec", "C10_ring_after_run", "C10_old_moveBefore_witness",
                 "C10_code_translated", "C10_code_same_as_container_list", "C10_code_is_model", "C10_code_is_container_list",
                 "C10_code_observers", "C10_code_walks", "C10_traversals", "C10_code_refines_run", "C10_container_list_meets_spec", "C10_code_wrappers",
                 "C10_skeleton_writers", "C10_skeleton_readers", "C10_skeleton_pushlists", "C10_skeleton_type_shapes",
                 "C10_ts_linearizable", "C10_ts_real_time_order", "C10_ts_log_is_the_calls", "C10_ts_list_object", "C10_ts_list_is_sequential", "C10_ts_lock_kinds",
                 "C10_lincheck_sound", "C10_lincheck_complete", "C10_lincheck_example", "C10_ts_no_deadlock", "C10_ts_writer_preference", "C10_newlist_flavour", "C10_reentrant_traversal"],
    "trusted_base": [
        "harness/c10/xlate: the go/ast translator from ds/list_impl.go and GOROOT container/list into the statement language "
        "Hive/Model/DListIR.lean, and that language's interpreter (IR.exec) as the meaning of loads/stores/guards/calls; "
        "the hand-written model Hive/Model/DList.lean is no longer trusted (proved equal to the translated code, C10_code_is_model) "
        "and is additionally tied by differential execution (harness/c10), stale-handle histories included",
        "Go's container/list executed in the harness as the independent reference the property names (and translated: "
        "C10_code_same_as_container_list); also the reference of the Go-side linearizability oracle",
        "harness/tools/extract-sync (lock skeletons of the 20 wrapper methods) as the tie of the protocol model TS.tsSys to the code",
        "Go toolchain, compiled Lean driver"],
    "modelled": [
        "ds.list Init/lazyInit/Front/Back/Len/PushFront/PushBack/Remove/InsertBefore/InsertAfter/MoveToFront/MoveToBack/MoveBefore/"
        "MoveAfter/PushBackList/PushFrontList/insert/insertValue/remove/move, listElement.Prev/Next/Value (nil value pointer), "
        "Range/RangeReverse/ForEach/ForEachReverse (error abort)/Values as loads and stores on a heap Nat -> {prev,next,owner,val} "
        "with two sentinel-rooted lists; len is an Int (negative after a stale Remove)",
        "the same functions regenerated from the working tree as statement lists (Hive/Gen/C10_Code.lean) with an interpreter; "
        "container/list regenerated the same way",
        "threadSafeList = the same calls under one RWMutex: sequentially the same function; both flavours are executed by the harness; "
        "delegation table, constructors (newList calls Init; NewList flavour selection) pinned by regenerated obligations",
        "traversals whose callback modifies the list (walkMut: deliver, act, then advance in the new list; 12 actions) for the "
        "lock-free flavour, driven three-way by the reent lines",
        "nil dereference and the 'unsupported ListElement type' panics are NOT modelled (unreachable from well-formed states)",
        "handles that were live when Init was called on their list are outside the refinement-to-specification theorems (okRun) but "
        "inside the code theorems (same pointer program as container/list on every state) and inside the three-way differential",
        "concurrent use of the thread-safe flavour: protocol model TS.tsSys (Hive/Model/DListConc.lean) — one RWMutex in front of a "
        "sequential object, arbitrary thread pool and programs, writer = Lock / first read / commit from that read / Unlock, reader = "
        "RLock / first read / second read / RUnlock, linearization log with stamps; instantiated with the pointer-level list model "
        "(12 mutating methods under the write lock, 8 observers under the read lock; lock kinds and the one-inner-call shape are "
        "regenerated skeleton obligations); recorded histories of concurrent runs are judged by the linearizability checker linSearch "
        "(sound: C10_lincheck_sound) in the Lean driver and, independently, against container/list in Go",
        "NOT modelled in Lean: a push between two thread-safe lists as an operation on the pair (it is a reader call on the source — "
        "snapshot, pinned by its skeleton — followed by a writer call on the target; the harness checks no panic, no deadlock and "
        "that the block is one state of the source), Prev/Next/Value of elements read concurrently with writers (lock-free atomics)"],
    "manifest": {
        "text": "Pointer-level Lean model of ds.List (heap of prev/next/owner/val nodes, two sentinel rings, the same loads/stores as "
                "insert/remove/move) with theorems over every history: the ring well-formedness invariant is preserved "
                "(C10_wf_preserved), every operation returns what the abstract container/list specification returns and commutes with "
                "the abstraction (C10_refines, C10_refines_run), removed/foreign handles are no-ops (C10_foreign_noop), "
                "Front/Back/Prev/Next/Value/Values/reverse walk and aborted traversals read off the abstract sequence (C10_neighbours, "
                "C10_traversals). The model is proved equal, on every state, to the meaning of the code translated from the working "
                "tree on every run (C10_code_is_model, C10_code_walks), whose statement lists are identical to those translated from "
                "Go's container/list (C10_code_same_as_container_list, C10_code_is_container_list: same pointer program also for stale "
                "handles), giving C10_code_refines_run end to end. The thread-safe flavour under concurrent use is a protocol model "
                "(one RWMutex, any number of goroutines and calls) with the theorem that every call takes effect at one point between "
                "its invocation and its response and the effects in that order are a sequential history of the list "
                "(C10_ts_linearizable, C10_ts_list_is_sequential), tied to the code by regenerated lock skeletons of all 20 wrapper "
                "methods (C10_skeleton_*, C10_ts_lock_kinds). The tie is re-validated by a three-way differential run (both flavours of "
                "ds.List vs the Lean driver vs Go's container/list on random two-list histories with live, removed, foreign and stale "
                "handles, aborted traversals, Values() aliasing) and by recorded concurrent histories (forced schedules for every "
                "mutating method queued behind a parked reader, stress rounds) judged for linearizability against container/list in Go "
                "and by the Lean driver's checker (C10_lincheck_sound).",
        "note": "Trusted: Lean kernel; the translator harness/c10/xlate and the interpreter of its statement language; container/list "
                "as reference; harness/tools/extract-sync for the lock skeletons. Histories passing handles that were live before an "
                "Init are outside the specification theorems (both libraries leave them unspecified) but inside the code-level "
                "theorems and the differential. The protocol model treats the inner call as two steps (read, commit) under the lock; "
                "that the code between Lock and Unlock is exactly one inner call is the skeleton obligation. Lock order between two "
                "different thread-safe lists, a source mutated during a whole-list push and concurrent Prev/Next/Value are outside.",
        "technique": "Lean 4 refinement proof (pointer-level ring invariant, ghost abstract sequence) + source-to-IR translation with "
                     "model = code theorems + protocol-level linearizability invariant (Hive.Conc.Sys) + three-way differential "
                     "correspondence + linearizability checking of recorded concurrent histories",
    },
    "assumptions": ["no operation is given a handle that was live in a list when Init was called on that list (okRun) - for the "
                    "refinement-to-specification theorems only; the C10_code_* theorems are unconditional",
                    "concurrent use (theorems): one thread-safe list; each wrapper method is lock / one inner call / deferred unlock "
                    "(regenerated obligation); a source that is another thread-safe list enters as the snapshot it was read as"],
}
