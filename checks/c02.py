import os, sys
sys.path.insert(0, os.path.dirname(os.path.dirname(os.path.abspath(__file__))))
import checklib


def regen_facts(ctx):
    """lean/Hive/Gen/C02_Facts.lean: values of the constants the decoder / stream models use (go/types) and the
    normalised bodies of the functions they transcribe (harness/c02/facts), rewritten from the working tree on every
    run; tied to the models by the C02_facts_* / C01_facts_* obligations."""
    out = os.path.join(checklib.LEAN, "Hive", "Gen", "C02_Facts.lean")
    tmp = os.path.join(ctx.scratch, "C02_Facts.lean")
    rc, log = checklib.sh(["go", "run", "./c02/facts", tmp, "Hive.Gen.C02Facts", ctx.repo], cwd=checklib.HARNESS, timeout=600)
    if rc != 0 or not os.path.exists(tmp):
        return [{"kind": "facts-extractor", "detail": checklib.tail(log, 20)}]
    checklib.write_gen(ctx, out, open(tmp).read())
    return []


def regen(ctx):
    return regen_skel(ctx) + regen_facts(ctx)


def regen_skel(ctx):
    """The caches and registries of a serix.API are shared by every Decode/Encode on it: the kind of lock each
    accessor takes (lock vs rlock) is pinned by regenerated synchronisation skeletons (Props/C02.lean,
    C02_skeleton_*)."""
    sf = "serializer/serix/struct_fields.go:structFieldsCache."
    ts = "serializer/serix/type_settings.go:TypeSettingsRegistry."
    ir = "serializer/serix/interfaces.go:InterfacesRegistry."
    vr = "serializer/serix/validators.go:validatorsRegistry."
    return checklib.regen_skeletons(ctx, [
        sf + "Get", sf + "Set",
        ts + "Has", ts + "GetByType", ts + "GetByValue", ts + "ForEach", ts + "RegisterTypeSettings",
        ir + "Has", ir + "Get", ir + "ForEach", ir + "RegisterInterfaceObjects",
        vr + "Has", vr + "Get", vr + "RegisterValidator",
        "serializer/serix/serix.go:API.getStructFields"],
        extra_methods=["Get", "Set", "Has", "ForEach"])


SPEC = {
    "regen": regen,
    # Props/C02.lean: Deserializer primitives, stream readers, JSON/map decoder (namespace Hive.C02);
    # Props/C02b.lean: serix binary Decode over every schema (namespace Hive.Serix, theorems C02_no_panic / C02_consumed_le)
    "lean_props": ["Hive.Props.C02", "Hive.Props.C02b"],
    "lean_namespace": ["Hive.C02", "Hive.Serix"],
    "parts": [
        {"driver": "drv_c02", "harness": "c02", "gomemlimit": "8GiB"},
        {"driver": "drv_c02b", "harness": "c02/serix", "gomemlimit": "8GiB"},
    ],
    "theorems": ["C02_no_panic", "C02_consumed_le",
                 "C02_deser_no_panic", "C02_deser_consumed_le", "C02_deser_offset_le", "C02_alloc_linear", "C02_iters_linear",
                 "C02_oversized_length_allocates_nothing", "C02_oversized_count_bounded",
                 "C02_omap_total", "C02_typeutils_consumed_le",
                 "C02_stream_no_panic", "C02_stream_consumed_le", "C02_stream_alloc_linear", "C02_stream_iters_linear", "C02_stream_seek_no_panic", "C02_stream_bytesRead_le",
                 "C02_json_no_panic", "C02_json_text_no_panic", "C02_numbers_output_le", "C02_omap_rounds_unconditional", "C02_all",
                 "C02_facts_constants", "C02_facts_type_allowedGenericTypes", "C02_facts_body_ReadBytes", "C02_facts_body_ReadBytesWithSize", "C02_facts_body_ReadObject", "C02_facts_body_ReadObjectWithSize", "C02_facts_body_PeekSize", "C02_facts_body_ReadCollection",
                 "C02_facts_body_readFixedSize", "C02_facts_body_ByteReader_BytesRead", "C02_facts_body_Uint64FromBytes", "C02_facts_body_ByteArray32FromBytes", "C02_facts_body_Deserializer_readSliceLength", "C02_facts_body_Deserializer_ReadVariableByteSlice", "C02_facts_body_Deserializer_ReadString", "C02_facts_body_Deserializer_ReadBytes",
                 "C02_facts_body_Deserializer_ReadPayloadLength", "C02_facts_body_Deserializer_GetObjectType", "C02_facts_body_Deserializer_ReadSequenceOfObjects", "C02_facts_body_Deserializer_RemainingBytes", "C02_facts_body_Deserializer_Done", "C02_facts_body_Deserializer_Skip", "C02_facts_body_Deserializer_ReadTime", "C02_facts_body_Deserializer_ReadPayload",
                 "C02_facts_body_DecodeHex", "C02_facts_body_DecodeUint256", "C02_facts_body_DecodeUint64",
                 "C02_facts_body_Deserializer_ReadBool", "C02_facts_body_Deserializer_ReadByte", "C02_facts_body_Deserializer_ReadUint256", "C02_facts_body_Deserializer_ReadNum", "C02_facts_body_Deserializer_ReadBytesInPlace", "C02_facts_body_Deserializer_ReadObject", "C02_facts_body_Deserializer_readObject", "C02_facts_body_Deserializer_ReadSliceOfObjects", "C02_facts_body_Deserializer_CheckTypePrefix", "C02_facts_body_Deserializer_ConsumedAll", "C02_facts_body_Deserializer_AbortIf", "C02_facts_body_Deserializer_WithValidation", "C02_facts_body_Deserializer_Do", "C02_facts_body_ArrayRules_CheckBounds", "C02_facts_body_ArrayRules_ElementUniqueValidator", "C02_facts_body_ArrayRules_LexicalOrderValidator", "C02_facts_body_ArrayRules_LexicalOrderWithoutDupsValidator", "C02_facts_body_ArrayRules_AtMostOneOfEachTypeValidator", "C02_facts_body_ArrayRules_ElementValidationFunc", "C02_facts_body_API_JSONDecode", "C02_facts_body_API_MapDecode", "C02_facts_body_API_mapDecode", "C02_facts_body_mapDecodeBytes", "C02_facts_body_API_mapDecodeFloat", "C02_facts_body_API_mapDecodeNum", "C02_facts_body_SerializableOrderedMap_Decode",
                 "C02_facts_body_CheckType", "C02_facts_body_CheckTypeByte", "C02_facts_body_numSize",
                 "C02_facts_json_no_unchecked_assertion", "C02_facts_json_unchecked_assertions", "C02_facts_json_assertions", "C02_facts_json_reflectValueOf",
                 "C02_skeleton_structFieldsCache_Get", "C02_skeleton_structFieldsCache_Set", "C02_skeleton_API_getStructFields",
                 "C02_skeleton_TypeSettingsRegistry_GetByType", "C02_skeleton_TypeSettingsRegistry_GetByValue",
                 "C02_skeleton_TypeSettingsRegistry_RegisterTypeSettings", "C02_skeleton_InterfacesRegistry_Get",
                 "C02_skeleton_InterfacesRegistry_RegisterInterfaceObjects", "C02_skeleton_validatorsRegistry_Get",
                 "C02_skeleton_validatorsRegistry_RegisterValidator"],
    "trusted_base": [
        "hand-written models Hive/Model/Deser.lean (serializer.Deserializer primitives as read programs, SerializableOrderedMap.Decode, typeutils), "
        "Hive/Model/Stream.lean (serializer/stream readers over data + chunk list), Hive/Model/JsonDec.lean (map_decode.go dispatch on JSON kinds) "
        "- each tied by line-by-line differential execution (harness/c02) on mutated valid encodings, random bytes and kind-mutated JSON documents",
        "the string syntaxes of strconv.ParseInt/ParseUint/ParseFloat (decimal, inf/nan, underscores; no hex floats), hexutil.Decode/DecodeBig and utf8.ValidString as written down in JsonDec.lean",
        "harness/tools/extract-sync (shared go/ast extractor): regenerates Hive/Gen/C02_Skel.lean, the synchronisation skeletons of the struct-field cache and the registries of a serix.API, pinned by the C02_skeleton_* decide-obligations",
        "harness/c02/facts (go/types + go/ast): regenerates Hive/Gen/C02_Facts.lean - constant values and normalised function bodies of serializer/serializer.go (every Deserializer primitive, the ArrayRules element validators), serializer/stream, serializer/typeutils, serix/numbers.go, the entry points and small helpers of serix/map_decode.go, SerializableOrderedMap.Decode - tied to the models by the C02_facts_* obligations (constants by decide, bodies against the pinned copies in Hive/Spec/DeserFacts.lean); "
        "and the table of EVERY type assertion and reflect.ValueOf call of map_decode.go (C02_facts_json_no_unchecked_assertion: no assertion of the single-value form on decoded JSON)",
        "the independent Go oracle (recovered panic, consumed > len, runtime.MemStats.TotalAlloc delta > 64 KiB + 64*len; 256*len for serix.Decode / ordered map) evaluated in a child process with an address-space limit",
        "Go toolchain, compiled Lean driver",
    ],
    "modelled": [
        "Deserializer: ReadNum ReadBool ReadByte ReadUint256 ReadTime ReadBytes ReadBytesInPlace ReadVariableByteSlice ReadString Skip CheckTypePrefix ReadPayloadLength ConsumedAll "
        "ReadSequenceOfObjects (bounds + all element validators) ReadObject ReadSliceOfObjects (MustOccur) ReadPayload GetObjectType; callbacks are read programs on a fresh Deserializer",
        "the chain helpers RemainingBytes, GetObjectType (as a call of its own), Do, AbortIf, WithValidation are primitives of the read programs; the offset Done() reports is modelled also next to an error (behind the prefix of a refused length, behind the elements read so far) and compared; error identities are collapsed to 'err'",
        "stream: Read[uintN|intN|bool|[32|36|38]byte] ReadBytes ReadBytesWithSize ReadObject ReadObjectWithSize ReadObjectFromReader PeekSize ReadCollection, every prefix width; Offset/Skip/GoTo and ByteReader.BytesRead over a seekable reader; readers that return io.EOF together with data and readers that break with another error after K bytes (= the reader over the first K bytes)",
        "JSON: outcome class of mapDecode per target kind (bool, string, small ints, 64-bit ints, floats, big.Int, time, []byte, [N]byte, *[N]byte, slices, arrays, maps, structs with object code / embedded / inlined / optional fields, registered and unregistered interfaces, unsupported kinds); "
        "decoded values are not modelled (C01b); round 6: byte array / byte slice types with an object code held by value (object form), types that decode themselves (DeserializableJSON through a pointer and through a value receiver) with a registered syntactic validator, "
        "JSONDecode on raw texts (the model is given the tree encoding/json makes of the text: not JSON / a top-level non-object is an error, null the empty object), serix.DecodeHex / DecodeUint256 / DecodeUint64 called directly on arbitrary strings",
        "serix binary Decode over registered types: model Hive/Model/Serix.lean, theorems Props/C02b.lean, tie = second part (harness/c02/serix over harness/serixgen, driver drv_c02b; no allocation / time oracle there); "
        "in the first part serix.Decode runs under the RESOURCE oracle only: four catalogue types of its own (X1..X4) and every catalogue type + 30 generated universes of harness/serixgen, each with every offset of a valid encoding overwritten by a huge value of every prefix width; the same universes on the JSON side (jx: JSONDecode of kind-mutated JSONEncode texts into the universe's top type, oracle only)",
        "alloc = bytes requested with an input-dependent size (make/append/string conversion); fixed-size allocations per loop round are accounted by iters",
    ],
    "manifest": {
        "text": "For every byte string and every chain of serializer.Deserializer primitives (incl. the callback-driven sequence/object/payload readers), every reader chunking and every stream Read* helper with every prefix width, and every JSON document against every target shape of MapDecode/JSONDecode: the call returns a value or an error and never panics (C02_deser_no_panic, C02_stream_no_panic, C02_json_no_panic; serix binary Decode over every schema: C02_no_panic), reports at most the bytes supplied (C02_deser_offset_le - the offset Done() reports, also next to an error -, C02_stream_consumed_le, C02_stream_bytesRead_le, C02_consumed_le), allocates at most K*len resp. 5*len + 16 KiB bytes with explicit K = 1 + nesting depth (C02_alloc_linear, C02_stream_alloc_linear; a length field above the remaining input allocates nothing: C02_oversized_length_allocates_nothing) and iterates at most K*(len+1) times when sequence elements have positive size (C02_iters_linear, C02_stream_iters_linear). KNOWN DEFECT of the tree (not repaired, reported as KNOWN-FINDING on every run): a sequence whose elements are ZERO bytes wide iterates, appends and allocates as often as its length prefix says (2^20 element decodes for 4 input bytes) - the iteration theorems carry the hypothesis `pos` precisely because of it (witness C02_zero_size_items_witness); zero-width MAP entries are bounded by the duplicate-key rejection and stay under the oracle. Shared state of a serix.API: regenerated synchronisation skeletons pin the lock kind of every accessor of the struct-field cache and the registries (C02_skeleton_*), and 300 fresh APIs per run are used for the first time by 8 goroutines at once in a child process (a runtime abort is the oracle failure `fatal`). JSONDecode of ANY text (not JSON, top-level null / array / scalar, nesting beyond the limit of encoding/json) returns a value or an error (C02_json_text_no_panic); the string decoders of numbers.go produce at most half as many bytes as the string has characters (C02_numbers_output_le); the rounds of SerializableOrderedMap.Decode are bounded by the input for every key width, zero-width keys included, because the second empty key is a duplicate (C02_omap_rounds_unconditional). Constants and the normalised bodies of 54 decoder functions are re-extracted from the working tree on every run and tied to the models (C02_facts_*), together with the table of every type assertion of map_decode.go: no assertion on decoded JSON is of the single-value form that panics (C02_facts_json_no_unchecked_assertion - the way the file panicked before 63f234d). Models re-validated against the working tree on every run: ~43 000 mutated/hostile inputs, kind-mutated JSON documents of 11 target types, raw JSON texts and strings, every catalogue type and 30 random registered universes of the serix generator (binary under the resource oracle with every offset made hostile once, JSON under the no-panic oracle), outcome class / consumed bytes / iteration counts / values compared line by line with the Lean driver, plus an independent Go oracle measuring panics, consumed bytes and TotalAlloc per call in an address-space-limited child process.",
        "note": "Trusted: Lean kernel; the three hand-written models (tie = differential execution); Go library string syntaxes as modelled. static/pos hypotheses are about the calling program (unsupported prefix type, zero-size sequence elements), witnessed by C02_unsupported_prefix_witness and C02_zero_size_items_witness.",
        "technique": "Lean 4 proofs by mutual structural induction over read programs / target types with explicit cost invariants + differential correspondence + Go resource oracle",
    },
    "assumptions": [
        "static: the chain names no length-prefix type (uint64) / type denotation (none in CheckTypePrefix) that the Deserializer rejects by panicking independently of the input",
        "pos (iteration bounds only): every sequence / collection element has a positive minimum size - needed precisely because of the known defect that a sequence of ZERO-WIDTH elements ([]struct{}, [][0]byte, empty item callbacks) iterates and appends as often as its count field says (known_findings/C02.json, trigger zero-width-sequence-elements; Lean witness C02_zero_size_items_witness)",
    ],
}
