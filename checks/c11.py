SPEC = {
    "lean_props": "Hive.Props.C11",
    "lean_namespace": "Hive.OMap",
    "driver": "drv_c11",
    "harness": "c11",
    "race": True,
    "theorems": [],
    "trusted_base": [],
    "modelled": [],
    "manifest": {"text": "", "note": "", "technique": ""},
    "assumptions": [],
}
