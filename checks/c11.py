import os, sys
sys.path.insert(0, os.path.dirname(os.path.dirname(os.path.abspath(__file__))))
import checklib

SET = "ds/set_impl.go:set."
OM = "ds/orderedmap/orderedmap.go:OrderedMap."
SM = "ds/shrinkingmap/shrinkingmap.go:"


SOM = "ds/serializableorderedmap/serializable_orderedmap.go:SerializableOrderedMap."


def regen_stmts(ctx):
    """Regenerates lean/Hive/Gen/C11_Stmts.lean: the normalised statements of SerializableOrderedMap.Encode / Decode
    (the width of the entry-count field, the order of key and value, the duplicate-key refusal), pinned by C11_stmts_*."""
    out = os.path.join(checklib.LEAN, "Hive", "Gen", "C11_Stmts.lean")
    tmp = os.path.join(ctx.scratch, "C11_Stmts.lean")
    args = ["go", "run", "./tools/stmts", tmp, "Hive.Gen.C11Stmts"] + [os.path.join(ctx.repo, SOM + m) for m in ("Encode", "Decode")]
    rc, log = checklib.sh(args, cwd=checklib.HARNESS, timeout=600)
    if rc != 0 or not os.path.exists(tmp):
        return [{"kind": "skeleton-extractor", "detail": checklib.tail(log, 20)}]
    checklib.write_gen(ctx, out, open(tmp).read())
    return []


def regen_methods(ctx):
    """Regenerates lean/Hive/Gen/C11_Methods.lean (harness/c11/methodset, go/ast over the embedding chain set -> *readableSet ->
    *SerializableOrderedMap -> *OrderedMap): the method set of each type with the DECLARING type and depth of every method, the
    receiver names and the use each declaring body makes of applyMutex; pinned by C11_methodset_* / C11_applymutex_table."""
    out = os.path.join(checklib.LEAN, "Hive", "Gen", "C11_Methods.lean")
    tmp = os.path.join(ctx.scratch, "C11_Methods.lean")
    args = ["go", "run", "./c11/methodset", tmp, "Hive.Gen.C11Methods", ctx.repo, "ds:set", "ds:readableSet",
            "ds/serializableorderedmap:SerializableOrderedMap", "ds/orderedmap:OrderedMap"]
    rc, log = checklib.sh(args, cwd=checklib.HARNESS, timeout=600)
    if rc != 0 or not os.path.exists(tmp):
        return [{"kind": "skeleton-extractor", "detail": checklib.tail(log, 20)}]
    checklib.write_gen(ctx, out, open(tmp).read())
    return []


def regen(ctx):
    return (regen_skel(ctx) or []) + regen_stmts(ctx) + regen_methods(ctx)


def regen_skel(ctx):
    # lock skeletons of the anchored methods, regenerated from the working tree (Hive/Gen/C11_Skel.lean)
    return checklib.regen_skeletons(
        ctx,
        [SET + m for m in ("Add", "AddAll", "Delete", "DeleteAll", "Apply", "Compute", "Replace", "apply", "ReadOnly")] +
        # the read side of ds.Set (declared on readableSet) and the codec: every method of the regenerated method set has a skeleton
        ["ds/set_impl.go:readableSet." + m for m in ("HasAll", "ForEach", "Range", "Intersect", "Filter", "Equals", "Any", "Is", "Iterator",
                                                      "Clone", "ToSlice", "String")] +
        [SOM + m for m in ("Encode", "Decode")] +
        [OM + m for m in ("Set", "Delete", "Get", "Has", "Clear", "ForEach", "ForEachReverse", "Head", "Tail", "Size", "IsEmpty", "Clone")] +
        # the dictionary layer (ShrinkingMap as the ordered map and SetArithmetic use it) and the shapes of all anchored types
        [SM + "ShrinkingMap." + m for m in ("Set", "Get", "Has", "Compute", "Delete", "Clear", "delete", "shouldShrink", "shrink")] +
        [SM + "type=ShrinkingMap", SM + "type=Options", "ds/orderedmap/orderedmap.go:type=OrderedMap", "ds/orderedmap/element.go:type=Element",
         "ds/serializableorderedmap/serializable_orderedmap.go:type=SerializableOrderedMap", "ds/set_impl.go:type=set",
         "ds/set_impl.go:type=readableSet", "ds/set_impl.go:type=setMutations", "ds/set_impl.go:type=setArithmetic", "ds/set_impl.go:setArithmetic.elementsCollector"],
        extra_methods=["Set", "Delete", "Get", "Has", "Clear", "ToSlice", "ForEach", "ForEachReverse", "Range", "apply", "Size", "Clone",
                       "delete", "shouldShrink", "shrink", "Compute", "HasAll", "Filter", "AddAll", "PushAll"])


SPEC = {
    "lean_props": "Hive.Props.C11",
    "lean_namespace": "Hive.OMap",
    "regen": regen,
    "driver": "drv_c11",
    "harness": "c11",
    "race": True,
    "theorems": [
        "C11_omap_order", "C11_omap_order_step", "C11_omap_refines", "C11_prior_presence",
        "C11_diffs_exact", "C11_diffs_exact_apply", "C11_diffs_exact_compute", "C11_diffs_nodup", "C11_old_replace_witness",
        "C11_algebra", "C11_arith_threshold", "C11_arith_threshold_add_sub", "C11_codec_roundtrip", "C11_codec_concrete",
        "C11_codec_canonical", "C11_codec_concrete_canonical", "C11_codec_rejects_duplicate_witness",
        "C11_weak_iteration", "C11_weak_iteration_forward",
        "C11_deadlock_free", "C11_deadlock_free_methods", "C11_old_deleteall_deadlock_witness",
        "C11_apply_atomic", "C11_single_linearizable", "C11_lincheck_sound",
        "C11_stmts_SerializableOrderedMap_Encode", "C11_stmts_SerializableOrderedMap_Decode",
        "C11_count_prefix_is_four_bytes", "C11_count_prefix_roundtrip", "C11_count_prefix_wraps",
        "C11_skeleton_set_Add", "C11_skeleton_set_AddAll", "C11_skeleton_set_Delete", "C11_skeleton_set_DeleteAll",
        "C11_skeleton_set_Apply", "C11_skeleton_set_Compute", "C11_skeleton_set_Replace", "C11_skeleton_set_apply",
        "C11_skeleton_OrderedMap_Set", "C11_skeleton_OrderedMap_Delete", "C11_skeleton_OrderedMap_Get",
        "C11_skeleton_OrderedMap_Has", "C11_skeleton_OrderedMap_Clear", "C11_skeleton_OrderedMap_ForEach",
        "C11_skeleton_OrderedMap_ForEachReverse", "C11_skeleton_OrderedMap_Head", "C11_skeleton_OrderedMap_Tail",
        "C11_skeleton_OrderedMap_Size", "C11_skeleton_OrderedMap_IsEmpty", "C11_skeleton_OrderedMap_Clone",
        "C11_clone_reentrant_deadlock_witness", "C11_source_applymutex_deadlock_witness",
        "C11_dict_shrink_transparent", "C11_codec_widths", "C11_iteration_step", "C11_alias_deleteall",
        "C11_skeleton_ShrinkingMap_delete", "C11_skeleton_ShrinkingMap_shouldShrink", "C11_skeleton_ShrinkingMap_shrink",
        "C11_skeleton_ShrinkingMap_Delete", "C11_skeleton_ShrinkingMap_Set", "C11_skeleton_ShrinkingMap_Get",
        "C11_skeleton_ShrinkingMap_Has", "C11_skeleton_ShrinkingMap_Compute", "C11_skeleton_ShrinkingMap_Clear",
        "C11_skeleton_setArithmetic_elementsCollector",
        "C11_skeleton_type_OrderedMap", "C11_skeleton_type_Element", "C11_skeleton_type_SerializableOrderedMap",
        "C11_skeleton_type_set", "C11_skeleton_type_readableSet", "C11_skeleton_type_setMutations",
        "C11_skeleton_type_setArithmetic", "C11_skeleton_type_ShrinkingMap", "C11_skeleton_type_Options",
        "C11_skeleton_set_ReadOnly", "C11_skeleton_readableSet_HasAll", "C11_skeleton_readableSet_ForEach",
        "C11_skeleton_readableSet_Range", "C11_skeleton_readableSet_Intersect", "C11_skeleton_readableSet_Filter",
        "C11_skeleton_readableSet_Equals", "C11_skeleton_readableSet_Any", "C11_skeleton_readableSet_Is",
        "C11_skeleton_readableSet_Iterator", "C11_skeleton_readableSet_Clone", "C11_skeleton_readableSet_ToSlice",
        "C11_skeleton_readableSet_String", "C11_skeleton_SerializableOrderedMap_Encode", "C11_skeleton_SerializableOrderedMap_Decode",
        "C11_methodset_set", "C11_methodset_readableSet", "C11_methodset_SerializableOrderedMap", "C11_methodset_OrderedMap",
        "C11_codec_decode_into_receiver", "C11_alias_addall", "C11_methodset_applymutex_confined", "C11_applymutex_table", "C11_no_reentrant_applymutex", "C11_no_nested_leaf_mutex", "C11_methodset_modelled",
    ],
    "trusted_base": [
        "hand-written models Hive/Model/OMap.lean (abstract ordered map, ds.Set, SetMutations, SetArithmetic, byte format), "
        "Hive/Model/OMapPtr.lean (hash index + doubly linked chain), Hive/Model/OMapDict.lean (the dictionary's ShrinkingMap "
        "bookkeeping: deletedKeys, shouldShrink with the default options, rebuild) and Hive/Model/OMapConc.lean (lock scripts, "
        "method-level protocol, RWMutex semantics), tied to the working tree by line-by-line differential execution (harness/c11), by the "
        "regenerated lock skeletons (Hive/Gen/C11_Skel.lean + the harness's own go/ast extraction), the regenerated method sets "
        "(Hive/Gen/C11_Methods.lean, harness/c11/methodset: go/ast, no type checker - embedded types resolved by name through the import "
        "table) and by recorded concurrent histories decided by the Lean linearizability checker",
        "sync.RWMutex semantics as written in lockStep (permissive for reachability, writer-preference for blocking)",
        "Go toolchain, compiled Lean driver, serix encoding of fixed-width numbers/bool/struct{}",
        "reflection reads of the unexported fields dictionary.deletedKeys / dictionary.opts (names pinned by C11_skeleton_type_*); "
        "float32 ratio comparison of shouldShrink modelled exactly for sizes below 2^20",
    ],
    "modelled": [
        "orderedmap.OrderedMap Set/Get/Has/Delete/Clear/Head/Tail/Size/IsEmpty/ForEach/ForEachReverse/Clone at pointer level (elements, prev/next, head/tail, dictionary, size)",
        "ds.Set Add/Delete/Has/AddAll/DeleteAll/Apply/Compute/Replace/HasAll/Equals/Intersect/Filter/Clone/Is/Any/ToSlice/Iterator/Size/IsEmpty/Clear/Encode/Decode; SetMutations; SetArithmetic Add/Subtract/collectors",
        "SerializableOrderedMap.Encode/Decode byte format with abstract element codecs (concrete: little-endian numbers of every width "
        "1..8 bytes, struct{} values, table codecs for pointer/slice/map values); bytes read of a failed Decode",
        "the dictionary layer: ShrinkingMap Get/Has/Set/Delete/Clear as OrderedMap uses it, deletedKeys, shouldShrink (default options "
        "ratio 10 / count 100), shrink as a real copy; nil receivers of ForEach/ForEachReverse/Clear/Size/IsEmpty/Clone; String(); "
        "ReadOnly() views held across mutations; NewReadableSet; omitted / zero / negative / repeated SetArithmetic thresholds; "
        "s.DeleteAll(s) and s.AddAll(s) / s.Apply(+s) at pointer level (C11_alias_deleteall, C11_alias_addall), all self-aliased calls by differential execution",
        "the method sets of set / readableSet / SerializableOrderedMap / OrderedMap (regenerated, with declaring type and depth) and what each declaring body does with applyMutex; "
        "Decode into a non-empty receiver and the state a failed Decode leaves (C11_codec_decode_into_receiver)",
        "NOT modelled: nil *readableSet receivers (not constructible through the API); non-default ShrinkingMap options (OrderedMap never "
        "passes any); uint32 truncation of Size() beyond 2^32 entries is modelled but not exercised; the unlocked read of currentEntry.value in ForEach "
        "(a data race with a concurrent Set of the same key on maps with non-empty values) is outside the property",
    ],
    "manifest": {
        "text": "Round 6 (owner): regenerated METHOD SETS of set / readableSet / SerializableOrderedMap / OrderedMap through the embedding chain (harness/c11/methodset: name, declaring type, depth; C11_methodset_*: a set.Delete that silently becomes the promoted OrderedMap.Delete is a broken obligation naming the method), the per-method table 'takes applyMutex R / W / not at all' computed in Lean from the regenerated skeleton of each declaring method (C11_applymutex_table), no re-entry and the unlocked helper only under the exclusive lock derived from the same facts (C11_no_reentrant_applymutex), every selectable method mapped to the lock scripts the deadlock-freedom and atomicity theorems quantify over (C11_methodset_modelled), skeletons of the whole read side and of Encode/Decode; Decode of any bytes into any receiver, success or failure (C11_codec_decode_into_receiver: fold of Set over the decoded entries, old keys stay a prefix); every unordered pair of the 26 ds.Set interface methods run concurrently under pending-writer pressure ('pairs', 351 pairs, every call returns), directed schedules 'inside' (two single-element calls inside an Apply halfway through / inside Compute's factory / between Replace's reads and its Clear; the factory's own observation is part of the recorded history: SOp.computeSaw) and 'race' (bulk call + three single calls on one element, exactly one reporter), oracle compute-atomic (a Compute reports what its factory saw), aliasing probes for returned diffs, a watchdog that turns a sequential call that never returns into a replayable deadlock finding; s.AddAll(s) / s.Apply(+s) at pointer level (C11_alias_addall), the map and dictionary mutexes are leaves, derived from the regenerated skeletons (C11_no_nested_leaf_mutex). " \
                "Round 6: the entry-count field of the codec as a field of w bytes (C11_count_prefix_roundtrip for every w, C11_count_prefix_wraps: sharp at 256^w entries, C11_count_prefix_is_four_bytes + regenerated statements of SerializableOrderedMap.Encode/Decode), sets of 65535..65543 elements through the real codec (wbig), directed single-element-call-inside-Replace scenario (overlap). " \
                "Lean 4 theorems over every operation history: the ordered map's iteration order is the first-insertion order of the live keys "
                "(C11_omap_order, by refinement from a pointer-level model of the hash index + doubly linked chain, C11_omap_refines), "
                "Set/Add/Delete report prior presence (C11_prior_presence), AddAll/DeleteAll/Replace/Apply/Compute return exactly the membership "
                "changes incl. the fold law for overlapping mutations (C11_diffs_exact, C11_diffs_exact_apply), the set algebra matches its "
                "mathematical definition (C11_algebra), SetArithmetic emits exactly the changes of the threshold set for any collector sequence "
                "(C11_arith_threshold), Encode/Decode round-trips contents and order for any prefix-free element codec (C11_codec_roundtrip) and "
                "Decode accepts only canonical bytes (C11_codec_canonical), a ForEach / ForEachReverse interleaved with arbitrary writers visits "
                "every key live throughout exactly once in (reverse) insertion order (C11_weak_iteration) and advances from a still-live entry "
                "to its neighbour in insertion order as of that moment (C11_iteration_step); s.DeleteAll(s) visits and removes everything "
                "(C11_alias_deleteall); rebuilding the hash index (ShrinkingMap.shrink under the ordered map) is invisible "
                "(C11_dict_shrink_transparent); the round trip holds for every element width down to one byte per entry (C11_codec_widths). "
                "Protocol level, for any number of goroutines and any schedule: no deadlock for well-formed lock scripts and all Set methods are "
                "well-formed (C11_deadlock_free, C11_deadlock_free_methods; the pre-fix DeleteAll deadlock is C11_old_deleteall_deadlock_witness), "
                "Apply/Compute/Replace exclude all other mutators (C11_apply_atomic), Add/Delete/Has/Clear are linearizable "
                "(C11_single_linearizable), the history checker is sound (C11_lincheck_sound). Tie on every run: differential execution of "
                "~5000 random 40-op histories on the real OrderedMap/Set/SetArithmetic incl. serix Encode/Decode (1..8-byte elements, uint8, "
                "struct{}, *struct, []uint16 and map values, value-exact and pointer-distinct), 40 delete-heavy histories of 300-700 operations "
                "that rebuild the hash index (deletedKeys read from the real object after every operation), consumers that delete the "
                "next/previous/current entry or append during the last visit (oracle iteration-step), Clone/ForEach on 1000+-entry maps against a pending writer, forced "
                "'argument ForEach parked while a writer is pending' schedules, multi-goroutine stress histories decided by the Lean "
                "linearizability checker and an independent Go oracle, regenerated lock skeletons of every Set/OrderedMap/ShrinkingMap method "
                "used and regenerated struct shapes of all anchored types (C11_skeleton_*).",
        "note": "Trusted: Lean kernel; the three hand-written models (tie = differential execution + lock skeletons + recorded histories); "
                "RWMutex semantics as modelled; the self-aliased calls that write while they iterate (DeleteAll, AddAll, Apply) are proved at pointer level (C11_alias_deleteall, C11_alias_addall), Replace(s) by its skeleton (argument read completely before the first write). Four defects of the unchanged tree were fixed "
                "(DeleteAll re-entrant RLock deadlock, Replace returning all previous elements, Decode merging duplicate keys, Replace(s) emptying s).",
        "technique": "Lean 4 refinement + invariant proofs over all histories / all schedules, differential correspondence, "
                     "linearizability checking of recorded histories",
    },
    "assumptions": [
        "arguments of type ReadableSet/SetMutations behave as sets (their ForEach yields each element once); when the argument is the receiver "
        "itself the model takes its contents at the time of the call (proved equal to the pointer-level behaviour for DeleteAll and AddAll / Apply, tested for all)",
        "callbacks passed to Compute/ForEach/Filter do not call methods of the same set that take applyMutex",
        "element codecs are total on their domain and prefix-free (hypothesis of C11_codec_roundtrip; proved for the concrete codecs in C11_codec_concrete)",
    ],
}
