// Package deps pins every hive.go module (and the offline test/verification libraries) the harnesses
// may use, so that go.mod / go.sum stay stable under `go mod tidy` and concurrent builds.
package deps

import (
	_ "github.com/iotaledger/hive.go/ads"
	_ "github.com/iotaledger/hive.go/app/daemon"
	_ "github.com/iotaledger/hive.go/constraints"
	_ "github.com/iotaledger/hive.go/core/memstorage"
	_ "github.com/iotaledger/hive.go/core/safemath"
	_ "github.com/iotaledger/hive.go/ds"
	_ "github.com/iotaledger/hive.go/ds/reactive"
	_ "github.com/iotaledger/hive.go/ierrors"
	_ "github.com/iotaledger/hive.go/kvstore"
	_ "github.com/iotaledger/hive.go/lo"
	_ "github.com/iotaledger/hive.go/runtime/event"
	_ "github.com/iotaledger/hive.go/runtime/workerpool"
	_ "github.com/iotaledger/hive.go/serializer/v2/serix"
	_ "github.com/iotaledger/hive.go/web/subscriptionmanager"
)
