// C01 (stream part) correspondence harness: every stream Write*/Read* helper pair round-trips through
// any io.Reader, however that reader splits its reads.
//
//	rt CHUNKS TAILHEX wprog...   write with the real writers into a stream.ByteBuffer, read back what was
//	                             written (followed by TAIL) through a chunking reader with the reader calls
//	                             that mirror the writer calls
//	sr CHUNKS DATAHEX rprog...   a reader program over given bytes (truncated / foreign data)
//
//	rw INIT CHUNKS p1.. | OFF | p2..   a ByteBuffer created with INIT bytes of storage, p1 written from 0, Seek
//	                             to OFF, p2 written in place (collections/values rewritten in front of or over
//	                             existing data, then more writes), p2 read back from OFF of the final storage;
//	                             the answer carries the whole storage and the final write position
//
// Answers are compared line by line with the Lean model (drv_c01c, Hive/Model/Stream.lean).  The
// round-trip oracle is evaluated here on the implementation, independently of Lean: the values read
// equal the values written and exactly the written bytes are consumed.
package main

import (
	"crypto/sha256"
	"fmt"
	"strconv"
	"strings"

	"verifharness/c02/sx"
	"verifharness/hx"
)

var lps = []string{"u8", "u16", "u32", "u64"}

func rbytes(rng *hx.Rng, lo, hi int) []byte {
	b := make([]byte, rng.Range(lo, hi))
	for i := range b {
		b[i] = byte(rng.U64())
	}

	return b
}

func sizeFor(rng *hx.Rng) int {
	switch rng.Intn(20) {
	case 0:
		return hx.Pick(rng, []int{255, 256, 257})
	case 1:
		return hx.Pick(rng, []int{16383, 16384, 16385, 40000, 65535, 65536})
	case 2:
		return 0
	default:
		return rng.Intn(24)
	}
}

func randWProg(rng *hx.Rng, big bool) string {
	var s []string
	size := func() int {
		if big {
			return sizeFor(rng)
		}

		return rng.Intn(16)
	}
	for i := rng.Range(1, 5); i > 0; i-- {
		switch rng.Intn(10) {
		case 0:
			w := hx.Pick(rng, []int{1, 2, 4, 8})
			s = append(s, "num", strconv.Itoa(w), hx.Hex(rbytes(rng, w, w)))
		case 1:
			s = append(s, "bool", hx.Hex([]byte{byte(rng.Intn(3))}))
		case 2:
			w := hx.Pick(rng, []int{32, 36, 38})
			s = append(s, "arr", strconv.Itoa(w), hx.Hex(rbytes(rng, w, w)))
		case 3:
			n := size()
			s = append(s, "bytes", hx.Hex(rbytes(rng, n, n)))
		case 4, 5:
			n := size()
			s = append(s, "bws", hx.Pick(rng, lps), hx.Hex(rbytes(rng, n, n)))
		case 6:
			n := size()
			s = append(s, "ows", hx.Pick(rng, lps), hx.Hex(rbytes(rng, n, n)))
		case 7:
			n := size()
			s = append(s, "obj", hx.Hex(rbytes(rng, n, n)))
		default:
			n := rng.Range(0, 5)
			if rng.Chance(1, 25) {
				n = hx.Pick(rng, []int{255, 256, 300})
			}
			switch rng.Intn(4) {
			case 0:
				s = append(s, "coll", hx.Pick(rng, lps), "bws", hx.Pick(rng, lps), "(")
				for j := 0; j < n; j++ {
					s = append(s, hx.Hex(rbytes(rng, 0, 6)))
				}
			case 1:
				s = append(s, "coll", hx.Pick(rng, lps), "ows", hx.Pick(rng, lps), "(")
				for j := 0; j < n; j++ {
					s = append(s, hx.Hex(rbytes(rng, 0, 6)))
				}
			case 2:
				w := hx.Pick(rng, []int{1, 2, 4, 8})
				s = append(s, "coll", hx.Pick(rng, lps), "num", strconv.Itoa(w), "(")
				for j := 0; j < n; j++ {
					s = append(s, hx.Hex(rbytes(rng, w, w)))
				}
			default:
				w := rng.Range(1, 6)
				s = append(s, "coll", hx.Pick(rng, lps), "obj", strconv.Itoa(w), "(")
				for j := 0; j < n; j++ {
					s = append(s, hx.Hex(rbytes(rng, w, w)))
				}
			}
			s = append(s, ")")
		}
	}

	return strings.Join(s, " ")
}

func constChunks(c, n int) string {
	if c <= 0 {
		c = 1
	}
	k := n/c + 2
	s := make([]string, k)
	for i := range s {
		s[i] = strconv.Itoa(c)
	}

	return strings.Join(s, ",")
}

func randomChunks(rng *hx.Rng) string {
	c := make([]int, rng.Range(1, 30))
	for i := range c {
		switch rng.Intn(10) {
		case 0:
			c[i] = 0
		case 1:
			c[i] = rng.Intn(5000)
		default:
			c[i] = 1 + rng.Intn(12)
		}
	}

	return sx.ShowChunks(c)
}

func exec(r *hx.Run, op string) string {
	ans := exec1(r, op)
	if c := sx.TakeChanged(); c != "" {
		short := op
		if len(short) > 500 {
			short = short[:500] + "..."
		}
		// a result handed out earlier (a slice returned by ReadBytes* or kept by an object parser) changed under a later read
		r.Fail("retained-result-changed", c+"; op: "+short, map[string]string{"oracle": "retained-result-changed", "op": strings.Fields(op)[0]})
	}

	return ans
}

func exec1(r *hx.Run, op string) string {
	f := strings.Fields(op)
	switch f[0] {
	case "rt":
		ans, written, want, got, consumed := sx.ExecRT(f)
		if ans == "werr" {
			return ans
		}
		short := op
		if len(short) > 500 {
			short = short[:500] + "..."
		}
		chunkKind := "chunks:list"
		if f[1] == "-" {
			chunkKind = "chunks:whole"
		}
		switch {
		case ans == "panic":
			r.Fail("round-trip", "panic while writing/reading back; op: "+short, map[string]string{"oracle": "panic", "op": "rt"})
		case strings.HasPrefix(ans, "rerr"):
			r.Fail("round-trip", fmt.Sprintf("reading back %d written bytes failed after %d bytes (values read so far %d of %d); op: %s", len(written), consumed, len(got), len(want), short),
				map[string]string{"oracle": "read-back-error", "op": "rt", "reader": chunkKind})
		default:
			if strings.Join(got, ",") != strings.Join(want, ",") {
				r.Fail("round-trip", fmt.Sprintf("values read back differ from the values written: got %v want %v; op: %s", got, want, short),
					map[string]string{"oracle": "values-differ", "op": "rt", "reader": chunkKind})
			}
			if consumed != len(written) {
				r.Fail("round-trip", fmt.Sprintf("consumed %d bytes, written %d; op: %s", consumed, len(written), short),
					map[string]string{"oracle": "consumed-differs", "op": "rt", "reader": chunkKind})
			}
		}

		return ans
	case "sr":
		ans := sx.ExecSR(f)
		checkPeek(r, op, f, ans)

		return ans
	case "sk":
		return sx.ExecSK(f)
	case "rw":
		ans, in := sx.ExecRW(f)
		if ans == "werr" {
			return ans
		}
		short := op
		if len(short) > 500 {
			short = short[:500] + "..."
		}
		if ans == "serr" {
			// a seek is refused exactly when it would land in front of the buffer, and then it changes nothing
			if in.OffWant >= 0 {
				r.Fail("in-place", fmt.Sprintf("a seek to offset %d was refused; op: %s", in.OffWant, short), map[string]string{"oracle": "seek-refused", "op": "rw"})
			}
			if in.SeekMoved {
				r.Fail("in-place", "a refused seek moved the write position; op: "+short, map[string]string{"oracle": "seek-refused-moved", "op": "rw"})
			}

			return ans
		}
		if ans != "panic" && in.Off != in.OffWant {
			r.Fail("in-place", fmt.Sprintf("the seek landed at offset %d instead of %d; op: %s", in.Off, in.OffWant, short), map[string]string{"oracle": "seek-position", "op": "rw"})
		}
		if ans == "panic" {
			r.Fail("in-place", "panic while writing in place / reading back; op: "+short, map[string]string{"oracle": "panic", "op": "rw"})

			return ans
		}
		// layout: writing in place = overlaying what the same calls append to a fresh buffer
		want := sx.Overlay(sx.Overlay(make([]byte, in.Init), 0, in.Enc1, true), in.Off, in.Enc2, in.Ops2 > 0)
		if string(want) != string(in.Storage) {
			r.Fail("in-place", fmt.Sprintf("storage after writing in place is %x, the written data laid over the old storage is %x; op: %s", clip(in.Storage), clip(want), short),
				map[string]string{"oracle": "layout", "op": "rw"})
		}
		if in.Pos != in.Off+len(in.Enc2) {
			r.Fail("in-place", fmt.Sprintf("write position after phase 2 is %d, it started at %d and wrote %d bytes; op: %s", in.Pos, in.Off, len(in.Enc2), short),
				map[string]string{"oracle": "position", "op": "rw"})
		}
		if strings.HasPrefix(ans, "rerr") {
			r.Fail("in-place", fmt.Sprintf("reading back what was written in place failed after %d bytes (%d of %d values); op: %s", in.Consumed, len(in.Got), len(in.Want), short),
				map[string]string{"oracle": "read-back-error", "op": "rw"})
		} else {
			if strings.Join(in.Got, ",") != strings.Join(in.Want, ",") {
				r.Fail("in-place", fmt.Sprintf("values read back differ from the values written in place: got %v want %v; op: %s", in.Got, in.Want, short),
					map[string]string{"oracle": "values-differ", "op": "rw"})
			}
			if in.Consumed != len(in.Enc2) {
				r.Fail("in-place", fmt.Sprintf("consumed %d bytes, written %d; op: %s", in.Consumed, len(in.Enc2), short),
					map[string]string{"oracle": "consumed-differs", "op": "rw"})
			}
		}

		return ans
	}

	return "bad-op"
}

func clip(b []byte) []byte {
	if len(b) > 120 {
		return b[:120]
	}

	return b
}

// encLens returns the offsets behind each call of a writer program written into a fresh buffer.
func encLens(ws string) []int {
	wp := sx.ParseW(strings.Fields(ws))
	var out []int
	for i := range wp {
		buf := newBuf()
		if err := sx.RunW(wp[:i+1], buf); err != nil {
			break
		}
		b, _ := buf.Bytes()
		out = append(out, len(b))
	}

	return out
}

// collFirst is a writer program that starts with a collection (what gets rewritten in place).
func collFirst(rng *hx.Rng) string {
	n := rng.Range(0, 4)
	var s []string
	switch rng.Intn(3) {
	case 0:
		s = append(s, "coll", hx.Pick(rng, lps), "bws", hx.Pick(rng, lps), "(")
		for j := 0; j < n; j++ {
			s = append(s, hx.Hex(rbytes(rng, 0, 5)))
		}
	case 1:
		w := hx.Pick(rng, []int{1, 2, 4, 8})
		s = append(s, "coll", hx.Pick(rng, lps), "num", strconv.Itoa(w), "(")
		for j := 0; j < n; j++ {
			s = append(s, hx.Hex(rbytes(rng, w, w)))
		}
	default:
		w := rng.Range(1, 4)
		s = append(s, "coll", hx.Pick(rng, lps), "obj", strconv.Itoa(w), "(")
		for j := 0; j < n; j++ {
			s = append(s, hx.Hex(rbytes(rng, w, w)))
		}
	}
	s = append(s, ")")
	if rng.Chance(4, 5) {
		s = append(s, randWProg(rng, false))
	}

	return strings.Join(s, " ")
}

type batch struct {
	r     *hx.Run
	n     int
	total int
	open  bool
}

func (b *batch) emit(op, kind string) {
	if !b.open || b.n >= 20 {
		_, sub := b.r.Rng.Fork()
		b.r.Case(sub)
		b.open, b.n = true, 0
	}
	b.n++
	b.total++
	ans := exec(b.r, op)
	b.r.Line(op, ans)
	f := strings.Fields(op)
	b.r.Count("op:" + f[0])
	b.r.Count("chunks:" + kind)
	b.r.Count("ans:" + f[0] + ":" + strings.Fields(ans)[0])
	toks := f[2:]
	if f[0] == "rw" {
		if i := strings.LastIndex(op, "| "); i > 0 {
			toks = strings.Fields(op[i+2:]) // the calls of phase 2
		}
	}
	for _, t := range toks {
		switch t {
		case "num", "bool", "arr", "bytes", "bws", "obj", "ows", "coll", "peek", "ofr":
			b.r.Count("call:" + t)
		case "u8", "u16", "u32", "u64":
			b.r.Count("prefix:" + t)
		}
	}
	if strings.HasPrefix(ans, "ok") && (len(f[1]) > 1 || (f[0] == "rw" && (f[1] != "0" || f[3] != "|"))) && f[0] != "sk" {
		h := sha256.Sum256([]byte(op))
		b.r.Nontrivial(string(h[:8]))
	}
	if b.n == 20 && len(op) < 300 {
		b.r.Sample(b.r.CaseLines()[:2])
	}
}

var corpus = []string{
	// stream.ReadBytes with a reader that returns one byte per Read (DESIGN.md section 7)
	"rt 1,1,1,1,1,1,1,1 - bws u8 aabbcc",
	"rt 1,1,1,1,1,1,1,1,1,1,1,1,1,1,1,1 ff ows u32 0102030405",
	"rt 2,2,2,2,2,2,2,2,2,2,2,2 - coll u16 bws u8 ( 0102 - 030405 )",
	"rt 0,3,0,1,0,2,7 0000 coll u64 num 4 ( 01000000 02000000 ) bool 02 num 8 ffffffffffffffff",
	"rt - - coll u8 obj 3 ( 010203 040506 ) arr 32 00",
	"sr 1,1,1 0300aabb bws u16",
	// a ByteBuffer with spare storage: the write behind the collection must land directly behind it
	"rw 16 - | 0 | coll u8 num 1 ( 05 06 ) num 2 0700",
	"rw 0 1,1,1,1,1,1 coll u16 bws u8 ( aabb cc ) num 4 01020304 bytes ffff | 0 | coll u16 bws u8 ( dd ) bool 01",
	"rw 8 2,2,2 num 2 1111 coll u32 obj 2 ( 0102 0304 ) | 2 | coll u32 obj 2 ( 0506 ) num 1 09 bws u8 0a0b",
}

func main() {
	r := hx.Start()
	r.Rule = "random writer programs (Write num/bool/[N]byte, WriteBytes, WriteBytesWithSize, WriteObject, WriteObjectWithSize, WriteCollection of sized/object/number items; " +
		"every prefix width incl. uint64; payload sizes 0..24 plus 255/256/257/16383/16384/16385/40000/65535/65536) read back through a chunking reader: " +
		"whole, 1-byte, prime-sized (2,3,5,7,11,13,251,4099) and random chunk lists (incl. 0-byte reads), with a random tail behind the written bytes; plus reader programs over truncated data; " +
		"in-place writes (rw): ByteBuffers created with 0..1000 bytes of storage, a first writer program, Seek to 0 / a call boundary / inside / behind the written data, " +
		"a second program (mostly a collection rewritten in place, then more calls) whose storage layout, final position and read-back are compared; " +
		"non-trivial = a round trip that succeeded through a reader that really splits (chunk list not empty), or an in-place write into spare storage / over earlier data; distinct by sha256 of the request line"
	b := &batch{r: r}
	if lines := r.ReplayLines(); lines != nil {
		for _, l := range lines {
			b.emit(l, "replay")
		}
		r.Finish()

		return
	}
	for _, c := range corpus {
		b.emit(c, "corpus")
	}
	n := 3000 * r.Scale
	for i := 0; i < n; i++ {
		rng, _ := r.Rng.Fork()
		ws := randWProg(rng, i%4 == 0)
		wp := sx.ParseW(strings.Fields(ws))
		total := 0
		for _, o := range wp {
			total += len(o.Data) + 16
			for _, it := range o.Items {
				total += len(it) + 8
			}
		}
		tail := hx.Hex(rbytes(rng, 0, 3))
		// the same written data through every kind of reader
		b.emit("rt - "+tail+" "+ws, "whole")
		b.emit("rt "+constChunks(1, total)+" "+tail+" "+ws, "one-byte")
		p := hx.Pick(rng, []int{2, 3, 5, 7, 11, 13, 251, 4099})
		b.emit("rt "+constChunks(p, total)+" "+tail+" "+ws, "prime")
		b.emit("rt "+randomChunks(rng)+" "+tail+" "+ws, "random")
		if i%4 == 1 {
			// a reader that returns io.EOF together with its last bytes (no tail, so that the last read is the last call's)
			b.emit("rt "+hx.Pick(rng, []string{"-", constChunks(1, total), randomChunks(rng)})+"! - "+ws, "eof-with-data")
		}
		if i%3 == 1 {
			// the written stream read twice through a stream.ByteReader: Offset / BytesRead behind the calls, GoTo(0), the same calls again
			buf := newBuf()
			if err := sx.RunW(wp, buf); err == nil {
				data, _ := buf.Bytes()
				rp, _ := sx.ReadOf(wp)
				prog := sx.ShowR(rp)
				k := rng.Intn(len(rp) + 1)
				b.emit(strings.Join(strings.Fields("sk "+hx.Hex(append(append([]byte(nil), data...), rbytes(rng, 0, 3)...))+" run ( "+sx.ShowR(rp[:k])+" ) off br run ( "+sx.ShowR(rp[k:])+" ) off br goto 0 br run ( "+prog+" ) off skip -"+strconv.Itoa(rng.Intn(3))+" off br"), " "), "seek")
			}
		}
		if i%3 == 2 {
			// PeekSize in front of every sized call, ReadObjectFromReader around (parts of) the program: the written data
			// (+ tail) through a chunking reader
			buf := newBuf()
			if err := sx.RunW(wp, buf); err == nil {
				data, _ := buf.Bytes()
				rp, _ := sx.ReadOf(wp)
				pp := withPeeks(rng, rp, true)
				full := hx.Hex(append(append([]byte(nil), data...), hx.UnHex(tail)...))
				b.emit("sr "+hx.Pick(rng, []string{"-", constChunks(1, total), randomChunks(rng), randomChunks(rng) + "!"})+" "+full+" "+sx.ShowR(pp), "peek")
			}
		}
		if i%3 == 0 {
			// truncated stream: the reader program of the writer program over a prefix of the written bytes
			buf := newBuf()
			if err := sx.RunW(wp, buf); err == nil {
				data, _ := buf.Bytes()
				rp, _ := sx.ReadOf(wp)
				cut := 0
				if len(data) > 0 {
					cut = rng.Intn(len(data))
				}
				b.emit("sr "+randomChunks(rng)+" "+hx.Hex(data[:cut])+" "+sx.ShowR(rp), "truncated")
				// the whole data, but the reader breaks (an error that is not io.EOF) after `cut` bytes
				b.emit("sr "+randomChunks(rng)+hx.Pick(rng, []string{"", "!"})+"@"+strconv.Itoa(cut)+" "+hx.Hex(data)+" "+sx.ShowR(rp), "broken-reader")
			}
		}
	}
	// writing in place: buffers with spare storage (NewByteBuffer(initialLength)), collections and values
	// rewritten in front of / over existing data after a Seek, then more writes directly behind them
	nRW := 1500 * r.Scale
	for i := 0; i < nRW; i++ {
		rng, _ := r.Rng.Fork()
		init := hx.Pick(rng, []int{0, 0, 1, 7, 16, 64, 200, 1000})
		p1 := ""
		if i%3 != 0 {
			if rng.Bool() {
				p1 = collFirst(rng)
			} else {
				p1 = randWProg(rng, false)
			}
		}
		off := 0
		if ends := encLens(p1); len(ends) > 0 {
			switch rng.Intn(6) {
			case 0:
				off = ends[len(ends)-1] // append directly behind phase 1
			case 1:
				off = rng.Intn(ends[len(ends)-1] + 1) // anywhere inside
			case 2:
				off = ends[len(ends)-1] + rng.Intn(5) // beyond what was written
			case 3:
				off = ends[rng.Intn(len(ends))] // a call boundary
			}
		} else if rng.Chance(1, 4) {
			off = rng.Intn(init + 3)
		}
		p2 := collFirst(rng)
		if rng.Chance(1, 5) {
			p2 = randWProg(rng, false)
		}
		kind := "whole"
		chunks := "-"
		switch rng.Intn(4) {
		case 1:
			kind, chunks = "one-byte", constChunks(1, 400)
		case 2:
			kind, chunks = "prime", constChunks(hx.Pick(rng, []int{2, 3, 5, 7, 11, 13}), 400)
		case 3:
			kind, chunks = "random", randomChunks(rng)
		}
		// the same offset reached by GoTo, by Skip (relative to the position behind phase 1) or from the end of the
		// storage; now and then a seek that would land in front of the buffer
		cur := 0
		if ends := encLens(p1); len(ends) > 0 {
			cur = ends[len(ends)-1]
		}
		seek := strconv.Itoa(off)
		switch rng.Intn(8) {
		case 0, 1:
			seek = fmt.Sprintf("c%+d", off-cur)
		case 2, 3:
			seek = fmt.Sprintf("e%+d", off-max(init, cur))
		case 4:
			if rng.Chance(1, 3) {
				seek = hx.Pick(rng, []string{"-1", fmt.Sprintf("c%+d", -cur-1-rng.Intn(3)), fmt.Sprintf("e%+d", -max(init, cur)-1-rng.Intn(3))})
			}
		}
		b.emit("rw "+strconv.Itoa(init)+" "+chunks+" "+p1+" | "+seek+" | "+p2, "inplace-"+kind)
	}
	r.Extra["cases_of_20_requests"] = r.Evaluations
	r.Evaluations = b.total
	r.Finish()
}
