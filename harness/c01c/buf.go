package main

import "github.com/iotaledger/hive.go/serializer/v2/stream"

func newBuf() *stream.ByteBuffer { return stream.NewByteBuffer() }
